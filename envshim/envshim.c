// envshim.so — LD_PRELOAD library that owns the environment of a verification harness.
//
//  1. entropy : getrandom()/getentropy() return a deterministic per-thread stream
//  2. clock   : clock_gettime/gettimeofday/time = real time + harness-controlled offset,
//               or a frozen clock that moves only when the harness advances it
//  3. file I/O: open/creat/write/pwrite/writev/ftruncate/fsync/fdatasync/rename/unlink/close
//               on paths under the configured root are appended to an in-memory op log
//
// The harness talks to the shim through the verifenv_* functions (resolved with dlsym).
#define _GNU_SOURCE
#include <dlfcn.h>
#include <errno.h>
#include <fcntl.h>
#include <pthread.h>
#include <stdarg.h>
#include <stdint.h>
#include <stdio.h>
#include <stdlib.h>
#include <string.h>
#include <sys/syscall.h>
#include <sys/time.h>
#include <sys/types.h>
#include <sys/uio.h>
#include <time.h>
#include <unistd.h>

// ---------------------------------------------------------------- entropy
static uint64_t g_seed = 0x9E3779B97F4A7C15ULL;
static __thread uint64_t t_state = 0;
static __thread int t_seeded = 0;
static __thread uint64_t t_label = 0;

static uint64_t splitmix(uint64_t *s) {
    uint64_t z = (*s += 0x9E3779B97F4A7C15ULL);
    z = (z ^ (z >> 30)) * 0xBF58476D1CE4E5B9ULL;
    z = (z ^ (z >> 27)) * 0x94D049BB133111EBULL;
    return z ^ (z >> 31);
}
static void fill_random(void *buf, size_t len) {
    if (!t_seeded) { t_state = g_seed ^ (t_label * 0xD6E8FEB86659FD93ULL); t_seeded = 1; }
    unsigned char *p = buf;
    while (len) {
        uint64_t v = splitmix(&t_state);
        size_t n = len < 8 ? len : 8;
        memcpy(p, &v, n);
        p += n; len -= n;
    }
}
void verifenv_set_global_seed(uint64_t s) { g_seed = s ? s : 0x9E3779B97F4A7C15ULL; }
// (re)start the calling thread's entropy stream with a label chosen by the harness
void verifenv_set_thread_seed(uint64_t label) { t_label = label; t_seeded = 0; }

ssize_t getrandom(void *buf, size_t len, unsigned int flags) { (void)flags; fill_random(buf, len); return (ssize_t)len; }
int getentropy(void *buf, size_t len) { fill_random(buf, len); return 0; }

// ---------------------------------------------------------------- clock
static volatile int64_t g_off_ns = 0;       // added to every clock
static __thread int64_t t_off_ns = 0;        // per-thread virtual time (searches that replay in parallel)
static volatile int g_frozen = 0;
static struct timespec g_frozen_real, g_frozen_mono;

static int real_clock_gettime(clockid_t c, struct timespec *ts) { return (int)syscall(SYS_clock_gettime, c, ts); }
static void add_ns(struct timespec *ts, int64_t ns) {
    int64_t t = (int64_t)ts->tv_sec * 1000000000LL + ts->tv_nsec + ns;
    ts->tv_sec = t / 1000000000LL; ts->tv_nsec = t % 1000000000LL;
}
int clock_gettime(clockid_t c, struct timespec *ts) {
    if (g_frozen && (c == CLOCK_REALTIME || c == CLOCK_MONOTONIC || c == CLOCK_MONOTONIC_RAW ||
                     c == CLOCK_BOOTTIME || c == CLOCK_REALTIME_COARSE || c == CLOCK_MONOTONIC_COARSE)) {
        *ts = (c == CLOCK_REALTIME || c == CLOCK_REALTIME_COARSE) ? g_frozen_real : g_frozen_mono;
        add_ns(ts, g_off_ns + t_off_ns);
        return 0;
    }
    int r = real_clock_gettime(c, ts);
    if (r == 0 && (c == CLOCK_REALTIME || c == CLOCK_MONOTONIC || c == CLOCK_MONOTONIC_RAW || c == CLOCK_BOOTTIME ||
                   c == CLOCK_REALTIME_COARSE || c == CLOCK_MONOTONIC_COARSE)) add_ns(ts, g_off_ns + t_off_ns);
    return r;
}
int gettimeofday(struct timeval *tv, void *tz) {
    (void)tz; struct timespec ts; clock_gettime(CLOCK_REALTIME, &ts);
    if (tv) { tv->tv_sec = ts.tv_sec; tv->tv_usec = ts.tv_nsec / 1000; }
    return 0;
}
time_t time(time_t *t) { struct timespec ts; clock_gettime(CLOCK_REALTIME, &ts); if (t) *t = ts.tv_sec; return ts.tv_sec; }

void verifenv_clock_advance_ms(int64_t ms) { __sync_fetch_and_add(&g_off_ns, ms * 1000000LL); }
void verifenv_clock_reset(void) { g_off_ns = 0; }
void verifenv_clock_thread_advance_ms(int64_t ms) { t_off_ns += ms * 1000000LL; }
void verifenv_clock_thread_reset(void) { t_off_ns = 0; }
int64_t verifenv_clock_offset_ms(void) { return g_off_ns / 1000000LL; }
// freeze: real-time clock reads `epoch_s` (seconds since the epoch), monotonic reads 1000 s; both + offset
void verifenv_clock_freeze(int64_t epoch_s) {
    g_frozen_real.tv_sec = epoch_s; g_frozen_real.tv_nsec = 0;
    g_frozen_mono.tv_sec = 1000; g_frozen_mono.tv_nsec = 0;
    g_frozen = 1;
}
void verifenv_clock_unfreeze(void) { g_frozen = 0; }

// ---------------------------------------------------------------- file I/O log
enum { K_OPEN = 1, K_WRITE = 2, K_TRUNC = 3, K_SYNC = 4, K_RENAME = 5, K_UNLINK = 6, K_CLOSE = 7, K_MARK = 8 };
// record: u8 kind | u32 a | u64 b | u32 len | bytes[len]
//   OPEN   a=fd b=flags  bytes=path          WRITE a=fd b=offset bytes=data
//   TRUNC  a=fd b=length                     SYNC  a=fd b=0(fsync)/1(fdatasync)
//   RENAME a=len(from) bytes=from+to         UNLINK bytes=path
//   CLOSE  a=fd                              MARK  a=tag b=value
static pthread_mutex_t g_mu = PTHREAD_MUTEX_INITIALIZER;
static char g_root[512];
static size_t g_rootlen = 0;
static volatile int g_logging = 0;
static unsigned char *g_log = 0;
static size_t g_loglen = 0, g_logcap = 0;
#define MAXFD 4096
static unsigned char g_tracked[MAXFD];

static void log_rec(uint8_t kind, uint32_t a, uint64_t b, const void *d1, uint32_t l1, const void *d2, uint32_t l2) {
    size_t need = 1 + 4 + 8 + 4 + (size_t)l1 + l2;
    if (g_loglen + need > g_logcap) {
        size_t nc = g_logcap ? g_logcap * 2 : (1 << 16);
        while (nc < g_loglen + need) nc *= 2;
        g_log = realloc(g_log, nc); g_logcap = nc;
    }
    unsigned char *p = g_log + g_loglen;
    uint32_t l = l1 + l2;
    *p++ = kind; memcpy(p, &a, 4); p += 4; memcpy(p, &b, 8); p += 8; memcpy(p, &l, 4); p += 4;
    if (l1) { memcpy(p, d1, l1); p += l1; }
    if (l2) { memcpy(p, d2, l2); p += l2; }
    g_loglen += need;
}
static int under_root(const char *path) {
    return g_logging && g_rootlen && path && strncmp(path, g_root, g_rootlen) == 0;
}
void verifenv_io_begin(const char *root) {
    pthread_mutex_lock(&g_mu);
    strncpy(g_root, root, sizeof g_root - 1); g_rootlen = strlen(g_root);
    g_loglen = 0; memset(g_tracked, 0, sizeof g_tracked); g_logging = 1;
    pthread_mutex_unlock(&g_mu);
}
void verifenv_io_end(void) { pthread_mutex_lock(&g_mu); g_logging = 0; pthread_mutex_unlock(&g_mu); }
void verifenv_io_clear(void) { pthread_mutex_lock(&g_mu); g_loglen = 0; pthread_mutex_unlock(&g_mu); }
void verifenv_io_mark(uint32_t tag, uint64_t value) {
    pthread_mutex_lock(&g_mu); if (g_logging) log_rec(K_MARK, tag, value, 0, 0, 0, 0); pthread_mutex_unlock(&g_mu);
}
size_t verifenv_io_len(void) { return g_loglen; }
// copies the log into buf (cap bytes); returns bytes copied
size_t verifenv_io_copy(unsigned char *buf, size_t cap) {
    pthread_mutex_lock(&g_mu);
    size_t n = g_loglen < cap ? g_loglen : cap; memcpy(buf, g_log, n);
    pthread_mutex_unlock(&g_mu); return n;
}
int verifenv_present(void) { return 1; }

static void note_open(int fd, const char *path, int flags) {
    if (fd < 0 || fd >= MAXFD || !under_root(path)) return;
    pthread_mutex_lock(&g_mu);
    g_tracked[fd] = 1;
    log_rec(K_OPEN, (uint32_t)fd, (uint64_t)(uint32_t)flags, path, (uint32_t)strlen(path), 0, 0);
    pthread_mutex_unlock(&g_mu);
}
static int tracked(int fd) { return g_logging && fd >= 0 && fd < MAXFD && g_tracked[fd]; }

int open(const char *path, int flags, ...) {
    mode_t mode = 0; if (flags & (O_CREAT | O_TMPFILE)) { va_list ap; va_start(ap, flags); mode = va_arg(ap, mode_t); va_end(ap); }
    int fd = (int)syscall(SYS_openat, AT_FDCWD, path, flags, mode);
    note_open(fd, path, flags); return fd;
}
int open64(const char *path, int flags, ...) {
    mode_t mode = 0; if (flags & (O_CREAT | O_TMPFILE)) { va_list ap; va_start(ap, flags); mode = va_arg(ap, mode_t); va_end(ap); }
    int fd = (int)syscall(SYS_openat, AT_FDCWD, path, flags | O_LARGEFILE, mode);
    note_open(fd, path, flags); return fd;
}
int openat(int dfd, const char *path, int flags, ...) {
    mode_t mode = 0; if (flags & (O_CREAT | O_TMPFILE)) { va_list ap; va_start(ap, flags); mode = va_arg(ap, mode_t); va_end(ap); }
    int fd = (int)syscall(SYS_openat, dfd, path, flags, mode);
    if (path && path[0] == '/') note_open(fd, path, flags);
    return fd;
}
int openat64(int dfd, const char *path, int flags, ...) {
    mode_t mode = 0; if (flags & (O_CREAT | O_TMPFILE)) { va_list ap; va_start(ap, flags); mode = va_arg(ap, mode_t); va_end(ap); }
    int fd = (int)syscall(SYS_openat, dfd, path, flags | O_LARGEFILE, mode);
    if (path && path[0] == '/') note_open(fd, path, flags);
    return fd;
}
int creat(const char *path, mode_t mode) { return open(path, O_CREAT | O_WRONLY | O_TRUNC, mode); }
int creat64(const char *path, mode_t mode) { return open64(path, O_CREAT | O_WRONLY | O_TRUNC, mode); }

ssize_t write(int fd, const void *buf, size_t n) {
    if (!tracked(fd)) return syscall(SYS_write, fd, buf, n);
    pthread_mutex_lock(&g_mu);
    ssize_t r = syscall(SYS_write, fd, buf, n);
    if (r > 0) {
        off_t after = (off_t)syscall(SYS_lseek, fd, 0, SEEK_CUR);
        log_rec(K_WRITE, (uint32_t)fd, (uint64_t)(after - r), buf, (uint32_t)r, 0, 0);
    }
    pthread_mutex_unlock(&g_mu);
    return r;
}
ssize_t pwrite64(int fd, const void *buf, size_t n, off_t off) {
    ssize_t r = syscall(SYS_pwrite64, fd, buf, n, off);
    if (r > 0 && tracked(fd)) { pthread_mutex_lock(&g_mu); log_rec(K_WRITE, (uint32_t)fd, (uint64_t)off, buf, (uint32_t)r, 0, 0); pthread_mutex_unlock(&g_mu); }
    return r;
}
ssize_t pwrite(int fd, const void *buf, size_t n, off_t off) { return pwrite64(fd, buf, n, off); }
ssize_t writev(int fd, const struct iovec *iov, int cnt) {
    if (!tracked(fd)) return syscall(SYS_writev, fd, iov, cnt);
    // split into plain writes so that each is logged with its bytes
    ssize_t total = 0;
    for (int i = 0; i < cnt; i++) {
        if (!iov[i].iov_len) continue;
        ssize_t r = write(fd, iov[i].iov_base, iov[i].iov_len);
        if (r < 0) return total ? total : r;
        total += r;
        if ((size_t)r < iov[i].iov_len) break;
    }
    return total;
}
static int do_trunc(int fd, off_t len) {
    int r = (int)syscall(SYS_ftruncate, fd, len);
    if (r == 0 && tracked(fd)) { pthread_mutex_lock(&g_mu); log_rec(K_TRUNC, (uint32_t)fd, (uint64_t)len, 0, 0, 0, 0); pthread_mutex_unlock(&g_mu); }
    return r;
}
int ftruncate(int fd, off_t len) { return do_trunc(fd, len); }
int ftruncate64(int fd, off_t len) { return do_trunc(fd, len); }
int fsync(int fd) {
    if (tracked(fd)) { pthread_mutex_lock(&g_mu); log_rec(K_SYNC, (uint32_t)fd, 0, 0, 0, 0, 0); pthread_mutex_unlock(&g_mu); return 0; }
    return (int)syscall(SYS_fsync, fd);
}
int fdatasync(int fd) {
    if (tracked(fd)) { pthread_mutex_lock(&g_mu); log_rec(K_SYNC, (uint32_t)fd, 1, 0, 0, 0, 0); pthread_mutex_unlock(&g_mu); return 0; }
    return (int)syscall(SYS_fdatasync, fd);
}
int rename(const char *from, const char *to) {
    int r = (int)syscall(SYS_renameat2, AT_FDCWD, from, AT_FDCWD, to, 0);
    if (r == 0 && (under_root(from) || under_root(to))) {
        pthread_mutex_lock(&g_mu);
        log_rec(K_RENAME, (uint32_t)strlen(from), 0, from, (uint32_t)strlen(from), to, (uint32_t)strlen(to));
        pthread_mutex_unlock(&g_mu);
    }
    return r;
}
int unlink(const char *path) {
    int r = (int)syscall(SYS_unlinkat, AT_FDCWD, path, 0);
    if (r == 0 && under_root(path)) { pthread_mutex_lock(&g_mu); log_rec(K_UNLINK, 0, 0, path, (uint32_t)strlen(path), 0, 0); pthread_mutex_unlock(&g_mu); }
    return r;
}
int close(int fd) {
    if (tracked(fd)) { pthread_mutex_lock(&g_mu); g_tracked[fd] = 0; log_rec(K_CLOSE, (uint32_t)fd, 0, 0, 0, 0, 0); pthread_mutex_unlock(&g_mu); }
    return (int)syscall(SYS_close, fd);
}
