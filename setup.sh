#!/bin/bash
# Build the framework from files on disk only (offline).
set -e
cd "$(dirname "$0")"
export CARGO_NET_OFFLINE=true
gcc -O2 -shared -fPIC -o envshim/envshim.so envshim/envshim.c -ldl -lpthread
( cd nvc && cargo build --release --offline --bins 2>&1 | tail -3 )
echo "setup ok"
