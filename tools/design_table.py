#!/usr/bin/env python3
"""design_table.py: rewrites the section between the markers <!-- SEEDED-TABLE-BEGIN --> and
<!-- SEEDED-TABLE-END --> of /verif/DESIGN.md from /verif/seeded/*/meta.json (confirmed changes) and
/verif/seeding/screen-round{2,3}/ (changes screened but not, or not yet, confirmed with a full-suite run)."""
import glob, json, os, re

# what had to be strengthened before the check caught the change (first screening missed it)
STRENGTHENED = {
    'C01-A': 'seed 8 (two leadership changes, follower with a stale prefix)',
    'C01-B': 'configurations on a real RaftWal (crash restarts from what RaftRecoveryState recovers); C10 caught it from the start',
    'C03-A': 'CoordCommit became its own event (timeout/abort can fall between the last vote and commit)',
    'C03-B': 'invariant commit-not-applied-by-prepared-shard; last transaction also deletes a missing key',
    'C03-C': 'part T: participant handlers on real threads (vsched)',
    'C03-D': 'part T: coordinator commit || cleanup_timeouts on real threads (vsched)',
    'C03-F': 'invariant abort-not-sent-to-participant',
    'C05-A': 'part L (high-degree delete_node branch, >= 100 incident edges)',
    'C05-F': 'undirected create_edge/delete_edge programs against delete_node',
    'C07-B': 'crash images of a save over an existing file: the previous content must still load',
    'C07-C': 'restore_from_bytes into a store whose lowest embedding slot was freed; that target in both tiers',
    'C08-E': 'configuration with auto-checkpoints on',
    'C08-F': 'configuration with a Bloom-filtered store',
    'C09-B': 'part S4 (lock expiry and takeover) + per-event lock checks',
    'C11-E': 'put_durable || delete_durable on a key that is absent at the start',
    'C13-B': 'vote alphabet includes No from shard 0 for the first transaction',
    'C14-B': 'TTL grants of 0 / 1 ns / 1 h by root and by a non-root admin, 1 ms clock tick',
    'C15-F': 'wide flat chains (50 operands) in part A',
    'C16-D': 'co-signature mutations naming a registered validator',
    'C16-F': 'configuration with a non-empty codebook and the transition validator',
    'C17-B': 'local event SuspectAhead (suspicion at an incarnation above the recorded one)',
    'C18-B': 'part M (weighted spanning trees on 6-7 nodes)',
    'C19-F': 'part Q also with gc_batch_size 2',
    'C20-D': 'hostile structured tensor-train values (size fields replaced along the rank chain)',
    'C01-F': '5-voter rival-candidates seed under pre-vote; driver glue also broadcasts when a candidate re-runs',
    'C01-G': 'hook carries the fast-path history; seed with a stale follower about to be repaired on the fast path',
    'C01-H': 'rival-candidates seed also without pre-vote (async election path)',
    'C02-H': 'ordinary keys that merely start with the letters _cache',
    'C03-G': 'C13: second recover() after the prepare timeout must not reverse a commit decision (caught by C13)',
    'C04-H': 'every public read/aggregate entry point incl. count_column driven through the enumeration',
    'C06-G': 'engine configurations (parallel threshold 2) so that the parallel search paths run on tiny stores',
    'C06-H': 'engine configuration max_keys_per_scan, clear() in the alphabet',
    'C08-G': 'checkpoint names in a prefix relation',
    'C08-H': 'query cache on + async text entry point',
    'C09-G': 'hash and ordered indexes on the _id column',
    'C10-G': 'async election with a transport that refuses the broadcast',
    'C11-G': 'value-carrying scan (scan_filter_map) in the alphabet',
    'C11-H': 'Bloom-filtered durable store; lock releases as scheduling points for these programs',
    'C12-G': 'remove_wait and the rest of the public wait-graph API in the sequential alphabet',
    'C12-H': 'coordinator on a TxWal whose size cap makes each append fail in turn',
    'C13-G': 'log checkpoint (truncate_wal at a quiescent moment) followed by new transactions',
    'C13-H': 'vote from a non-participant shard',
    'C15-H': 'C3 also through execute_parsed_async',
    'C16-G': 're-open of the chain on the same store, incl. after every crash point inside append',
    'C17-G': 'part C2: add_peer after the member was learned through gossip',
    'C17-H': 'part C2: Suspect naming a higher incarnation, suspicion timeout + gossip_round',
    'C18-H': 'graphs built through batch_create_edges as well (C05 catches it too)',
    'C19-G': 'put options (empty content type etc.) in the alphabet',
}

def main():
    rows = []
    for f in sorted(glob.glob('/verif/seeded/*/meta.json')):
        m = json.load(open(f))
        first = any('DETECTED' in l for l in (m['ran'].get('check_first_screening') or []))
        rows.append((m['id'], m['title'][:90], 'yes' if m['detected'] else 'NO', ', '.join(m['detected_by']) or '-', (m['signatures'] or ['-'])[0][:70], STRENGTHENED.get(m['id'], '' if first else '(see ledger)')))
    out = ['| id | change | caught | by | first signature | strengthening that was needed |', '|---|---|---|---|---|---|']
    for r in rows:
        out.append('| ' + ' | '.join(x.replace('|', '/') for x in r) + ' |')
    body = '\n'.join(out)
    p = '/verif/DESIGN.md'
    s = open(p).read()
    s2 = re.sub(r'(<!-- SEEDED-TABLE-BEGIN -->).*?(<!-- SEEDED-TABLE-END -->)', lambda mm: mm.group(1) + '\n' + body + '\n' + mm.group(2), s, flags=re.S)
    open(p, 'w').write(s2)
    print(f'{len(rows)} rows; detected {sum(1 for r in rows if r[2]=="yes")}')

main()
