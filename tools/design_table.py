#!/usr/bin/env python3
"""design_table.py: rewrites the section between the markers <!-- SEEDED-TABLE-BEGIN --> and
<!-- SEEDED-TABLE-END --> of /verif/DESIGN.md from /verif/seeded/*/meta.json (confirmed changes) and
/verif/seeding/screen-round{2,3}/ (changes screened but not, or not yet, confirmed with a full-suite run)."""
import glob, json, os, re

# what had to be strengthened before the check caught the change (first screening missed it)
STRENGTHENED = {
    'C01-A': 'seed 8 (two leadership changes, follower with a stale prefix)',
    'C01-B': 'configurations on a real RaftWal (crash restarts from what RaftRecoveryState recovers); C10 caught it from the start',
    'C03-A': 'CoordCommit became its own event (timeout/abort can fall between the last vote and commit)',
    'C03-B': 'invariant commit-not-applied-by-prepared-shard; last transaction also deletes a missing key',
    'C03-C': 'part T: participant handlers on real threads (vsched)',
    'C03-D': 'part T: coordinator commit || cleanup_timeouts on real threads (vsched)',
    'C03-F': 'invariant abort-not-sent-to-participant',
    'C05-A': 'part L (high-degree delete_node branch, >= 100 incident edges)',
    'C05-F': 'undirected create_edge/delete_edge programs against delete_node',
    'C07-B': 'crash images of a save over an existing file: the previous content must still load',
    'C07-C': 'restore_from_bytes into a store whose lowest embedding slot was freed; that target in both tiers',
    'C08-E': 'configuration with auto-checkpoints on',
    'C08-F': 'configuration with a Bloom-filtered store',
    'C09-B': 'part S4 (lock expiry and takeover) + per-event lock checks',
    'C11-E': 'put_durable || delete_durable on a key that is absent at the start',
    'C13-B': 'vote alphabet includes No from shard 0 for the first transaction',
    'C14-B': 'TTL grants of 0 / 1 ns / 1 h by root and by a non-root admin, 1 ms clock tick',
    'C15-F': 'wide flat chains (50 operands) in part A',
    'C16-D': 'co-signature mutations naming a registered validator',
    'C16-F': 'configuration with a non-empty codebook and the transition validator',
    'C17-B': 'local event SuspectAhead (suspicion at an incarnation above the recorded one)',
    'C18-B': 'part M (weighted spanning trees on 6-7 nodes)',
    'C19-F': 'part Q also with gc_batch_size 2',
    'C20-D': 'hostile structured tensor-train values (size fields replaced along the rank chain)',
    'C01-F': '5-voter rival-candidates seed under pre-vote; driver glue also broadcasts when a candidate re-runs',
}

def main():
    rows = []
    for f in sorted(glob.glob('/verif/seeded/*/meta.json')):
        m = json.load(open(f))
        first = any('DETECTED' in l for l in (m['ran'].get('check_first_screening') or []))
        rows.append((m['id'], m['title'][:90], 'yes' if m['detected'] else 'NO', ', '.join(m['detected_by']) or '-', (m['signatures'] or ['-'])[0][:70], STRENGTHENED.get(m['id'], '' if first else '(see ledger)')))
    out = ['| id | change | caught | by | first signature | strengthening that was needed |', '|---|---|---|---|---|---|']
    for r in rows:
        out.append('| ' + ' | '.join(x.replace('|', '/') for x in r) + ' |')
    body = '\n'.join(out)
    p = '/verif/DESIGN.md'
    s = open(p).read()
    s2 = re.sub(r'(<!-- SEEDED-TABLE-BEGIN -->).*?(<!-- SEEDED-TABLE-END -->)', lambda mm: mm.group(1) + '\n' + body + '\n' + mm.group(2), s, flags=re.S)
    open(p, 'w').write(s2)
    print(f'{len(rows)} rows; detected {sum(1 for r in rows if r[2]=="yes")}')

main()
