#!/usr/bin/env python3
"""mutant_queue.py: processes seeded changes found under /tmp/mut-*/OUT/{A,B} (or given dirs), one at a time,
in the scratch worktree /tmp/confirm (never in /repo):
  1. patch applies; 2. demonstration passes without and fails with the change;
  3. the pinned suite (all stable tests) still passes with the change;
  4. the property's check (quick tier) run against the changed tree: DETECTED / MISSED.
Results: /verif/scratch/mutresults/<id>-<variant>.json ; confirmed ones are copied to /verif/seeded/<id>-<variant>/.
"""
import glob, json, os, re, shutil, subprocess, sys, time

W = os.environ.get('MUTQ_W', '/tmp/confirm')
RES = '/verif/scratch/mutresults'
os.makedirs(RES, exist_ok=True)

def sh(cmd, timeout=7200, cwd=None):
    p = subprocess.run(cmd, shell=True, capture_output=True, text=True, timeout=timeout, cwd=cwd)
    return p.returncode, p.stdout + p.stderr

def clean():
    sh(f'git -C {W} checkout -q -- . && git -C {W} clean -fdq -e target')

def demo_info(d):
    src = open(f'{d}/demo.rs').read()
    m = re.search(r'[Pp]lace(?:ment)?:?\s*(?:copy (?:this file )?to)?\s*`?([\w/\.\-]+\.rs)`?', src)
    place = m.group(1) if m else None
    if place and place.startswith('/tmp/'):
        place = re.sub(r'^/tmp/[^/]+/', '', place)
    t = re.search(r'--test\s+([\w\-]+)', src)
    p = re.search(r'-p\s+([\w\-]+)', src)
    crate, test = (p.group(1) if p else None), (t.group(1) if t else None)
    if crate and test:
        place = f'{crate}/tests/{test}.rs'   # demonstrations always go under the crate's tests/ directory
    return place, crate, test

def run_demo(d, place, crate, test):
    os.makedirs(os.path.dirname(f'{W}/{place}'), exist_ok=True)
    shutil.copy(f'{d}/demo.rs', f'{W}/{place}')
    rc, out = sh(f'CARGO_TARGET_DIR={W}/target cargo test -p {crate} --offline --test {test} 2>&1 | tail -40', cwd=W, timeout=3600)
    ok = re.search(r'test result: ok', out) is not None and 'FAILED' not in out and 'error[' not in out and 'error:' not in out
    return ok, out[-1500:]

def process(d, pid, variant):
    tag = f'{pid}-{variant}'
    outp = f'{RES}/{tag}.json'
    if os.path.exists(outp):
        r = json.load(open(outp))
        if (r.get('demo') or {}).get('passes_without_change') is None and r.get('applies'):
            place, crate, test = demo_info(d)
            if place and crate and test:
                clean()
                ok0, o0 = run_demo(d, place, crate, test)
                sh(f'git -C {W} apply {d}/patch.diff')
                ok1, o1 = run_demo(d, place, crate, test)
                clean()
                r['demo'] = {'place': place, 'crate': crate, 'test': test, 'passes_without_change': ok0, 'passes_with_change': ok1, 'tail_with': o1[-600:]}
                json.dump(r, open(outp, 'w'), indent=1)
                print(tag, 'demo refreshed', ok0, ok1, flush=True)
        return
    r = {'id': tag, 'property': pid, 'dir': d, 'started': time.ctime()}
    patch = f'{d}/patch.diff'
    clean()
    rc, out = sh(f'git -C {W} apply --check {patch}')
    r['applies'] = rc == 0
    if rc != 0:
        r['note'] = out[-500:]
        json.dump(r, open(outp, 'w'), indent=1); return
    place, crate, test = demo_info(d)
    r['demo'] = {'place': place, 'crate': crate, 'test': test}
    if place and crate and test:
        ok0, o0 = run_demo(d, place, crate, test)
        sh(f'git -C {W} apply {patch}')
        ok1, o1 = run_demo(d, place, crate, test)
        r['demo'].update({'passes_without_change': ok0, 'passes_with_change': ok1, 'tail_without': o0[-400:], 'tail_with': o1[-600:]})
        clean()
    # pinned suite with the change
    rc, out = sh(f'MUT_W={W} /verif/tools/confirm_mutant.sh {patch}', timeout=5400)
    r['suite'] = {'all_stable_pass': rc == 0, 'summary': out.strip().splitlines()[-6:]}
    # our check
    checks = os.environ.get('MUT_CHECKS', pid)
    rc, out = sh(f'MUT_SRC=head MUT_W={W} MUT_ALT={W}-nvc MUT_OUT={W}-out MUT_TGT={W}-nvc-target /verif/tools/mutant_check.sh {patch} {checks}', timeout=5400)
    r['check'] = out.strip().splitlines()
    r['detected'] = any('DETECTED' in l for l in r['check'])
    r['finished'] = time.ctime()
    json.dump(r, open(outp, 'w'), indent=1)
    print(tag, 'applies', r['applies'], 'demo', r.get('demo'), 'suite', r['suite']['all_stable_pass'], 'detected', r['detected'], flush=True)

def main():
    dirs = sys.argv[1:] or sorted(glob.glob('/tmp/mut-*/OUT/[AB]'))
    for d in dirs:
        m = re.search(r'mut([234]?)-(c\d+)/OUT/([AB])', d)
        if not m or not os.path.exists(f'{d}/patch.diff'):
            continue
        # round 2 (worktrees /tmp/mut2-*) is filed as variants C and D, round 3 (/tmp/mut3-*) as E and F, round 4 (/tmp/mut4-*) as G and H
        variant = {'': {'A': 'A', 'B': 'B'}, '2': {'A': 'C', 'B': 'D'}, '3': {'A': 'E', 'B': 'F'}, '4': {'A': 'G', 'B': 'H'}}[m.group(1)][m.group(3)]
        process(d, m.group(2).upper(), variant)

main()
