#!/usr/bin/env python3
"""mutant_retest.py: for seeded-change results whose full-suite run had a few tests not passing, re-run exactly
those tests (3x, serially, machine otherwise idle) in /tmp/confirm with the change applied. A test that passes
3/3 in isolation was a load-induced timeout of the full run, not an effect of the change; the result records
both facts.  Usage: mutant_retest.py [ID-V ...]"""
import glob, json, os, re, subprocess, sys

W = os.environ.get('MUTQ_W', '/tmp/confirm')
RES = '/verif/scratch/mutresults'

def sh(cmd, timeout=3600):
    p = subprocess.run(cmd, shell=True, capture_output=True, text=True, timeout=timeout, cwd=W)
    return p.returncode, p.stdout + p.stderr

def main():
    want = set(sys.argv[1:])
    for f in sorted(glob.glob(f'{RES}/*.json')):
        r = json.load(open(f))
        if want and r['id'] not in want:
            continue
        s = r.get('suite') or {}
        if s.get('all_stable_pass') or not s or s.get('all_stable_pass_after_retest'):
            continue
        names = [l.split('NOT PASSED')[1].strip() for l in s.get('summary', []) if 'NOT PASSED' in l]
        if not names or len(names) > 5:
            continue
        sh(f'git -C {W} checkout -q -- . && git -C {W} clean -fdq -e target')
        rc, out = sh(f"git -C {W} apply {r['dir']}/patch.diff")
        if rc != 0:
            continue
        res = {}
        for n in names:
            # junit name = <binary-id>::<test path>; binary id may be crate or crate::bin
            parts = n.split('::')
            test = '::'.join(parts[1:])
            alt = '::'.join(parts[2:]) if len(parts) > 2 else test
            passes = 0
            tail = ''
            for _ in range(3):
                rc, out = sh(f"CARGO_TARGET_DIR={W}/target cargo nextest run --workspace --offline --no-fail-fast --tool-config-file pb:/w/lib/nextest.toml --profile pb --test-threads 1 -E 'test(={test}) | test(={alt})' 2>&1 | tail -8")
                m = re.search(r'(\d+) tests? run: (\d+) passed', out)
                if rc == 0 and m and int(m.group(1)) >= 1 and m.group(1) == m.group(2):
                    passes += 1
                tail = out[-300:]
            res[n] = {'isolated_runs': 3, 'isolated_passes': passes, 'tail': tail}
        sh(f'git -C {W} checkout -q -- .')
        r['retest'] = res
        r['suite']['all_stable_pass_after_retest'] = all(v['isolated_passes'] == 3 for v in res.values())
        json.dump(r, open(f, 'w'), indent=1)
        print(r['id'], {k: v['isolated_passes'] for k, v in res.items()}, flush=True)

main()
