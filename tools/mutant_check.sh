#!/bin/bash
# tools/mutant_check.sh <patch.diff> <ID> [<ID>...]  [-- extra check args]
# Applies a seeded change to the scratch worktree /tmp/confirm (never to /repo), builds the harness
# workspace against that worktree (/tmp/nvc-alt) and runs the named checks' quick tier with output
# redirected to /tmp/mutout. Prints one line per check: DETECTED / MISSED / MACHINERY.
set -u
PATCH="$1"; shift
W=${MUT_W:-/tmp/confirm}; ALT=${MUT_ALT:-/tmp/nvc-alt}; OUT=${MUT_OUT:-/tmp/mutout}; TGT=${MUT_TGT:-/tmp/nvc-alt-target}
git -C $W checkout -q -- . && git -C $W clean -fdq -e target
if [ "$PATCH" != "none" ]; then git -C $W apply "$PATCH" || { echo "PATCH DOES NOT APPLY"; exit 3; }; fi
rm -rf $ALT && mkdir -p $ALT $OUT/evidence
if [ "${MUT_SRC:-worktree}" = "head" ]; then
  # committed harness sources (the confirmation queue: harness files may be mid-edit in the working tree)
  git -C /verif archive HEAD nvc | tar -x -C $ALT --strip-components=1
else
  cp -r /verif/nvc/vsched /verif/nvc/nvc /verif/nvc/Cargo.toml /verif/nvc/Cargo.lock /verif/nvc/.cargo $ALT/
fi
sed -i "s#path = \"/repo/#path = \"$W/#" $ALT/nvc/Cargo.toml
sed -i "s#path = \"../shims/lock_api\"#path = \"/verif/shims/lock_api\"#" $ALT/Cargo.toml
sed -i "s#target-dir = \"/verif/target\"#target-dir = \"$TGT\"#" $ALT/.cargo/config.toml
cp /verif/known_findings.json $OUT/
TIER="${MUT_TIER:-quick}"
for ID in "$@"; do
  BIN=$(echo $ID | tr A-Z a-z)
  ( cd $ALT && CARGO_NET_OFFLINE=true cargo build --release --offline --bin $BIN ) > $OUT/build-$ID.log 2>&1 || { echo "$ID MACHINERY(build failed)"; tail -5 $OUT/build-$ID.log; continue; }
  VERIF_DIR=$OUT VERIF_SCRATCH=/dev/shm LD_PRELOAD=/verif/envshim/envshim.so $TGT/release/$BIN --tier $TIER > $OUT/run-$ID.log 2>&1
  rc=$?
  sigs=$(grep "signature:" $OUT/run-$ID.log | sort | uniq -c | tr '\n' ';')
  case $rc in 0) echo "$ID MISSED (exit 0)";; 1) echo "$ID DETECTED: $sigs";; *) echo "$ID MACHINERY(exit $rc): $(grep MACHINERY $OUT/run-$ID.log | head -2)";; esac
done
git -C $W checkout -q -- . 
