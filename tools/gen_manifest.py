#!/usr/bin/env python3
"""Generates /verif/MANIFEST.json from the table below (kept valid at all times)."""
import json, os
HERE = os.path.dirname(os.path.dirname(os.path.abspath(__file__)))
ALL = [f"C{i:02d}" for i in range(1, 21)]
# id -> dict(category, technique, text, note, design_ref, engine)
BUILT = {
 "C17": dict(category="model_checking", engine="E3/E4 explicit-state over real LWWMembershipState",
   technique="exhaustive enumeration of update multisets x permutations x batchings + explicit-state BFS over real merge/suspect/fail/refute handlers",
   text="Every multiset of <=4 (thorough 5) updates over 2 members (3 members: <=3) with ties, in every distinct order, batching and with repetition, is merged by the real LWWMembershipState and all replicas must agree; BFS over two gossiping replicas checks incarnation/Lamport monotonicity and 'never Failed above announced incarnation' on every transition; the manager's handle_gossip(Sync) is driven with every short Sync sequence.",
   note="Small scope: 2-3 members, timestamps {1,2}, incarnations {0,1}; incarnations announced only by the member itself; no separate model - every transition runs the real code.",
   design_ref="§2 C17"),
}
def main():
    checks = []
    for pid in ALL:
        if pid not in BUILT: continue
        b = BUILT[pid]
        checks.append({
            "property_id": pid,
            "quick_cmd": f"./check {pid} --tier quick",
            "thorough_cmd": f"./check {pid} --tier thorough",
            "evidence_file": f"/verif/evidence/{pid}.json",
            "replay_cmd_template": f"./check {pid} --replay {{path}}",
            "engine": b["engine"],
            "level_claimed": {"category": b["category"], "text": b["text"], "design_ref": b["design_ref"]},
            "level_note": b["note"],
            "technique": b["technique"],
        })
    na = [{"property_id": p, "reason": "check not built yet in this session (planned: see DESIGN.md §0); not claimed until it exists"} for p in ALL if p not in BUILT]
    m = {
        "version": 1,
        "setup_cmd": "./setup.sh",
        "hooks": {
            "guard": "--cfg neumann_verif",
            "enable": "RUSTFLAGS='--cfg neumann_verif --check-cfg cfg(neumann_verif)' via /verif/nvc/.cargo/config.toml (harness workspace depends on /repo crates by path)",
            "baseline_off_cmd": "cd /repo && cargo nextest run --workspace --no-fail-fast --tool-config-file pb:/w/lib/nextest.toml --profile pb --test-threads 8 --offline",
            "source_commits": [],
            "add_only": True,
        },
        "engines": [
            {"name": "E1 vsched", "path": "/verif/nvc/vsched + /verif/shims/lock_api", "serves_properties": ["C05","C09","C11","C12","C16","C19"], "kind_free_text": "stateless preemption-bounded exploration of real threads; every parking_lot/dashmap lock acquisition is a scheduling point via a vendored lock_api"},
            {"name": "E2 envshim", "path": "/verif/envshim/envshim.c + /verif/nvc/nvc/src/crash.rs", "serves_properties": ["C02","C07","C10","C13"], "kind_free_text": "LD_PRELOAD: deterministic entropy, virtual clock, file-I/O op log; crash-image enumerator (every byte-torn write, every unsynced tail)"},
            {"name": "E3 explicit-state", "path": "/verif/nvc/nvc/src/bin", "serves_properties": ["C01","C03","C17"], "kind_free_text": "BFS over real protocol handlers with canonical state dedup"},
            {"name": "E4 bounded-exhaustive", "path": "/verif/nvc/nvc/src/bin", "serves_properties": ["C04","C06","C08","C14","C15","C18","C20"], "kind_free_text": "all operation sequences / inputs up to a bound against a reference oracle"},
        ],
        "checks": checks,
        "not_applicable": na,
        "notes": "All checks run real /repo code (path dependencies, rebuilt by cargo on every invocation). exit 2 = machinery failure, never a verdict.",
    }
    json.dump(m, open(os.path.join(HERE, "MANIFEST.json"), "w"), indent=1)
    print("checks:", [c["property_id"] for c in checks], "not_applicable:", len(na))
main()
