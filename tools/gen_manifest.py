#!/usr/bin/env python3
"""Generates /verif/MANIFEST.json from the table below (kept valid at all times)."""
import json, os
HERE = os.path.dirname(os.path.dirname(os.path.abspath(__file__)))
ALL = [f"C{i:02d}" for i in range(1, 21)]
# id -> dict(category, technique, text, note, design_ref, engine)
BUILT = {
 "C01": dict(category="model_checking", engine="E3 stateright BFS over real RaftNode (verif_export/verif_import hook)",
   technique="explicit-state breadth-first search (stateright) in which every transition rebuilds one real RaftNode from a snapshot and runs one real handler / production sender; depth-bounded from scripted reachable seeds",
   text="3 (thorough also 5) real RaftNodes; actions: deliver any in-flight message, duplicate (budget), election timer, time passing at a voter, heartbeat, propose, crash/restart from (term, vote, log) (budget); loss and reordering are inherent in the message-set semantics; budgets on term/log/dup/crash are part of the state. On every state: election safety, log matching, state-machine safety, leader completeness, commit <= log length, term/commit monotonicity. BFS is complete to the stated depth from the initial state and 7 scripted seed states; pre-vote, fast-path and tie-break configurations; 'sometimes' witnesses guard against vacuity.",
   note="Handlers are atomic; the durable image at a crash is the in-memory persistent triple (WAL fidelity is C10); after a successful pre-vote the harness broadcasts the RequestVote that the synchronous start_election() builds and discards (trusted driver glue); fixed membership.",
   design_ref="§2 C01"),
 "C05": dict(category="model_checking", engine="E4 replay BFS + E1 vsched on real GraphEngine",
   technique="BFS over all operation sequences to a depth with canonical-state dedup (sequential) + stateless preemption-bounded exploration of real threads (concurrent), structural invariant and reference edge set as oracle",
   text="S: every sequence (quick <=3, thorough <=4) of create_node/create_edge (directed, undirected, self-loop, parallel)/delete_edge/delete_node/update_* on <=3 nodes replayed on a fresh real GraphEngine; after every step all_edges/edges_of/degrees/neighbors/get_edge/node_exists must agree with the reference edge set and the structural invariant. T: 9 (thorough 12) programs of 2-3 threads creating/deleting edges and nodes on a shared hub, every schedule with <= 2 (thorough 3) preemptions, quiescent invariant + agreement with the results the calls returned.",
   note="Interleavings at lock-acquisition granularity (every parking_lot/dashmap lock via the vendored lock_api); atomics-only races and weak memory not modelled; sizes below delete_node's rayon threshold.",
   design_ref="§4 C05"),
 "C11": dict(category="model_checking", engine="E1 vsched on real TensorStore",
   technique="stateless preemption-bounded exploration of real threads (iterative context bounding, no reduction) with a brute-force linearizability oracle; WAL recovery compared with memory at quiescence",
   text="56 (thorough more) programs of 2 threads x 2 ops / 3 threads x 1-2 ops on colliding keys of every key class (plain, emb:, node:, table:, _cache:), without and with the durable log; every schedule with <= 2 (thorough 3) preemptions runs on a fresh real store; the recorded call/return history and final state must be linearizable w.r.t. a sequential map (values never a mixture of two writes); with the WAL, recover() after quiescence must equal memory.",
   note="Scheduling points are lock acquisitions; std atomics / UnsafeCell accesses inside one lock-free segment are not interleaved; known finding C11-F1 (multi-shard scan(\"\")) matched by signature.",
   design_ref="§4 C11"),
 "C06": dict(category="model_checking", engine="E4 bounded-exhaustive histories on real VectorEngine / HNSWIndex",
   technique="exhaustive enumeration of operation histories and vector/query grids against an f64 reference (exact oracle) and an index-soundness oracle",
   text="Read-back of every vector over 13 special f32 values (dim <=4/5) through all store APIs; every multiset of <=3 (4) grid vectors x all grid queries x k x 3 metrics through every search API, with and without a cached index; all sequences (depth 4/5) of store/overwrite/delete/batch/clear/build_and_cache_index and of collection + metadata-filter operations; direct HNSWIndex insert sequences.",
   note="Grid {-1,0,1}^{2,3}; <=4 keys; ties within 1e-6 may appear in any order; cosine against a zero vector exempt.",
   design_ref="§5 C06"),
 "C07": dict(category="fault_enumeration", engine="E4 round-trip enumeration + E2 crash images of real snapshot saves",
   technique="exhaustive enumeration of store contents x snapshot formats (round trip) and of every process-crash image of a save over an existing snapshot",
   text="42 value kinds x 10 key classes, all 64 subsets of a 6-entry pool, key-less slabs, engine-created data (relational, graph, vector, blob), operation sequences, x 6-10 format paths: reload must observe exactly the original (vectors bit-identical below the threshold, within 1e-2 above for judged shapes). Crash half: (previous content, save fn) x (new content, save fn) x file name with the real I/O logged; every op boundary and byte-torn write image must load as exactly the previous or the new snapshot.",
   note="Process-crash images only (quantifier: truncation of the temporary file and either side of the rename); generic dense vectors above the threshold are measured, not judged.",
   design_ref="§5 C07, §3"),
 "C08": dict(category="model_checking", engine="E4 replay BFS on real QueryRouter with checkpoint manager",
   technique="BFS over statement histories with canonical-state dedup; differential oracle (read battery after ROLLBACK = battery recorded at CHECKPOINT)",
   text="All statement histories (quick <=5, thorough <=6/7) over relational, graph and vector statements plus CHECKPOINT / ROLLBACK TO for every retained checkpoint, retention K in {1,2,3}; after every rollback the full read battery must equal the one recorded at the checkpoint, the checkpoint list must equal the reference, a write per engine must succeed, and rolling back again / to the other checkpoint must work.",
   note="One table/label; error texts, uuids and timestamps not compared; state key is a 128-bit hash of the observation.",
   design_ref="§5 C08"),
 "C14": dict(category="model_checking", engine="E4 bounded-exhaustive histories on real Vault vs reference ACL",
   technique="exhaustive enumeration of operation sequences with every (identity, secret, operation) probed after every step against a reference ACL; at-rest search of store image, audit log and errors",
   text="All sequences (full alphabet depth 3/4, core alphabet 4/5) of set/grant/grant_with_ttl/revoke/delete/rotate/delegate/membership add-remove/clock advance/reopen by root and u1 over 2 secrets; after every step 4 requesters x 2 secrets x 9 operations are probed on replays and allow/deny compared with the reference ACL (alarm only when the vault allows without a live grant); every secret value and name used is searched in both stores, the snapshot image, audit records and error strings.",
   note="Rate limiting/quotas off; Argon2 at minimum cost; known findings C14-F1..F3 (secret names at rest) matched by signature.",
   design_ref="§5 C14"),
 "C18": dict(category="model_checking", engine="E4 exhaustive small graphs on real GraphEngine vs brute-force references",
   technique="exhaustive enumeration of small multigraphs x query grids against BFS / Bellman-Ford / walk enumeration / Floyd-Warshall / Prim / cycle-enumeration references",
   text="All multigraphs on 2-5 nodes (bounded edges, types, weights {0,1,absent,5.0}, directed/undirected, self-loops, parallel edges): find_path, find_all_paths, find_variable_paths, traverse, neighbors, match_pattern, find_weighted_path, find_all_weighted_paths, astar (all admissible heuristics over {0,d*}), components, SCC, MST, k-core, triangles, biconnected components / bridges; divergence detected in sub-processes.",
   note="<=5 (6 simple) nodes; small weight alphabet; engines reused along the DFS, counterexamples confirmed on fresh engines.",
   design_ref="§5 C18"),
 "C19": dict(category="model_checking", engine="E4 sequences + E1 vsched on real BlobStore",
   technique="BFS over operation sequences with destructive probes on every state + stateless preemption-bounded exploration of 2-4 real threads",
   text="S: chunk sizes x boundary sizes x all 3-way write splits; Q: BFS (depth 6/8) over put/stream/delete/gc/full_gc/repair on <=3 artifacts with shared chunks, every live artifact read back five ways after each step, single-chunk alteration/removal must be reported, drain-to-empty leaves no chunk; E1: 12 (15) scenarios of concurrent put/stream/delete/gc/full_gc, every schedule with <= 2-4 preemptions, every surviving artifact must read back.",
   note="Known findings C19-F1/F2 (unlocked chunk refcounts; collectors vs unfinished uploads) matched by signature, histories containing the F2 pattern are tainted.",
   design_ref="§4 C19"),
 "C20": dict(category="model_checking", engine="E4 exhaustive codec alphabets + garbage sweeps in sub-processes",
   technique="exhaustive enumeration of value alphabets per codec (round trip), and of all short byte strings / every truncation / every single-bit flip of valid encodings per decoder under a counting allocator",
   text="ids (all sequences over {0,1,2,127,128,2^32,u64::MAX}, unsorted/duplicates), RLE, sparse vectors, all 30 Message variants x optional fields x codec v1/v2/LZ4 x frame limits, WAL records of all three logs, snapshot headers/containers, TT decompose/reconstruct within tolerance; 18 decoders on every byte string <=2 (3), every prefix and bit flip: Err or valid value, no panic/abort, no allocation above the declared limit.",
   note="Multi-bit corruption and long garbage not covered; reads past the input visible only as panic/abort.",
   design_ref="§5 C20"),
 "C02": dict(category="fault_enumeration", engine="E2 envshim I/O log + crash-image enumerator, real TensorStore::recover",
   technique="exhaustive crash-image enumeration (every I/O-op boundary, every byte-torn write, every unsynced log tail) of all short operation histories, multi-epoch, against a reference map",
   text="All sequences (quick <=3, thorough <=3 over a larger alphabet) of put_durable/delete_durable/checkpoint/sync over every key class and value kind run on a real durable TensorStore with its real file I/O logged; every crash image is recovered with the real recover() and must equal the reference after some prefix containing every acknowledged write; epochs 2-3 continue writing on the recovered store and crash again. Sync modes Immediate/Batched/Manual, with and without log rotation.",
   note="Prefix-persistence crash model (torn writes at byte granularity, unsynced tails cut at every length, atomic ordered rename/unlink/truncate); snapshot files process-crash only; directory fsync and block reordering not modelled. Known finding C02-F1 (rotation) is matched by signature only.",
   design_ref="§3 C02"),
 "C10": dict(category="fault_enumeration", engine="E2 envshim I/O log + crash-image enumerator, real RaftNode::with_wal",
   technique="exhaustive crash-image enumeration of all short protocol-step histories on a real RaftNode with WAL, multi-epoch; promises read from the node's own answers",
   text="All sequences (quick <=3, thorough <=4) of RequestVote / AppendEntries (append, higher term, conflicting suffix) / election timeout / winning vote / ack / propose / higher-term response driven through handle_message on a real RaftNode::with_wal; at every byte-granular crash image the node is restarted from its WAL and must hold a term >= every term it acted on, refuse a second candidate in a term it voted in (asked of the real restarted node), and hold every acknowledged entry; up to 3 crash epochs.",
   note="Prefix-persistence crash model; one node with scripted peers; snapshot install/compaction not in the alphabet.",
   design_ref="§3 C10"),
 "C13": dict(category="fault_enumeration", engine="E2 envshim I/O log + crash-image enumerator, real DistributedTxCoordinator + TxWal",
   technique="exhaustive crash-image enumeration of coordinator histories (scripted prefixes x all short extensions), recovery probes and multi-epoch continuations, virtual clock",
   text="Scripted reachable prefixes extended by every sequence (quick <=2, thorough <=3) of begin / yes-vote via handle_prepare / no-vote / commit / abort / timeout sweep / recover()+complete over 1-2 transactions x 2 shards (disjoint and overlapping keys); at every byte-granular crash image the coordinator is rebuilt with recover_from_wal and probed: completed commits cannot be aborted, timed out or queued for abort; completed aborts cannot be committed; fully voted transactions come back Prepared with their votes and commit; vote-collecting ones are forgotten and hold no locks. Epochs 2-3 run recovery calls, timeouts (clock advanced) and new transactions, then crash again.",
   note="Prefix-persistence crash model; frozen virtual clock; transitions the coordinator does not log (timeout sweep, complete_*) promise nothing, as the statement only covers logged completions.",
   design_ref="§3 C13"),
 "C17": dict(category="model_checking", engine="E3/E4 explicit-state over real LWWMembershipState",
   technique="exhaustive enumeration of update multisets x permutations x batchings + explicit-state BFS over real merge/suspect/fail/refute handlers",
   text="Every multiset of <=4 (thorough 5) updates over 2 members (3 members: <=3) with ties, in every distinct order, batching and with repetition, is merged by the real LWWMembershipState and all replicas must agree; BFS over two gossiping replicas checks incarnation/Lamport monotonicity and 'never Failed above announced incarnation' on every transition; the manager's handle_gossip(Sync) is driven with every short Sync sequence.",
   note="Small scope: 2-3 members, timestamps {1,2}, incarnations {0,1}; incarnations announced only by the member itself; no separate model - every transition runs the real code.",
   design_ref="§2 C17"),
}
def main():
    checks = []
    for pid in ALL:
        if pid not in BUILT: continue
        b = BUILT[pid]
        checks.append({
            "property_id": pid,
            "quick_cmd": f"./check {pid} --tier quick",
            "thorough_cmd": f"./check {pid} --tier thorough",
            "evidence_file": f"/verif/evidence/{pid}.json",
            "replay_cmd_template": f"./check {pid} --replay {{path}}",
            "engine": b["engine"],
            "level_claimed": {"category": b["category"], "text": b["text"], "design_ref": b["design_ref"]},
            "level_note": b["note"],
            "technique": b["technique"],
        })
    na = [{"property_id": p, "reason": "check not built yet in this session (planned: see DESIGN.md §0); not claimed until it exists"} for p in ALL if p not in BUILT]
    m = {
        "version": 1,
        "setup_cmd": "./setup.sh",
        "hooks": {
            "guard": "--cfg neumann_verif",
            "enable": "RUSTFLAGS='--cfg neumann_verif --check-cfg cfg(neumann_verif)' via /verif/nvc/.cargo/config.toml (harness workspace depends on /repo crates by path)",
            "baseline_off_cmd": "cd /repo && cargo nextest run --workspace --no-fail-fast --tool-config-file pb:/w/lib/nextest.toml --profile pb --test-threads 8 --offline",
            "source_commits": ["8ca21929 verif hook: RaftNode::verif_export/verif_import behind cfg(neumann_verif)"],
            "add_only": True,
        },
        "engines": [
            {"name": "E1 vsched", "path": "/verif/nvc/vsched + /verif/shims/lock_api", "serves_properties": ["C05","C09","C11","C12","C16","C19"], "kind_free_text": "stateless preemption-bounded exploration of real threads; every parking_lot/dashmap lock acquisition is a scheduling point via a vendored lock_api"},
            {"name": "E2 envshim", "path": "/verif/envshim/envshim.c + /verif/nvc/nvc/src/crash.rs", "serves_properties": ["C02","C07","C10","C13"], "kind_free_text": "LD_PRELOAD: deterministic entropy, virtual clock, file-I/O op log; crash-image enumerator (every byte-torn write, every unsynced tail)"},
            {"name": "E3 explicit-state", "path": "/verif/nvc/nvc/src/bin", "serves_properties": ["C01","C03","C17"], "kind_free_text": "BFS over real protocol handlers with canonical state dedup"},
            {"name": "E4 bounded-exhaustive", "path": "/verif/nvc/nvc/src/bin", "serves_properties": ["C04","C06","C08","C14","C15","C18","C20"], "kind_free_text": "all operation sequences / inputs up to a bound against a reference oracle"},
        ],
        "checks": checks,
        "not_applicable": na,
        "notes": "All checks run real /repo code (path dependencies, rebuilt by cargo on every invocation). exit 2 = machinery failure, never a verdict.",
    }
    json.dump(m, open(os.path.join(HERE, "MANIFEST.json"), "w"), indent=1)
    print("checks:", [c["property_id"] for c in checks], "not_applicable:", len(na))
main()
