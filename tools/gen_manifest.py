#!/usr/bin/env python3
"""Generates /verif/MANIFEST.json from the table below (kept valid at all times)."""
import json, os
HERE = os.path.dirname(os.path.dirname(os.path.abspath(__file__)))
ALL = [f"C{i:02d}" for i in range(1, 21)]
# id -> dict(category, technique, text, note, design_ref, engine)
BUILT = {
 "C02": dict(category="fault_enumeration", engine="E2 envshim I/O log + crash-image enumerator, real TensorStore::recover",
   technique="exhaustive crash-image enumeration (every I/O-op boundary, every byte-torn write, every unsynced log tail) of all short operation histories, multi-epoch, against a reference map",
   text="All sequences (quick <=3, thorough <=3 over a larger alphabet) of put_durable/delete_durable/checkpoint/sync over every key class and value kind run on a real durable TensorStore with its real file I/O logged; every crash image is recovered with the real recover() and must equal the reference after some prefix containing every acknowledged write; epochs 2-3 continue writing on the recovered store and crash again. Sync modes Immediate/Batched/Manual, with and without log rotation.",
   note="Prefix-persistence crash model (torn writes at byte granularity, unsynced tails cut at every length, atomic ordered rename/unlink/truncate); snapshot files process-crash only; directory fsync and block reordering not modelled. Known finding C02-F1 (rotation) is matched by signature only.",
   design_ref="§3 C02"),
 "C10": dict(category="fault_enumeration", engine="E2 envshim I/O log + crash-image enumerator, real RaftNode::with_wal",
   technique="exhaustive crash-image enumeration of all short protocol-step histories on a real RaftNode with WAL, multi-epoch; promises read from the node's own answers",
   text="All sequences (quick <=3, thorough <=4) of RequestVote / AppendEntries (append, higher term, conflicting suffix) / election timeout / winning vote / ack / propose / higher-term response driven through handle_message on a real RaftNode::with_wal; at every byte-granular crash image the node is restarted from its WAL and must hold a term >= every term it acted on, refuse a second candidate in a term it voted in (asked of the real restarted node), and hold every acknowledged entry; up to 3 crash epochs.",
   note="Prefix-persistence crash model; one node with scripted peers; snapshot install/compaction not in the alphabet.",
   design_ref="§3 C10"),
 "C13": dict(category="fault_enumeration", engine="E2 envshim I/O log + crash-image enumerator, real DistributedTxCoordinator + TxWal",
   technique="exhaustive crash-image enumeration of coordinator histories (scripted prefixes x all short extensions), recovery probes and multi-epoch continuations, virtual clock",
   text="Scripted reachable prefixes extended by every sequence (quick <=2, thorough <=3) of begin / yes-vote via handle_prepare / no-vote / commit / abort / timeout sweep / recover()+complete over 1-2 transactions x 2 shards (disjoint and overlapping keys); at every byte-granular crash image the coordinator is rebuilt with recover_from_wal and probed: completed commits cannot be aborted, timed out or queued for abort; completed aborts cannot be committed; fully voted transactions come back Prepared with their votes and commit; vote-collecting ones are forgotten and hold no locks. Epochs 2-3 run recovery calls, timeouts (clock advanced) and new transactions, then crash again.",
   note="Prefix-persistence crash model; frozen virtual clock; transitions the coordinator does not log (timeout sweep, complete_*) promise nothing, as the statement only covers logged completions.",
   design_ref="§3 C13"),
 "C17": dict(category="model_checking", engine="E3/E4 explicit-state over real LWWMembershipState",
   technique="exhaustive enumeration of update multisets x permutations x batchings + explicit-state BFS over real merge/suspect/fail/refute handlers",
   text="Every multiset of <=4 (thorough 5) updates over 2 members (3 members: <=3) with ties, in every distinct order, batching and with repetition, is merged by the real LWWMembershipState and all replicas must agree; BFS over two gossiping replicas checks incarnation/Lamport monotonicity and 'never Failed above announced incarnation' on every transition; the manager's handle_gossip(Sync) is driven with every short Sync sequence.",
   note="Small scope: 2-3 members, timestamps {1,2}, incarnations {0,1}; incarnations announced only by the member itself; no separate model - every transition runs the real code.",
   design_ref="§2 C17"),
}
def main():
    checks = []
    for pid in ALL:
        if pid not in BUILT: continue
        b = BUILT[pid]
        checks.append({
            "property_id": pid,
            "quick_cmd": f"./check {pid} --tier quick",
            "thorough_cmd": f"./check {pid} --tier thorough",
            "evidence_file": f"/verif/evidence/{pid}.json",
            "replay_cmd_template": f"./check {pid} --replay {{path}}",
            "engine": b["engine"],
            "level_claimed": {"category": b["category"], "text": b["text"], "design_ref": b["design_ref"]},
            "level_note": b["note"],
            "technique": b["technique"],
        })
    na = [{"property_id": p, "reason": "check not built yet in this session (planned: see DESIGN.md §0); not claimed until it exists"} for p in ALL if p not in BUILT]
    m = {
        "version": 1,
        "setup_cmd": "./setup.sh",
        "hooks": {
            "guard": "--cfg neumann_verif",
            "enable": "RUSTFLAGS='--cfg neumann_verif --check-cfg cfg(neumann_verif)' via /verif/nvc/.cargo/config.toml (harness workspace depends on /repo crates by path)",
            "baseline_off_cmd": "cd /repo && cargo nextest run --workspace --no-fail-fast --tool-config-file pb:/w/lib/nextest.toml --profile pb --test-threads 8 --offline",
            "source_commits": [],
            "add_only": True,
        },
        "engines": [
            {"name": "E1 vsched", "path": "/verif/nvc/vsched + /verif/shims/lock_api", "serves_properties": ["C05","C09","C11","C12","C16","C19"], "kind_free_text": "stateless preemption-bounded exploration of real threads; every parking_lot/dashmap lock acquisition is a scheduling point via a vendored lock_api"},
            {"name": "E2 envshim", "path": "/verif/envshim/envshim.c + /verif/nvc/nvc/src/crash.rs", "serves_properties": ["C02","C07","C10","C13"], "kind_free_text": "LD_PRELOAD: deterministic entropy, virtual clock, file-I/O op log; crash-image enumerator (every byte-torn write, every unsynced tail)"},
            {"name": "E3 explicit-state", "path": "/verif/nvc/nvc/src/bin", "serves_properties": ["C01","C03","C17"], "kind_free_text": "BFS over real protocol handlers with canonical state dedup"},
            {"name": "E4 bounded-exhaustive", "path": "/verif/nvc/nvc/src/bin", "serves_properties": ["C04","C06","C08","C14","C15","C18","C20"], "kind_free_text": "all operation sequences / inputs up to a bound against a reference oracle"},
        ],
        "checks": checks,
        "not_applicable": na,
        "notes": "All checks run real /repo code (path dependencies, rebuilt by cargo on every invocation). exit 2 = machinery failure, never a verdict.",
    }
    json.dump(m, open(os.path.join(HERE, "MANIFEST.json"), "w"), indent=1)
    print("checks:", [c["property_id"] for c in checks], "not_applicable:", len(na))
main()
