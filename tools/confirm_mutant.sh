#!/bin/bash
# tools/confirm_mutant.sh <patch.diff>: applies the change to /tmp/confirm and runs the pinned suite there.
set -u
W=${MUT_W:-/tmp/confirm}
git -C $W checkout -q -- . && git -C $W clean -fdq -e target
git -C $W apply "$1" || { echo "PATCH DOES NOT APPLY"; exit 3; }
cd $W && CARGO_TARGET_DIR=$W/target cargo nextest run --workspace --no-fail-fast --tool-config-file pb:/w/lib/nextest.toml --profile pb --test-threads 8 --offline > $W-run.log 2>&1
python3 /verif/tools/junit_compare.py $W/target/nextest/pb/junit.xml
rc=$?
git -C $W checkout -q -- .
exit $rc
