#!/usr/bin/env python3
"""junit_compare.py <junit.xml>: compares a nextest junit report with BASELINE.json's stable_pass list."""
import json, sys, xml.etree.ElementTree as ET
b = json.load(open('/root/.vp/BASELINE.json')); stable = set(b['stable_pass'])
passed, failed = set(), set()
for ts in ET.parse(sys.argv[1]).getroot().iter('testsuite'):
    for tc in ts.iter('testcase'):
        full = f"{tc.get('classname')}::{tc.get('name')}"
        (failed if any(ch.tag in ('failure', 'error') for ch in tc) else passed).add(full)
missing = sorted(t for t in stable if t not in passed)
print(f"junit passed={len(passed)} failed={len(failed)} stable={len(stable)} stable-not-passed={len(missing)}")
for t in missing[:30]: print("  NOT PASSED", t)
sys.exit(1 if missing else 0)
