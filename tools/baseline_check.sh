#!/bin/bash
# Runs the repository's pinned suite with the verification guard OFF and compares with BASELINE.json.
cd /repo && cargo nextest run --workspace --no-fail-fast --tool-config-file pb:/w/lib/nextest.toml --profile pb --test-threads 8 --offline > /tmp/baseline_run.log 2>&1
python3 - <<'PY'
import json, xml.etree.ElementTree as ET, glob
b=json.load(open('/root/.vp/BASELINE.json'))
stable=set(b['stable_pass'])
f=glob.glob('/repo/target/nextest/pb/junit.xml')[0]
root=ET.parse(f).getroot()
passed=set(); failed=set()
for ts in root.iter('testsuite'):
    suite=ts.get('name')
    for tc in ts.iter('testcase'):
        name=tc.get('name'); cls=tc.get('classname')
        full=f"{cls}::{name}" if cls else name
        bad = any(ch.tag in ('failure','error') for ch in tc)
        (failed if bad else passed).add(full)
# names in stable look like crate::module::test ; nextest classname is the binary id
def norm(s): return s.replace('$','::')
cand=set(norm(x) for x in passed)
missing=[t for t in stable if t not in cand]
print("junit passed",len(passed),"failed",len(failed),"stable",len(stable),"stable-not-passed",len(missing))
for t in sorted(missing)[:40]: print("  MISSING",t)
PY
