#!/bin/bash
# tools/final_matrix.sh <k> <n>: runs the quick tier of the owning check(s) against every k-th (mod n) confirmed seeded change
# on /repo HEAD in a scratch worktree; one line per change into /verif/seeding/final-matrix/<id>.txt
k=$1; n=$2
W=/tmp/matrix$k
[ -d $W ] || git -C /repo worktree add --detach $W HEAD -q
git -C $W checkout -q --detach $(git -C /repo log --format=%h -1)
mkdir -p /verif/seeding/final-matrix
i=0
for d in /verif/seeded/*/; do
  id=$(basename $d); i=$((i+1))
  [ $((i % n)) -eq $k ] || continue
  checks=$(python3 -c "import json;print(' '.join(json.load(open('$d/meta.json'))['detected_by']))")
  MUT_SRC=head MUT_W=$W MUT_ALT=/tmp/nvc-matrix$k MUT_OUT=/tmp/mutout-matrix$k MUT_TGT=/tmp/nvc-matrix$k-target /verif/tools/mutant_check.sh $d/patch.diff $checks > /verif/seeding/final-matrix/$id.txt 2>&1
  echo "$id: $(tr '\n' ' ' < /verif/seeding/final-matrix/$id.txt | cut -c1-160)"
done
