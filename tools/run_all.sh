#!/bin/bash
# tools/run_all.sh <quick|thorough> [IDs...]: runs the tier of every (or the named) check sequentially; one line per check.
TIER=${1:-quick}; shift
IDS=${@:-C01 C02 C03 C04 C05 C06 C07 C08 C09 C10 C11 C12 C13 C14 C15 C16 C17 C18 C19 C20}
mkdir -p /verif/scratch/runs
for id in $IDS; do
  s=$(date +%s)
  /verif/check $id --tier $TIER > /verif/scratch/runs/$id-$TIER.log 2>&1
  rc=$?
  e=$(date +%s)
  echo "$id tier=$TIER exit=$rc wall=$((e-s))s $(grep -c '^VIOLATION' /verif/scratch/runs/$id-$TIER.log) violations, $(grep -c '^KNOWN-FINDING' /verif/scratch/runs/$id-$TIER.log) known; $(tail -1 /verif/scratch/runs/$id-$TIER.log | cut -c1-120)"
  cp /verif/evidence/$id.json /verif/scratch/runs/$id-$TIER.evidence.json 2>/dev/null
done
