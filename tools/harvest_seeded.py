#!/usr/bin/env python3
"""harvest_seeded.py: copies every seeded change that I confirmed myself (patch applies to the pinned tree, the
demonstration passes without it and fails with it, the pinned suite still passes with it) from the agents'
scratch output into /verif/seeded/<ID>-<A|B>/ as patch.diff, demo.rs, README.md (the author's description) and
meta.json. Detection results come from /verif/scratch/mutresults/<ID>-<V>.json and, when present, the later
re-screening in /verif/scratch/rescreen/<ID>-<V>.txt (after a check was strengthened)."""
import glob, json, os, re, shutil

RES = '/verif/scratch/mutresults'
SEED = '/verif/seeded'

def section(md, title_re):
    m = re.search(r'^##+\s*' + title_re + r'.*?\n(.*?)(?=^##+\s|\Z)', md, re.S | re.M | re.I)
    return m.group(1).strip() if m else None

def main():
    kept, dropped = [], []
    for f in sorted(glob.glob(f'{RES}/*.json')):
        r = json.load(open(f))
        tag = r['id']
        d = r.get('dir')
        demo = r.get('demo') or {}
        suite = r.get('suite') or {}
        suite_ok = suite.get('all_stable_pass') or suite.get('all_stable_pass_after_retest')
        ok = r.get('applies') and demo.get('passes_without_change') is True and demo.get('passes_with_change') is False and suite_ok
        if not ok:
            dropped.append((tag, 'applies=%s demo=%s/%s suite=%s' % (r.get('applies'), demo.get('passes_without_change'), demo.get('passes_with_change'), suite_ok)))
            continue
        out = f'{SEED}/{tag}'
        src = d if d and os.path.exists(f'{d}/patch.diff') else out
        os.makedirs(out, exist_ok=True)
        if src != out:
            for n in ('patch.diff', 'demo.rs', 'README.md'):
                if os.path.exists(f'{src}/{n}'):
                    shutil.copy(f'{src}/{n}', f'{out}/{n}')
        md = open(f'{out}/README.md').read() if os.path.exists(f'{out}/README.md') else ''
        title = (md.splitlines() or [''])[0].lstrip('# ').strip()
        checks = list(r.get('check') or [])
        rs = f'/verif/scratch/rescreen/{tag}.txt'
        rescreen = open(rs).read().strip().splitlines() if os.path.exists(rs) else []
        final = [l for l in (rescreen or checks) if re.match(r'^C\d\d (DETECTED|MISSED|MACHINERY)', l)]
        meta = {
            'id': tag,
            'property': r['property'],
            'title': title,
            'breaks': section(md, r'(which part|what (it )?breaks|property)') or title,
            'needs_to_manifest': section(md, r'what it needs') or section(md, r'(needs|manifest)'),
            'files_touched': sorted(set(re.findall(r'^\+\+\+ b/(\S+)', open(f'{out}/patch.diff').read(), re.M))),
            'ran': {
                'where': 'scratch worktree /tmp/confirm at /repo HEAD (never /repo itself)',
                'demo': {'placed_at': demo.get('place'), 'command': f"cargo test -p {demo.get('crate')} --offline --test {demo.get('test')}",
                         'passes_without_change': demo.get('passes_without_change'), 'passes_with_change': demo.get('passes_with_change')},
                'pinned_suite_with_change': {'command': 'tools/confirm_mutant.sh (baseline nextest command, 13930 stable tests compared by tools/junit_compare.py)',
                                             'all_stable_pass': bool(suite.get('all_stable_pass')), 'summary': suite.get('summary'),
                                             'retest_of_not_passed_in_isolation': r.get('retest')},
                'check_first_screening': checks,
                'check_after_strengthening': rescreen or None,
            },
            'detected': any('DETECTED' in l for l in final),
            'detected_by': sorted({l.split()[0] for l in final if 'DETECTED' in l}),
            'signatures': sorted({s.strip() for l in final if 'DETECTED' in l for s in re.findall(r'signature:\s*([^;]+);', l)})[:8],
        }
        json.dump(meta, open(f'{out}/meta.json', 'w'), indent=1)
        kept.append((tag, meta['detected'], meta['detected_by']))
    for k in kept: print('KEPT', *k)
    for k in dropped: print('DROPPED', *k)

main()
