// Copyright 2018 Amanieu d'Antras
//
// Licensed under the Apache License, Version 2.0, <LICENSE-APACHE or
// http://apache.org/licenses/LICENSE-2.0> or the MIT license <LICENSE-MIT or
// http://opensource.org/licenses/MIT>, at your option. This file may not be
// copied, modified, or distributed except according to those terms.

use crate::{
    mutex::{RawMutex, RawMutexFair, RawMutexTimed},
    GuardNoSend,
};
use core::{
    cell::{Cell, UnsafeCell},
    fmt,
    marker::PhantomData,
    mem,
    num::NonZeroUsize,
    ops::Deref,
    sync::atomic::{AtomicUsize, Ordering},
};

#[cfg(feature = "arc_lock")]
use alloc::sync::Arc;
#[cfg(feature = "arc_lock")]
use core::mem::ManuallyDrop;
#[cfg(feature = "arc_lock")]
use core::ptr;

#[cfg(feature = "owning_ref")]
use owning_ref::StableAddress;

#[cfg(feature = "serde")]
use serde::{Deserialize, Deserializer, Serialize, Serializer};

/// Helper trait which returns a non-zero thread ID.
///
/// The simplest way to implement this trait is to return the address of a
/// thread-local variable.
///
/// # Safety
///
/// Implementations of this trait must ensure that no two active threads share
/// the same thread ID. However the ID of a thread that has exited can be
/// re-used since that thread is no longer active.
pub unsafe trait GetThreadId {
    /// Initial value.
    // A “non-constant” const item is a legacy way to supply an initialized value to downstream
    // static items. Can hopefully be replaced with `const fn new() -> Self` at some point.
    #[allow(clippy::declare_interior_mutable_const)]
    const INIT: Self;

    /// Returns a non-zero thread ID which identifies the current thread of
    /// execution.
    fn nonzero_thread_id(&self) -> NonZeroUsize;
}

/// A raw mutex type that wraps another raw mutex to provide reentrancy.
///
/// Although this has the same methods as the [`RawMutex`] trait, it does
/// not implement it, and should not be used in the same way, since this
/// mutex can successfully acquire a lock multiple times in the same thread.
/// Only use this when you know you want a raw mutex that can be locked
/// reentrantly; you probably want [`ReentrantMutex`] instead.
pub struct RawReentrantMutex<R, G> {
    owner: AtomicUsize,
    lock_count: Cell<usize>,
    mutex: R,
    get_thread_id: G,
}

unsafe impl<R: RawMutex + Send, G: GetThreadId + Send> Send for RawReentrantMutex<R, G> {}
unsafe impl<R: RawMutex + Sync, G: GetThreadId + Sync> Sync for RawReentrantMutex<R, G> {}

impl<R: RawMutex, G: GetThreadId> RawReentrantMutex<R, G> {
    /// Initial value for an unlocked mutex.
    #[allow(clippy::declare_interior_mutable_const)]
    pub const INIT: Self = RawReentrantMutex {
        owner: AtomicUsize::new(0),
        lock_count: Cell::new(0),
        mutex: R::INIT,
        get_thread_id: G::INIT,
    };

    #[inline]
    fn lock_internal<F: FnOnce() -> bool>(&self, try_lock: F) -> bool {
        let id = self.get_thread_id.nonzero_thread_id().get();
        if self.owner.load(Ordering::Relaxed) == id {
            self.lock_count.set(
                self.lock_count
                    .get()
                    .checked_add(1)
                    .expect("ReentrantMutex lock count overflow"),
            );
        } else {
            if !try_lock() {
                return false;
            }
            self.owner.store(id, Ordering::Relaxed);
            debug_assert_eq!(self.lock_count.get(), 0);
            self.lock_count.set(1);
        }
        true
    }

    /// Acquires this mutex, blocking if it's held by another thread.
    #[inline]
    pub fn lock(&self) {
        self.lock_internal(|| {
            self.mutex.lock();
            true
        });
    }

    /// Attempts to acquire this mutex without blocking. Returns `true`
    /// if the lock was successfully acquired and `false` otherwise.
    #[inline]
    pub fn try_lock(&self) -> bool {
        self.lock_internal(|| self.mutex.try_lock())
    }

    /// Unlocks this mutex. The inner mutex may not be unlocked if
    /// this mutex was acquired previously in the current thread.
    ///
    /// # Safety
    ///
    /// This method may only be called if the mutex is held by the current thread.
    #[inline]
    pub unsafe fn unlock(&self) {
        let lock_count = self.lock_count.get() - 1;
        self.lock_count.set(lock_count);
        if lock_count == 0 {
            self.owner.store(0, Ordering::Relaxed);
            self.mutex.unlock();
        }
    }

    /// Checks whether the mutex is currently locked.
    #[inline]
    pub fn is_locked(&self) -> bool {
        self.mutex.is_locked()
    }

    /// Checks whether the mutex is currently held by the current thread.
    #[inline]
    pub fn is_owned_by_current_thread(&self) -> bool {
        let id = self.get_thread_id.nonzero_thread_id().get();
        self.owner.load(Ordering::Relaxed) == id
    }
}

impl<R: RawMutexFair, G: GetThreadId> RawReentrantMutex<R, G> {
    /// Unlocks this mutex using a fair unlock protocol. The inner mutex
    /// may not be unlocked if this mutex was acquired previously in the
    /// current thread.
    ///
    /// # Safety
    ///
    /// This method may only be called if the mutex is held by the current thread.
    #[inline]
    pub unsafe fn unlock_fair(&self) {
        let lock_count = self.lock_count.get() - 1;
        self.lock_count.set(lock_count);
        if lock_count == 0 {
            self.owner.store(0, Ordering::Relaxed);
            self.mutex.unlock_fair();
        }
    }

    /// Temporarily yields the mutex to a waiting thread if there is one.
    ///
    /// This method is functionally equivalent to calling `unlock_fair` followed
    /// by `lock`, however it can be much more efficient in the case where there
    /// are no waiting threads.
    ///
    /// # Safety
    ///
    /// This method may only be called if the mutex is held by the current thread.
    #[inline]
    pub unsafe fn bump(&self) {
        if self.lock_count.get() == 1 {
            let id = self.owner.load(Ordering::Relaxed);
            self.owner.store(0, Ordering::Relaxed);
            self.lock_count.set(0);
            self.mutex.bump();
            self.owner.store(id, Ordering::Relaxed);
            self.lock_count.set(1);
        }
    }
}

impl<R: RawMutexTimed, G: GetThreadId> RawReentrantMutex<R, G> {
    /// Attempts to acquire this lock until a timeout is reached.
    #[inline]
    pub fn try_lock_until(&self, timeout: R::Instant) -> bool {
        self.lock_internal(|| self.mutex.try_lock_until(timeout))
    }

    /// Attempts to acquire this lock until a timeout is reached.
    #[inline]
    pub fn try_lock_for(&self, timeout: R::Duration) -> bool {
        self.lock_internal(|| self.mutex.try_lock_for(timeout))
    }
}

/// A mutex which can be recursively locked by a single thread.
///
/// This type is identical to `Mutex` except for the following points:
///
/// - Locking multiple times from the same thread will work correctly instead of
///   deadlocking.
/// - `ReentrantMutexGuard` does not give mutable references to the locked data.
///   Use a `RefCell` if you need this.
///
/// See [`Mutex`](crate::Mutex) for more details about the underlying mutex
/// primitive.
pub struct ReentrantMutex<R, G, T: ?Sized> {
    raw: RawReentrantMutex<R, G>,
    data: UnsafeCell<T>,
}

unsafe impl<R: RawMutex + Send, G: GetThreadId + Send, T: ?Sized + Send> Send
    for ReentrantMutex<R, G, T>
{
}
unsafe impl<R: RawMutex + Sync, G: GetThreadId + Sync, T: ?Sized + Send> Sync
    for ReentrantMutex<R, G, T>
{
}

impl<R: RawMutex, G: GetThreadId, T> ReentrantMutex<R, G, T> {
    /// Creates a new reentrant mutex in an unlocked state ready for use.
    #[inline]
    pub const fn new(val: T) -> ReentrantMutex<R, G, T> {
        ReentrantMutex {
            data: UnsafeCell::new(val),
            raw: RawReentrantMutex {
                owner: AtomicUsize::new(0),
                lock_count: Cell::new(0),
                mutex: R::INIT,
                get_thread_id: G::INIT,
            },
        }
    }

    /// Consumes this mutex, returning the underlying data.
    #[inline]
    pub fn into_inner(self) -> T {
        self.data.into_inner()
    }
}

impl<R, G, T> ReentrantMutex<R, G, T> {
    /// Creates a new reentrant mutex based on a pre-existing raw mutex and a
    /// helper to get the thread ID.
    #[inline]
    pub const fn from_raw(raw_mutex: R, get_thread_id: G, val: T) -> ReentrantMutex<R, G, T> {
        ReentrantMutex {
            data: UnsafeCell::new(val),
            raw: RawReentrantMutex {
                owner: AtomicUsize::new(0),
                lock_count: Cell::new(0),
                mutex: raw_mutex,
                get_thread_id,
            },
        }
    }

    /// Creates a new reentrant mutex based on a pre-existing raw mutex and a
    /// helper to get the thread ID.
    ///
    /// This allows creating a reentrant mutex in a constant context on stable
    /// Rust.
    ///
    /// This method is a legacy alias for [`from_raw`](Self::from_raw).
    #[inline]
    pub const fn const_new(raw_mutex: R, get_thread_id: G, val: T) -> ReentrantMutex<R, G, T> {
        Self::from_raw(raw_mutex, get_thread_id, val)
    }
}

impl<R: RawMutex, G: GetThreadId, T: ?Sized> ReentrantMutex<R, G, T> {
    /// Creates a new `ReentrantMutexGuard` without checking if the lock is held.
    ///
    /// # Safety
    ///
    /// This method must only be called if the thread logically holds the lock.
    ///
    /// Calling this function when a guard has already been produced is undefined behaviour unless
    /// the guard was forgotten with `mem::forget`.
    #[inline]
    pub unsafe fn make_guard_unchecked(&self) -> ReentrantMutexGuard<'_, R, G, T> {
        ReentrantMutexGuard {
            remutex: &self,
            marker: PhantomData,
        }
    }

    /// Acquires a reentrant mutex, blocking the current thread until it is able
    /// to do so.
    ///
    /// If the mutex is held by another thread then this function will block the
    /// local thread until it is available to acquire the mutex. If the mutex is
    /// already held by the current thread then this function will increment the
    /// lock reference count and return immediately. Upon returning,
    /// the thread is the only thread with the mutex held. An RAII guard is
    /// returned to allow scoped unlock of the lock. When the guard goes out of
    /// scope, the mutex will be unlocked.
    #[inline]
    #[track_caller]
    pub fn lock(&self) -> ReentrantMutexGuard<'_, R, G, T> {
        self.raw.lock();
        // SAFETY: The lock is held, as required.
        unsafe { self.make_guard_unchecked() }
    }

    /// Attempts to acquire this lock.
    ///
    /// If the lock could not be acquired at this time, then `None` is returned.
    /// Otherwise, an RAII guard is returned. The lock will be unlocked when the
    /// guard is dropped.
    ///
    /// This function does not block.
    #[inline]
    #[track_caller]
    pub fn try_lock(&self) -> Option<ReentrantMutexGuard<'_, R, G, T>> {
        if self.raw.try_lock() {
            // SAFETY: The lock is held, as required.
            Some(unsafe { self.make_guard_unchecked() })
        } else {
            None
        }
    }

    /// Returns a mutable reference to the underlying data.
    ///
    /// Since this call borrows the `ReentrantMutex` mutably, no actual locking needs to
    /// take place---the mutable borrow statically guarantees no locks exist.
    #[inline]
    pub fn get_mut(&mut self) -> &mut T {
        unsafe { &mut *self.data.get() }
    }

    /// Checks whether the mutex is currently locked.
    #[inline]
    #[track_caller]
    pub fn is_locked(&self) -> bool {
        self.raw.is_locked()
    }

    /// Checks whether the mutex is currently held by the current thread.
    #[inline]
    #[track_caller]
    pub fn is_owned_by_current_thread(&self) -> bool {
        self.raw.is_owned_by_current_thread()
    }

    /// Forcibly unlocks the mutex.
    ///
    /// This is useful when combined with `mem::forget` to hold a lock without
    /// the need to maintain a `ReentrantMutexGuard` object alive, for example when
    /// dealing with FFI.
    ///
    /// # Safety
    ///
    /// This method must only be called if the current thread logically owns a
    /// `ReentrantMutexGuard` but that guard has be discarded using `mem::forget`.
    /// Behavior is undefined if a mutex is unlocked when not locked.
    #[inline]
    #[track_caller]
    pub unsafe fn force_unlock(&self) {
        self.raw.unlock();
    }

    /// Returns the underlying raw mutex object.
    ///
    /// Note that you will most likely need to import the `RawMutex` trait from
    /// `lock_api` to be able to call functions on the raw mutex.
    ///
    /// # Safety
    ///
    /// This method is unsafe because it allows unlocking a mutex while
    /// still holding a reference to a `ReentrantMutexGuard`.
    #[inline]
    pub unsafe fn raw(&self) -> &R {
        &self.raw.mutex
    }

    /// Returns a raw pointer to the underlying data.
    ///
    /// This is useful when combined with `mem::forget` to hold a lock without
    /// the need to maintain a `ReentrantMutexGuard` object alive, for example
    /// when dealing with FFI.
    ///
    /// # Safety
    ///
    /// You must ensure that there are no data races when dereferencing the
    /// returned pointer, for example if the current thread logically owns a
    /// `ReentrantMutexGuard` but that guard has been discarded using
    /// `mem::forget`.
    #[inline]
    pub fn data_ptr(&self) -> *mut T {
        self.data.get()
    }

    /// Creates a new `ArcReentrantMutexGuard` without checking if the lock is held.
    ///
    /// # Safety
    ///
    /// This method must only be called if the thread logically holds the lock.
    ///
    /// Calling this function when a guard has already been produced is undefined behaviour unless
    /// the guard was forgotten with `mem::forget`.
    #[cfg(feature = "arc_lock")]
    #[inline]
    pub unsafe fn make_arc_guard_unchecked(self: &Arc<Self>) -> ArcReentrantMutexGuard<R, G, T> {
        ArcReentrantMutexGuard {
            remutex: self.clone(),
            marker: PhantomData,
        }
    }

    /// Acquires a reentrant mutex through an `Arc`.
    ///
    /// This method is similar to the `lock` method; however, it requires the `ReentrantMutex` to be inside of an
    /// `Arc` and the resulting mutex guard has no lifetime requirements.
    #[cfg(feature = "arc_lock")]
    #[inline]
    #[track_caller]
    pub fn lock_arc(self: &Arc<Self>) -> ArcReentrantMutexGuard<R, G, T> {
        self.raw.lock();
        // SAFETY: locking guarantee is upheld
        unsafe { self.make_arc_guard_unchecked() }
    }

    /// Attempts to acquire a reentrant mutex through an `Arc`.
    ///
    /// This method is similar to the `try_lock` method; however, it requires the `ReentrantMutex` to be inside
    /// of an `Arc` and the resulting mutex guard has no lifetime requirements.
    #[cfg(feature = "arc_lock")]
    #[inline]
    #[track_caller]
    pub fn try_lock_arc(self: &Arc<Self>) -> Option<ArcReentrantMutexGuard<R, G, T>> {
        if self.raw.try_lock() {
            // SAFETY: locking guarantee is upheld
            Some(unsafe { self.make_arc_guard_unchecked() })
        } else {
            None
        }
    }
}

impl<R: RawMutexFair, G: GetThreadId, T: ?Sized> ReentrantMutex<R, G, T> {
    /// Forcibly unlocks the mutex using a fair unlock protocol.
    ///
    /// This is useful when combined with `mem::forget` to hold a lock without
    /// the need to maintain a `ReentrantMutexGuard` object alive, for example when
    /// dealing with FFI.
    ///
    /// # Safety
    ///
    /// This method must only be called if the current thread logically owns a
    /// `ReentrantMutexGuard` but that guard has be discarded using `mem::forget`.
    /// Behavior is undefined if a mutex is unlocked when not locked.
    #[inline]
    #[track_caller]
    pub unsafe fn force_unlock_fair(&self) {
        self.raw.unlock_fair();
    }
}

impl<R: RawMutexTimed, G: GetThreadId, T: ?Sized> ReentrantMutex<R, G, T> {
    /// Attempts to acquire this lock until a timeout is reached.
    ///
    /// If the lock could not be acquired before the timeout expired, then
    /// `None` is returned. Otherwise, an RAII guard is returned. The lock will
    /// be unlocked when the guard is dropped.
    #[inline]
    #[track_caller]
    pub fn try_lock_for(&self, timeout: R::Duration) -> Option<ReentrantMutexGuard<'_, R, G, T>> {
        if self.raw.try_lock_for(timeout) {
            // SAFETY: The lock is held, as required.
            Some(unsafe { self.make_guard_unchecked() })
        } else {
            None
        }
    }

    /// Attempts to acquire this lock until a timeout is reached.
    ///
    /// If the lock could not be acquired before the timeout expired, then
    /// `None` is returned. Otherwise, an RAII guard is returned. The lock will
    /// be unlocked when the guard is dropped.
    #[inline]
    #[track_caller]
    pub fn try_lock_until(&self, timeout: R::Instant) -> Option<ReentrantMutexGuard<'_, R, G, T>> {
        if self.raw.try_lock_until(timeout) {
            // SAFETY: The lock is held, as required.
            Some(unsafe { self.make_guard_unchecked() })
        } else {
            None
        }
    }

    /// Attempts to acquire this lock until a timeout is reached, through an `Arc`.
    ///
    /// This method is similar to the `try_lock_for` method; however, it requires the `ReentrantMutex` to be
    /// inside of an `Arc` and the resulting mutex guard has no lifetime requirements.
    #[cfg(feature = "arc_lock")]
    #[inline]
    #[track_caller]
    pub fn try_lock_arc_for(
        self: &Arc<Self>,
        timeout: R::Duration,
    ) -> Option<ArcReentrantMutexGuard<R, G, T>> {
        if self.raw.try_lock_for(timeout) {
            // SAFETY: locking guarantee is upheld
            Some(unsafe { self.make_arc_guard_unchecked() })
        } else {
            None
        }
    }

    /// Attempts to acquire this lock until a timeout is reached, through an `Arc`.
    ///
    /// This method is similar to the `try_lock_until` method; however, it requires the `ReentrantMutex` to be
    /// inside of an `Arc` and the resulting mutex guard has no lifetime requirements.
    #[cfg(feature = "arc_lock")]
    #[inline]
    #[track_caller]
    pub fn try_lock_arc_until(
        self: &Arc<Self>,
        timeout: R::Instant,
    ) -> Option<ArcReentrantMutexGuard<R, G, T>> {
        if self.raw.try_lock_until(timeout) {
            // SAFETY: locking guarantee is upheld
            Some(unsafe { self.make_arc_guard_unchecked() })
        } else {
            None
        }
    }
}

impl<R: RawMutex, G: GetThreadId, T: ?Sized + Default> Default for ReentrantMutex<R, G, T> {
    #[inline]
    fn default() -> ReentrantMutex<R, G, T> {
        ReentrantMutex::new(Default::default())
    }
}

impl<R: RawMutex, G: GetThreadId, T> From<T> for ReentrantMutex<R, G, T> {
    #[inline]
    fn from(t: T) -> ReentrantMutex<R, G, T> {
        ReentrantMutex::new(t)
    }
}

impl<R: RawMutex, G: GetThreadId, T: ?Sized + fmt::Debug> fmt::Debug for ReentrantMutex<R, G, T> {
    fn fmt(&self, f: &mut fmt::Formatter<'_>) -> fmt::Result {
        match self.try_lock() {
            Some(guard) => f
                .debug_struct("ReentrantMutex")
                .field("data", &&*guard)
                .finish(),
            None => {
                struct LockedPlaceholder;
                impl fmt::Debug for LockedPlaceholder {
                    fn fmt(&self, f: &mut fmt::Formatter<'_>) -> fmt::Result {
                        f.write_str("<locked>")
                    }
                }

                f.debug_struct("ReentrantMutex")
                    .field("data", &LockedPlaceholder)
                    .finish()
            }
        }
    }
}

// Copied and modified from serde
#[cfg(feature = "serde")]
impl<R, G, T> Serialize for ReentrantMutex<R, G, T>
where
    R: RawMutex,
    G: GetThreadId,
    T: Serialize + ?Sized,
{
    fn serialize<S>(&self, serializer: S) -> Result<S::Ok, S::Error>
    where
        S: Serializer,
    {
        self.lock().serialize(serializer)
    }
}

#[cfg(feature = "serde")]
impl<'de, R, G, T> Deserialize<'de> for ReentrantMutex<R, G, T>
where
    R: RawMutex,
    G: GetThreadId,
    T: Deserialize<'de> + ?Sized,
{
    fn deserialize<D>(deserializer: D) -> Result<Self, D::Error>
    where
        D: Deserializer<'de>,
    {
        Deserialize::deserialize(deserializer).map(ReentrantMutex::new)
    }
}

/// An RAII implementation of a "scoped lock" of a reentrant mutex. When this structure
/// is dropped (falls out of scope), the lock will be unlocked.
///
/// The data protected by the mutex can be accessed through this guard via its
/// `Deref` implementation.
#[clippy::has_significant_drop]
#[must_use = "if unused the ReentrantMutex will immediately unlock"]
pub struct ReentrantMutexGuard<'a, R: RawMutex, G: GetThreadId, T: ?Sized> {
    remutex: &'a ReentrantMutex<R, G, T>,
    marker: PhantomData<(&'a T, GuardNoSend)>,
}

unsafe impl<'a, R: RawMutex + Sync + 'a, G: GetThreadId + Sync + 'a, T: ?Sized + Sync + 'a> Sync
    for ReentrantMutexGuard<'a, R, G, T>
{
}

impl<'a, R: RawMutex + 'a, G: GetThreadId + 'a, T: ?Sized + 'a> ReentrantMutexGuard<'a, R, G, T> {
    /// Returns a reference to the original `ReentrantMutex` object.
    pub fn remutex(s: &Self) -> &'a ReentrantMutex<R, G, T> {
        s.remutex
    }

    /// Makes a new `MappedReentrantMutexGuard` for a component of the locked data.
    ///
    /// This operation cannot fail as the `ReentrantMutexGuard` passed
    /// in already locked the mutex.
    ///
    /// This is an associated function that needs to be
    /// used as `ReentrantMutexGuard::map(...)`. A method would interfere with methods of
    /// the same name on the contents of the locked data.
    #[inline]
    pub fn map<U: ?Sized, F>(s: Self, f: F) -> MappedReentrantMutexGuard<'a, R, G, U>
    where
        F: FnOnce(&T) -> &U,
    {
        let raw = &s.remutex.raw;
        let data = f(unsafe { &*s.remutex.data.get() });
        mem::forget(s);
        MappedReentrantMutexGuard {
            raw,
            data,
            marker: PhantomData,
        }
    }

    /// Attempts to make  a new `MappedReentrantMutexGuard` for a component of the
    /// locked data. The original guard is return if the closure returns `None`.
    ///
    /// This operation cannot fail as the `ReentrantMutexGuard` passed
    /// in already locked the mutex.
    ///
    /// This is an associated function that needs to be
    /// used as `ReentrantMutexGuard::try_map(...)`. A method would interfere with methods of
    /// the same name on the contents of the locked data.
    #[inline]
    pub fn try_map<U: ?Sized, F>(
        s: Self,
        f: F,
    ) -> Result<MappedReentrantMutexGuard<'a, R, G, U>, Self>
    where
        F: FnOnce(&T) -> Option<&U>,
    {
        let raw = &s.remutex.raw;
        let data = match f(unsafe { &*s.remutex.data.get() }) {
            Some(data) => data,
            None => return Err(s),
        };
        mem::forget(s);
        Ok(MappedReentrantMutexGuard {
            raw,
            data,
            marker: PhantomData,
        })
    }

    /// Attempts to make  a new `MappedReentrantMutexGuard` for a component of the
    /// locked data. The original guard is returned alongside arbitrary user data
    /// if the closure returns `Err`.
    ///
    /// This operation cannot fail as the `ReentrantMutexGuard` passed
    /// in already locked the mutex.
    ///
    /// This is an associated function that needs to be
    /// used as `ReentrantMutexGuard::try_map_or_err(...)`. A method would interfere with methods of
    /// the same name on the contents of the locked data.
    #[inline]
    pub fn try_map_or_err<U: ?Sized, F, E>(
        s: Self,
        f: F,
    ) -> Result<MappedReentrantMutexGuard<'a, R, G, U>, (Self, E)>
    where
        F: FnOnce(&T) -> Result<&U, E>,
    {
        let raw = &s.remutex.raw;
        let data = match f(unsafe { &*s.remutex.data.get() }) {
            Ok(data) => data,
            Err(e) => return Err((s, e)),
        };
        mem::forget(s);
        Ok(MappedReentrantMutexGuard {
            raw,
            data,
            marker: PhantomData,
        })
    }

    /// Temporarily unlocks the mutex to execute the given function.
    ///
    /// This is safe because `&mut` guarantees that there exist no other
    /// references to the data protected by the mutex.
    #[inline]
    #[track_caller]
    pub fn unlocked<F, U>(s: &mut Self, f: F) -> U
    where
        F: FnOnce() -> U,
    {
        // Safety: A ReentrantMutexGuard always holds the lock.
        unsafe {
            s.remutex.raw.unlock();
        }
        defer!(s.remutex.raw.lock());
        f()
    }
}

impl<'a, R: RawMutexFair + 'a, G: GetThreadId + 'a, T: ?Sized + 'a>
    ReentrantMutexGuard<'a, R, G, T>
{
    /// Unlocks the mutex using a fair unlock protocol.
    ///
    /// By default, mutexes are unfair and allow the current thread to re-lock
    /// the mutex before another has the chance to acquire the lock, even if
    /// that thread has been blocked on the mutex for a long time. This is the
    /// default because it allows much higher throughput as it avoids forcing a
    /// context switch on every mutex unlock. This can result in one thread
    /// acquiring a mutex many more times than other threads.
    ///
    /// However in some cases it can be beneficial to ensure fairness by forcing
    /// the lock to pass on to a waiting thread if there is one. This is done by
    /// using this method instead of dropping the `ReentrantMutexGuard` normally.
    #[inline]
    #[track_caller]
    pub fn unlock_fair(s: Self) {
        // Safety: A ReentrantMutexGuard always holds the lock
        unsafe {
            s.remutex.raw.unlock_fair();
        }
        mem::forget(s);
    }

    /// Temporarily unlocks the mutex to execute the given function.
    ///
    /// The mutex is unlocked a fair unlock protocol.
    ///
    /// This is safe because `&mut` guarantees that there exist no other
    /// references to the data protected by the mutex.
    #[inline]
    #[track_caller]
    pub fn unlocked_fair<F, U>(s: &mut Self, f: F) -> U
    where
        F: FnOnce() -> U,
    {
        // Safety: A ReentrantMutexGuard always holds the lock
        unsafe {
            s.remutex.raw.unlock_fair();
        }
        defer!(s.remutex.raw.lock());
        f()
    }

    /// Temporarily yields the mutex to a waiting thread if there is one.
    ///
    /// This method is functionally equivalent to calling `unlock_fair` followed
    /// by `lock`, however it can be much more efficient in the case where there
    /// are no waiting threads.
    #[inline]
    #[track_caller]
    pub fn bump(s: &mut Self) {
        // Safety: A ReentrantMutexGuard always holds the lock
        unsafe {
            s.remutex.raw.bump();
        }
    }
}

impl<'a, R: RawMutex + 'a, G: GetThreadId + 'a, T: ?Sized + 'a> Deref
    for ReentrantMutexGuard<'a, R, G, T>
{
    type Target = T;
    #[inline]
    fn deref(&self) -> &T {
        unsafe { &*self.remutex.data.get() }
    }
}

impl<'a, R: RawMutex + 'a, G: GetThreadId + 'a, T: ?Sized + 'a> Drop
    for ReentrantMutexGuard<'a, R, G, T>
{
    #[inline]
    fn drop(&mut self) {
        // Safety: A ReentrantMutexGuard always holds the lock.
        unsafe {
            self.remutex.raw.unlock();
        }
    }
}

impl<'a, R: RawMutex + 'a, G: GetThreadId + 'a, T: fmt::Debug + ?Sized + 'a> fmt::Debug
    for ReentrantMutexGuard<'a, R, G, T>
{
    fn fmt(&self, f: &mut fmt::Formatter<'_>) -> fmt::Result {
        fmt::Debug::fmt(&**self, f)
    }
}

impl<'a, R: RawMutex + 'a, G: GetThreadId + 'a, T: fmt::Display + ?Sized + 'a> fmt::Display
    for ReentrantMutexGuard<'a, R, G, T>
{
    fn fmt(&self, f: &mut fmt::Formatter<'_>) -> fmt::Result {
        (**self).fmt(f)
    }
}

#[cfg(feature = "owning_ref")]
unsafe impl<'a, R: RawMutex + 'a, G: GetThreadId + 'a, T: ?Sized + 'a> StableAddress
    for ReentrantMutexGuard<'a, R, G, T>
{
}

/// An RAII mutex guard returned by the `Arc` locking operations on `ReentrantMutex`.
///
/// This is similar to the `ReentrantMutexGuard` struct, except instead of using a reference to unlock the
/// `Mutex` it uses an `Arc<ReentrantMutex>`. This has several advantages, most notably that it has an `'static`
/// lifetime.
#[cfg(feature = "arc_lock")]
#[clippy::has_significant_drop]
#[must_use = "if unused the ReentrantMutex will immediately unlock"]
pub struct ArcReentrantMutexGuard<R: RawMutex, G: GetThreadId, T: ?Sized> {
    remutex: Arc<ReentrantMutex<R, G, T>>,
    marker: PhantomData<GuardNoSend>,
}

#[cfg(feature = "arc_lock")]
impl<R: RawMutex, G: GetThreadId, T: ?Sized> ArcReentrantMutexGuard<R, G, T> {
    /// Returns a reference to the `ReentrantMutex` this object is guarding, contained in its `Arc`.
    pub fn remutex(s: &Self) -> &Arc<ReentrantMutex<R, G, T>> {
        &s.remutex
    }

    /// Unlocks the mutex and returns the `Arc` that was held by the [`ArcReentrantMutexGuard`].
    #[inline]
    pub fn into_arc(s: Self) -> Arc<ReentrantMutex<R, G, T>> {
        // SAFETY: Skip our Drop impl and manually unlock the mutex.
        let s = ManuallyDrop::new(s);
        unsafe {
            s.remutex.raw.unlock();
            ptr::read(&s.remutex)
        }
    }

    /// Temporarily unlocks the mutex to execute the given function.
    ///
    /// This is safe because `&mut` guarantees that there exist no other
    /// references to the data protected by the mutex.
    #[inline]
    #[track_caller]
    pub fn unlocked<F, U>(s: &mut Self, f: F) -> U
    where
        F: FnOnce() -> U,
    {
        // Safety: A ReentrantMutexGuard always holds the lock.
        unsafe {
            s.remutex.raw.unlock();
        }
        defer!(s.remutex.raw.lock());
        f()
    }
}

#[cfg(feature = "arc_lock")]
impl<R: RawMutexFair, G: GetThreadId, T: ?Sized> ArcReentrantMutexGuard<R, G, T> {
    /// Unlocks the mutex using a fair unlock protocol.
    ///
    /// This is functionally identical to the `unlock_fair` method on [`ReentrantMutexGuard`].
    #[inline]
    #[track_caller]
    pub fn unlock_fair(s: Self) {
        drop(Self::into_arc_fair(s));
    }

    /// Unlocks the mutex using a fair unlock protocol and returns the `Arc` that was held by the [`ArcReentrantMutexGuard`].
    #[inline]
    pub fn into_arc_fair(s: Self) -> Arc<ReentrantMutex<R, G, T>> {
        // SAFETY: Skip our Drop impl and manually unlock the mutex.
        let s = ManuallyDrop::new(s);
        unsafe {
            s.remutex.raw.unlock_fair();
            ptr::read(&s.remutex)
        }
    }

    /// Temporarily unlocks the mutex to execute the given function.
    ///
    /// This is functionally identical to the `unlocked_fair` method on [`ReentrantMutexGuard`].
    #[inline]
    #[track_caller]
    pub fn unlocked_fair<F, U>(s: &mut Self, f: F) -> U
    where
        F: FnOnce() -> U,
    {
        // Safety: A ReentrantMutexGuard always holds the lock
        unsafe {
            s.remutex.raw.unlock_fair();
        }
        defer!(s.remutex.raw.lock());
        f()
    }

    /// Temporarily yields the mutex to a waiting thread if there is one.
    ///
    /// This is functionally equivalent to the `bump` method on [`ReentrantMutexGuard`].
    #[inline]
    #[track_caller]
    pub fn bump(s: &mut Self) {
        // Safety: A ReentrantMutexGuard always holds the lock
        unsafe {
            s.remutex.raw.bump();
        }
    }
}

#[cfg(feature = "arc_lock")]
impl<R: RawMutex, G: GetThreadId, T: ?Sized> Deref for ArcReentrantMutexGuard<R, G, T> {
    type Target = T;
    #[inline]
    fn deref(&self) -> &T {
        unsafe { &*self.remutex.data.get() }
    }
}

#[cfg(feature = "arc_lock")]
impl<R: RawMutex, G: GetThreadId, T: ?Sized> Drop for ArcReentrantMutexGuard<R, G, T> {
    #[inline]
    fn drop(&mut self) {
        // Safety: A ReentrantMutexGuard always holds the lock.
        unsafe {
            self.remutex.raw.unlock();
        }
    }
}

/// An RAII mutex guard returned by `ReentrantMutexGuard::map`, which can point to a
/// subfield of the protected data.
///
/// The main difference between `MappedReentrantMutexGuard` and `ReentrantMutexGuard` is that the
/// former doesn't support temporarily unlocking and re-locking, since that
/// could introduce soundness issues if the locked object is modified by another
/// thread.
#[clippy::has_significant_drop]
#[must_use = "if unused the ReentrantMutex will immediately unlock"]
pub struct MappedReentrantMutexGuard<'a, R: RawMutex, G: GetThreadId, T: ?Sized> {
    raw: &'a RawReentrantMutex<R, G>,
    data: *const T,
    marker: PhantomData<&'a T>,
}

unsafe impl<'a, R: RawMutex + Sync + 'a, G: GetThreadId + Sync + 'a, T: ?Sized + Sync + 'a> Sync
    for MappedReentrantMutexGuard<'a, R, G, T>
{
}

impl<'a, R: RawMutex + 'a, G: GetThreadId + 'a, T: ?Sized + 'a>
    MappedReentrantMutexGuard<'a, R, G, T>
{
    /// Makes a new `MappedReentrantMutexGuard` for a component of the locked data.
    ///
    /// This operation cannot fail as the `MappedReentrantMutexGuard` passed
    /// in already locked the mutex.
    ///
    /// This is an associated function that needs to be
    /// used as `MappedReentrantMutexGuard::map(...)`. A method would interfere with methods of
    /// the same name on the contents of the locked data.
    #[inline]
    pub fn map<U: ?Sized, F>(s: Self, f: F) -> MappedReentrantMutexGuard<'a, R, G, U>
    where
        F: FnOnce(&T) -> &U,
    {
        let raw = s.raw;
        let data = f(unsafe { &*s.data });
        mem::forget(s);
        MappedReentrantMutexGuard {
            raw,
            data,
            marker: PhantomData,
        }
    }

    /// Attempts to make  a new `MappedReentrantMutexGuard` for a component of the
    /// locked data. The original guard is return if the closure returns `None`.
    ///
    /// This operation cannot fail as the `MappedReentrantMutexGuard` passed
    /// in already locked the mutex.
    ///
    /// This is an associated function that needs to be
    /// used as `MappedReentrantMutexGuard::try_map(...)`. A method would interfere with methods of
    /// the same name on the contents of the locked data.
    #[inline]
    pub fn try_map<U: ?Sized, F>(
        s: Self,
        f: F,
    ) -> Result<MappedReentrantMutexGuard<'a, R, G, U>, Self>
    where
        F: FnOnce(&T) -> Option<&U>,
    {
        let raw = s.raw;
        let data = match f(unsafe { &*s.data }) {
            Some(data) => data,
            None => return Err(s),
        };
        mem::forget(s);
        Ok(MappedReentrantMutexGuard {
            raw,
            data,
            marker: PhantomData,
        })
    }

    /// Attempts to make  a new `MappedReentrantMutexGuard` for a component of the
    /// locked data. The original guard is returned alongside arbitrary user data
    /// if the closure returns `Err`.
    ///
    /// This operation cannot fail as the `MappedReentrantMutexGuard` passed
    /// in already locked the mutex.
    ///
    /// This is an associated function that needs to be
    /// used as `MappedReentrantMutexGuard::try_map_or_err(...)`. A method would interfere with methods of
    /// the same name on the contents of the locked data.
    #[inline]
    pub fn try_map_or_err<U: ?Sized, F, E>(
        s: Self,
        f: F,
    ) -> Result<MappedReentrantMutexGuard<'a, R, G, U>, (Self, E)>
    where
        F: FnOnce(&T) -> Result<&U, E>,
    {
        let raw = s.raw;
        let data = match f(unsafe { &*s.data }) {
            Ok(data) => data,
            Err(e) => return Err((s, e)),
        };
        mem::forget(s);
        Ok(MappedReentrantMutexGuard {
            raw,
            data,
            marker: PhantomData,
        })
    }
}

impl<'a, R: RawMutexFair + 'a, G: GetThreadId + 'a, T: ?Sized + 'a>
    MappedReentrantMutexGuard<'a, R, G, T>
{
    /// Unlocks the mutex using a fair unlock protocol.
    ///
    /// By default, mutexes are unfair and allow the current thread to re-lock
    /// the mutex before another has the chance to acquire the lock, even if
    /// that thread has been blocked on the mutex for a long time. This is the
    /// default because it allows much higher throughput as it avoids forcing a
    /// context switch on every mutex unlock. This can result in one thread
    /// acquiring a mutex many more times than other threads.
    ///
    /// However in some cases it can be beneficial to ensure fairness by forcing
    /// the lock to pass on to a waiting thread if there is one. This is done by
    /// using this method instead of dropping the `ReentrantMutexGuard` normally.
    #[inline]
    #[track_caller]
    pub fn unlock_fair(s: Self) {
        // Safety: A MappedReentrantMutexGuard always holds the lock
        unsafe {
            s.raw.unlock_fair();
        }
        mem::forget(s);
    }
}

impl<'a, R: RawMutex + 'a, G: GetThreadId + 'a, T: ?Sized + 'a> Deref
    for MappedReentrantMutexGuard<'a, R, G, T>
{
    type Target = T;
    #[inline]
    fn deref(&self) -> &T {
        unsafe { &*self.data }
    }
}

impl<'a, R: RawMutex + 'a, G: GetThreadId + 'a, T: ?Sized + 'a> Drop
    for MappedReentrantMutexGuard<'a, R, G, T>
{
    #[inline]
    fn drop(&mut self) {
        // Safety: A MappedReentrantMutexGuard always holds the lock.
        unsafe {
            self.raw.unlock();
        }
    }
}

impl<'a, R: RawMutex + 'a, G: GetThreadId + 'a, T: fmt::Debug + ?Sized + 'a> fmt::Debug
    for MappedReentrantMutexGuard<'a, R, G, T>
{
    fn fmt(&self, f: &mut fmt::Formatter<'_>) -> fmt::Result {
        fmt::Debug::fmt(&**self, f)
    }
}

impl<'a, R: RawMutex + 'a, G: GetThreadId + 'a, T: fmt::Display + ?Sized + 'a> fmt::Display
    for MappedReentrantMutexGuard<'a, R, G, T>
{
    fn fmt(&self, f: &mut fmt::Formatter<'_>) -> fmt::Result {
        (**self).fmt(f)
    }
}

#[cfg(feature = "owning_ref")]
unsafe impl<'a, R: RawMutex + 'a, G: GetThreadId + 'a, T: ?Sized + 'a> StableAddress
    for MappedReentrantMutexGuard<'a, R, G, T>
{
}
