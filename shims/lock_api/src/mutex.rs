// Copyright 2018 Amanieu d'Antras
//
// Licensed under the Apache License, Version 2.0, <LICENSE-APACHE or
// http://apache.org/licenses/LICENSE-2.0> or the MIT license <LICENSE-MIT or
// http://opensource.org/licenses/MIT>, at your option. This file may not be
// copied, modified, or distributed except according to those terms.

use core::cell::UnsafeCell;
use core::fmt;
use core::marker::PhantomData;
use core::mem;
use core::ops::{Deref, DerefMut};

#[cfg(feature = "arc_lock")]
use alloc::sync::Arc;
#[cfg(feature = "arc_lock")]
use core::mem::ManuallyDrop;
#[cfg(feature = "arc_lock")]
use core::ptr;

#[cfg(feature = "owning_ref")]
use owning_ref::StableAddress;

#[cfg(feature = "serde")]
use serde::{Deserialize, Deserializer, Serialize, Serializer};

/// Basic operations for a mutex.
///
/// Types implementing this trait can be used by `Mutex` to form a safe and
/// fully-functioning mutex type.
///
/// # Safety
///
/// Implementations of this trait must ensure that the mutex is actually
/// exclusive: a lock can't be acquired while the mutex is already locked.
pub unsafe trait RawMutex {
    /// Initial value for an unlocked mutex.
    // A “non-constant” const item is a legacy way to supply an initialized value to downstream
    // static items. Can hopefully be replaced with `const fn new() -> Self` at some point.
    #[allow(clippy::declare_interior_mutable_const)]
    const INIT: Self;

    /// Marker type which determines whether a lock guard should be `Send`. Use
    /// one of the `GuardSend` or `GuardNoSend` helper types here.
    type GuardMarker;

    /// Acquires this mutex, blocking the current thread until it is able to do so.
    fn lock(&self);

    /// Attempts to acquire this mutex without blocking. Returns `true`
    /// if the lock was successfully acquired and `false` otherwise.
    fn try_lock(&self) -> bool;

    /// Unlocks this mutex.
    ///
    /// # Safety
    ///
    /// This method may only be called if the mutex is held in the current context, i.e. it must
    /// be paired with a successful call to [`lock`], [`try_lock`], [`try_lock_for`] or [`try_lock_until`].
    ///
    /// [`lock`]: RawMutex::lock
    /// [`try_lock`]: RawMutex::try_lock
    /// [`try_lock_for`]: RawMutexTimed::try_lock_for
    /// [`try_lock_until`]: RawMutexTimed::try_lock_until
    unsafe fn unlock(&self);

    /// Checks whether the mutex is currently locked.
    #[inline]
    fn is_locked(&self) -> bool {
        let acquired_lock = self.try_lock();
        if acquired_lock {
            // Safety: The lock has been successfully acquired above.
            unsafe {
                self.unlock();
            }
        }
        !acquired_lock
    }
}

/// Additional methods for mutexes which support fair unlocking.
///
/// Fair unlocking means that a lock is handed directly over to the next waiting
/// thread if there is one, without giving other threads the opportunity to
/// "steal" the lock in the meantime. This is typically slower than unfair
/// unlocking, but may be necessary in certain circumstances.
pub unsafe trait RawMutexFair: RawMutex {
    /// Unlocks this mutex using a fair unlock protocol.
    ///
    /// # Safety
    ///
    /// This method may only be called if the mutex is held in the current context, see
    /// the documentation of [`unlock`](RawMutex::unlock).
    unsafe fn unlock_fair(&self);

    /// Temporarily yields the mutex to a waiting thread if there is one.
    ///
    /// This method is functionally equivalent to calling `unlock_fair` followed
    /// by `lock`, however it can be much more efficient in the case where there
    /// are no waiting threads.
    ///
    /// # Safety
    ///
    /// This method may only be called if the mutex is held in the current context, see
    /// the documentation of [`unlock`](RawMutex::unlock).
    unsafe fn bump(&self) {
        self.unlock_fair();
        self.lock();
    }
}

/// Additional methods for mutexes which support locking with timeouts.
///
/// The `Duration` and `Instant` types are specified as associated types so that
/// this trait is usable even in `no_std` environments.
pub unsafe trait RawMutexTimed: RawMutex {
    /// Duration type used for `try_lock_for`.
    type Duration;

    /// Instant type used for `try_lock_until`.
    type Instant;

    /// Attempts to acquire this lock until a timeout is reached.
    fn try_lock_for(&self, timeout: Self::Duration) -> bool;

    /// Attempts to acquire this lock until a timeout is reached.
    fn try_lock_until(&self, timeout: Self::Instant) -> bool;
}

/// A mutual exclusion primitive useful for protecting shared data
///
/// This mutex will block threads waiting for the lock to become available. The
/// mutex can also be statically initialized or created via a `new`
/// constructor. Each mutex has a type parameter which represents the data that
/// it is protecting. The data can only be accessed through the RAII guards
/// returned from `lock` and `try_lock`, which guarantees that the data is only
/// ever accessed when the mutex is locked.
pub struct Mutex<R, T: ?Sized> {
    raw: crate::verif::Hooked<R>,
    data: UnsafeCell<T>,
}

unsafe impl<R: RawMutex + Send, T: ?Sized + Send> Send for Mutex<R, T> {}
unsafe impl<R: RawMutex + Sync, T: ?Sized + Send> Sync for Mutex<R, T> {}

impl<R: RawMutex, T> Mutex<R, T> {
    /// Creates a new mutex in an unlocked state ready for use.
    #[inline]
    pub const fn new(val: T) -> Mutex<R, T> {
        Mutex {
            raw: crate::verif::Hooked::new(R::INIT),
            data: UnsafeCell::new(val),
        }
    }

    /// Consumes this mutex, returning the underlying data.
    #[inline]
    pub fn into_inner(self) -> T {
        self.data.into_inner()
    }
}

impl<R, T> Mutex<R, T> {
    /// Creates a new mutex based on a pre-existing raw mutex.
    #[inline]
    pub const fn from_raw(raw_mutex: R, val: T) -> Mutex<R, T> {
        Mutex {
            raw: crate::verif::Hooked::new(raw_mutex),
            data: UnsafeCell::new(val),
        }
    }

    /// Creates a new mutex based on a pre-existing raw mutex.
    ///
    /// This allows creating a mutex in a constant context on stable Rust.
    ///
    /// This method is a legacy alias for [`from_raw`](Self::from_raw).
    #[inline]
    pub const fn const_new(raw_mutex: R, val: T) -> Mutex<R, T> {
        Self::from_raw(raw_mutex, val)
    }
}

impl<R: RawMutex, T: ?Sized> Mutex<R, T> {
    /// Creates a new `MutexGuard` without checking if the mutex is locked.
    ///
    /// # Safety
    ///
    /// This method must only be called if the thread logically holds the lock.
    ///
    /// Calling this function when a guard has already been produced is undefined behaviour unless
    /// the guard was forgotten with `mem::forget`.
    #[inline]
    pub unsafe fn make_guard_unchecked(&self) -> MutexGuard<'_, R, T> {
        MutexGuard {
            mutex: self,
            marker: PhantomData,
        }
    }

    /// Acquires a mutex, blocking the current thread until it is able to do so.
    ///
    /// This function will block the local thread until it is available to acquire
    /// the mutex. Upon returning, the thread is the only thread with the mutex
    /// held. An RAII guard is returned to allow scoped unlock of the lock. When
    /// the guard goes out of scope, the mutex will be unlocked.
    ///
    /// Attempts to lock a mutex in the thread which already holds the lock will
    /// result in a deadlock.
    #[inline]
    #[track_caller]
    pub fn lock(&self) -> MutexGuard<'_, R, T> {
        self.raw.lock();
        // SAFETY: The lock is held, as required.
        unsafe { self.make_guard_unchecked() }
    }

    /// Attempts to acquire this lock.
    ///
    /// If the lock could not be acquired at this time, then `None` is returned.
    /// Otherwise, an RAII guard is returned. The lock will be unlocked when the
    /// guard is dropped.
    ///
    /// This function does not block.
    #[inline]
    #[track_caller]
    pub fn try_lock(&self) -> Option<MutexGuard<'_, R, T>> {
        if self.raw.try_lock() {
            // SAFETY: The lock is held, as required.
            Some(unsafe { self.make_guard_unchecked() })
        } else {
            None
        }
    }

    /// Returns a mutable reference to the underlying data.
    ///
    /// Since this call borrows the `Mutex` mutably, no actual locking needs to
    /// take place---the mutable borrow statically guarantees no locks exist.
    #[inline]
    pub fn get_mut(&mut self) -> &mut T {
        unsafe { &mut *self.data.get() }
    }

    /// Checks whether the mutex is currently locked.
    #[inline]
    #[track_caller]
    pub fn is_locked(&self) -> bool {
        self.raw.is_locked()
    }

    /// Forcibly unlocks the mutex.
    ///
    /// This is useful when combined with `mem::forget` to hold a lock without
    /// the need to maintain a `MutexGuard` object alive, for example when
    /// dealing with FFI.
    ///
    /// # Safety
    ///
    /// This method must only be called if the current thread logically owns a
    /// `MutexGuard` but that guard has been discarded using `mem::forget`.
    /// Behavior is undefined if a mutex is unlocked when not locked.
    #[inline]
    #[track_caller]
    pub unsafe fn force_unlock(&self) {
        self.raw.unlock();
    }

    /// Returns the underlying raw mutex object.
    ///
    /// Note that you will most likely need to import the `RawMutex` trait from
    /// `lock_api` to be able to call functions on the raw mutex.
    ///
    /// # Safety
    ///
    /// This method is unsafe because it allows unlocking a mutex while
    /// still holding a reference to a `MutexGuard`.
    #[inline]
    pub unsafe fn raw(&self) -> &R {
        &self.raw.0
    }

    /// Returns a raw pointer to the underlying data.
    ///
    /// This is useful when combined with `mem::forget` to hold a lock without
    /// the need to maintain a `MutexGuard` object alive, for example when
    /// dealing with FFI.
    ///
    /// # Safety
    ///
    /// You must ensure that there are no data races when dereferencing the
    /// returned pointer, for example if the current thread logically owns
    /// a `MutexGuard` but that guard has been discarded using `mem::forget`.
    #[inline]
    pub fn data_ptr(&self) -> *mut T {
        self.data.get()
    }

    /// Creates a new `ArcMutexGuard` without checking if the mutex is locked.
    ///
    /// # Safety
    ///
    /// This method must only be called if the thread logically holds the lock.
    ///
    /// Calling this function when a guard has already been produced is undefined behaviour unless
    /// the guard was forgotten with `mem::forget`.
    #[cfg(feature = "arc_lock")]
    #[inline]
    unsafe fn make_arc_guard_unchecked(self: &Arc<Self>) -> ArcMutexGuard<R, T> {
        ArcMutexGuard {
            mutex: self.clone(),
            marker: PhantomData,
        }
    }

    /// Acquires a lock through an `Arc`.
    ///
    /// This method is similar to the `lock` method; however, it requires the `Mutex` to be inside of an `Arc`
    /// and the resulting mutex guard has no lifetime requirements.
    #[cfg(feature = "arc_lock")]
    #[inline]
    #[track_caller]
    pub fn lock_arc(self: &Arc<Self>) -> ArcMutexGuard<R, T> {
        self.raw.lock();
        // SAFETY: the locking guarantee is upheld
        unsafe { self.make_arc_guard_unchecked() }
    }

    /// Attempts to acquire a lock through an `Arc`.
    ///
    /// This method is similar to the `try_lock` method; however, it requires the `Mutex` to be inside of an
    /// `Arc` and the resulting mutex guard has no lifetime requirements.
    #[cfg(feature = "arc_lock")]
    #[inline]
    #[track_caller]
    pub fn try_lock_arc(self: &Arc<Self>) -> Option<ArcMutexGuard<R, T>> {
        if self.raw.try_lock() {
            // SAFETY: locking guarantee is upheld
            Some(unsafe { self.make_arc_guard_unchecked() })
        } else {
            None
        }
    }
}

impl<R: RawMutexFair, T: ?Sized> Mutex<R, T> {
    /// Forcibly unlocks the mutex using a fair unlock protocol.
    ///
    /// This is useful when combined with `mem::forget` to hold a lock without
    /// the need to maintain a `MutexGuard` object alive, for example when
    /// dealing with FFI.
    ///
    /// # Safety
    ///
    /// This method must only be called if the current thread logically owns a
    /// `MutexGuard` but that guard has been discarded using `mem::forget`.
    /// Behavior is undefined if a mutex is unlocked when not locked.
    #[inline]
    #[track_caller]
    pub unsafe fn force_unlock_fair(&self) {
        self.raw.unlock_fair();
    }
}

impl<R: RawMutexTimed, T: ?Sized> Mutex<R, T> {
    /// Attempts to acquire this lock until a timeout is reached.
    ///
    /// If the lock could not be acquired before the timeout expired, then
    /// `None` is returned. Otherwise, an RAII guard is returned. The lock will
    /// be unlocked when the guard is dropped.
    #[inline]
    #[track_caller]
    pub fn try_lock_for(&self, timeout: R::Duration) -> Option<MutexGuard<'_, R, T>> {
        if self.raw.try_lock_for(timeout) {
            // SAFETY: The lock is held, as required.
            Some(unsafe { self.make_guard_unchecked() })
        } else {
            None
        }
    }

    /// Attempts to acquire this lock until a timeout is reached.
    ///
    /// If the lock could not be acquired before the timeout expired, then
    /// `None` is returned. Otherwise, an RAII guard is returned. The lock will
    /// be unlocked when the guard is dropped.
    #[inline]
    #[track_caller]
    pub fn try_lock_until(&self, timeout: R::Instant) -> Option<MutexGuard<'_, R, T>> {
        if self.raw.try_lock_until(timeout) {
            // SAFETY: The lock is held, as required.
            Some(unsafe { self.make_guard_unchecked() })
        } else {
            None
        }
    }

    /// Attempts to acquire this lock through an `Arc` until a timeout is reached.
    ///
    /// This method is similar to the `try_lock_for` method; however, it requires the `Mutex` to be inside of an
    /// `Arc` and the resulting mutex guard has no lifetime requirements.
    #[cfg(feature = "arc_lock")]
    #[inline]
    #[track_caller]
    pub fn try_lock_arc_for(self: &Arc<Self>, timeout: R::Duration) -> Option<ArcMutexGuard<R, T>> {
        if self.raw.try_lock_for(timeout) {
            // SAFETY: locking guarantee is upheld
            Some(unsafe { self.make_arc_guard_unchecked() })
        } else {
            None
        }
    }

    /// Attempts to acquire this lock through an `Arc` until a timeout is reached.
    ///
    /// This method is similar to the `try_lock_until` method; however, it requires the `Mutex` to be inside of
    /// an `Arc` and the resulting mutex guard has no lifetime requirements.
    #[cfg(feature = "arc_lock")]
    #[inline]
    #[track_caller]
    pub fn try_lock_arc_until(
        self: &Arc<Self>,
        timeout: R::Instant,
    ) -> Option<ArcMutexGuard<R, T>> {
        if self.raw.try_lock_until(timeout) {
            // SAFETY: locking guarantee is upheld
            Some(unsafe { self.make_arc_guard_unchecked() })
        } else {
            None
        }
    }
}

impl<R: RawMutex, T: ?Sized + Default> Default for Mutex<R, T> {
    #[inline]
    fn default() -> Mutex<R, T> {
        Mutex::new(Default::default())
    }
}

impl<R: RawMutex, T> From<T> for Mutex<R, T> {
    #[inline]
    fn from(t: T) -> Mutex<R, T> {
        Mutex::new(t)
    }
}

impl<R: RawMutex, T: ?Sized + fmt::Debug> fmt::Debug for Mutex<R, T> {
    fn fmt(&self, f: &mut fmt::Formatter<'_>) -> fmt::Result {
        match self.try_lock() {
            Some(guard) => f.debug_struct("Mutex").field("data", &&*guard).finish(),
            None => {
                struct LockedPlaceholder;
                impl fmt::Debug for LockedPlaceholder {
                    fn fmt(&self, f: &mut fmt::Formatter<'_>) -> fmt::Result {
                        f.write_str("<locked>")
                    }
                }

                f.debug_struct("Mutex")
                    .field("data", &LockedPlaceholder)
                    .finish()
            }
        }
    }
}

// Copied and modified from serde
#[cfg(feature = "serde")]
impl<R, T> Serialize for Mutex<R, T>
where
    R: RawMutex,
    T: Serialize + ?Sized,
{
    fn serialize<S>(&self, serializer: S) -> Result<S::Ok, S::Error>
    where
        S: Serializer,
    {
        self.lock().serialize(serializer)
    }
}

#[cfg(feature = "serde")]
impl<'de, R, T> Deserialize<'de> for Mutex<R, T>
where
    R: RawMutex,
    T: Deserialize<'de> + ?Sized,
{
    fn deserialize<D>(deserializer: D) -> Result<Self, D::Error>
    where
        D: Deserializer<'de>,
    {
        Deserialize::deserialize(deserializer).map(Mutex::new)
    }
}

/// An RAII implementation of a "scoped lock" of a mutex. When this structure is
/// dropped (falls out of scope), the lock will be unlocked.
///
/// The data protected by the mutex can be accessed through this guard via its
/// `Deref` and `DerefMut` implementations.
#[clippy::has_significant_drop]
#[must_use = "if unused the Mutex will immediately unlock"]
pub struct MutexGuard<'a, R: RawMutex, T: ?Sized> {
    mutex: &'a Mutex<R, T>,
    marker: PhantomData<(&'a mut T, R::GuardMarker)>,
}

unsafe impl<'a, R: RawMutex + Sync + 'a, T: ?Sized + Sync + 'a> Sync for MutexGuard<'a, R, T> {}

impl<'a, R: RawMutex + 'a, T: ?Sized + 'a> MutexGuard<'a, R, T> {
    /// Returns a reference to the original `Mutex` object.
    pub fn mutex(s: &Self) -> &'a Mutex<R, T> {
        s.mutex
    }

    /// Makes a new `MappedMutexGuard` for a component of the locked data.
    ///
    /// This operation cannot fail as the `MutexGuard` passed
    /// in already locked the mutex.
    ///
    /// This is an associated function that needs to be
    /// used as `MutexGuard::map(...)`. A method would interfere with methods of
    /// the same name on the contents of the locked data.
    #[inline]
    pub fn map<U: ?Sized, F>(s: Self, f: F) -> MappedMutexGuard<'a, R, U>
    where
        F: FnOnce(&mut T) -> &mut U,
    {
        let raw = &s.mutex.raw;
        let data = f(unsafe { &mut *s.mutex.data.get() });
        mem::forget(s);
        MappedMutexGuard {
            raw,
            data,
            marker: PhantomData,
        }
    }

    /// Attempts to make a new `MappedMutexGuard` for a component of the
    /// locked data. The original guard is returned if the closure returns `None`.
    ///
    /// This operation cannot fail as the `MutexGuard` passed
    /// in already locked the mutex.
    ///
    /// This is an associated function that needs to be
    /// used as `MutexGuard::try_map(...)`. A method would interfere with methods of
    /// the same name on the contents of the locked data.
    #[inline]
    pub fn try_map<U: ?Sized, F>(s: Self, f: F) -> Result<MappedMutexGuard<'a, R, U>, Self>
    where
        F: FnOnce(&mut T) -> Option<&mut U>,
    {
        let raw = &s.mutex.raw;
        let data = match f(unsafe { &mut *s.mutex.data.get() }) {
            Some(data) => data,
            None => return Err(s),
        };
        mem::forget(s);
        Ok(MappedMutexGuard {
            raw,
            data,
            marker: PhantomData,
        })
    }

    /// Attempts to make a new `MappedMutexGuard` for a component of the
    /// locked data. The original guard is returned alongside arbitrary user data
    /// if the closure returns `Err`.
    ///
    /// This operation cannot fail as the `MutexGuard` passed
    /// in already locked the mutex.
    ///
    /// This is an associated function that needs to be
    /// used as `MutexGuard::try_map_or_err(...)`. A method would interfere with methods of
    /// the same name on the contents of the locked data.
    #[inline]
    pub fn try_map_or_err<U: ?Sized, F, E>(
        s: Self,
        f: F,
    ) -> Result<MappedMutexGuard<'a, R, U>, (Self, E)>
    where
        F: FnOnce(&mut T) -> Result<&mut U, E>,
    {
        let raw = &s.mutex.raw;
        let data = match f(unsafe { &mut *s.mutex.data.get() }) {
            Ok(data) => data,
            Err(e) => return Err((s, e)),
        };
        mem::forget(s);
        Ok(MappedMutexGuard {
            raw,
            data,
            marker: PhantomData,
        })
    }

    /// Temporarily unlocks the mutex to execute the given function.
    ///
    /// This is safe because `&mut` guarantees that there exist no other
    /// references to the data protected by the mutex.
    #[inline]
    #[track_caller]
    pub fn unlocked<F, U>(s: &mut Self, f: F) -> U
    where
        F: FnOnce() -> U,
    {
        // Safety: A MutexGuard always holds the lock.
        unsafe {
            s.mutex.raw.unlock();
        }
        defer!(s.mutex.raw.lock());
        f()
    }

    /// Leaks the mutex guard and returns a mutable reference to the data
    /// protected by the mutex.
    ///
    /// This will leave the `Mutex` in a locked state.
    #[inline]
    pub fn leak(s: Self) -> &'a mut T {
        let r = unsafe { &mut *s.mutex.data.get() };
        mem::forget(s);
        r
    }
}

impl<'a, R: RawMutexFair + 'a, T: ?Sized + 'a> MutexGuard<'a, R, T> {
    /// Unlocks the mutex using a fair unlock protocol.
    ///
    /// By default, mutexes are unfair and allow the current thread to re-lock
    /// the mutex before another has the chance to acquire the lock, even if
    /// that thread has been blocked on the mutex for a long time. This is the
    /// default because it allows much higher throughput as it avoids forcing a
    /// context switch on every mutex unlock. This can result in one thread
    /// acquiring a mutex many more times than other threads.
    ///
    /// However in some cases it can be beneficial to ensure fairness by forcing
    /// the lock to pass on to a waiting thread if there is one. This is done by
    /// using this method instead of dropping the `MutexGuard` normally.
    #[inline]
    #[track_caller]
    pub fn unlock_fair(s: Self) {
        // Safety: A MutexGuard always holds the lock.
        unsafe {
            s.mutex.raw.unlock_fair();
        }
        mem::forget(s);
    }

    /// Temporarily unlocks the mutex to execute the given function.
    ///
    /// The mutex is unlocked using a fair unlock protocol.
    ///
    /// This is safe because `&mut` guarantees that there exist no other
    /// references to the data protected by the mutex.
    #[inline]
    #[track_caller]
    pub fn unlocked_fair<F, U>(s: &mut Self, f: F) -> U
    where
        F: FnOnce() -> U,
    {
        // Safety: A MutexGuard always holds the lock.
        unsafe {
            s.mutex.raw.unlock_fair();
        }
        defer!(s.mutex.raw.lock());
        f()
    }

    /// Temporarily yields the mutex to a waiting thread if there is one.
    ///
    /// This method is functionally equivalent to calling `unlock_fair` followed
    /// by `lock`, however it can be much more efficient in the case where there
    /// are no waiting threads.
    #[inline]
    #[track_caller]
    pub fn bump(s: &mut Self) {
        // Safety: A MutexGuard always holds the lock.
        unsafe {
            s.mutex.raw.bump();
        }
    }
}

impl<'a, R: RawMutex + 'a, T: ?Sized + 'a> Deref for MutexGuard<'a, R, T> {
    type Target = T;
    #[inline]
    fn deref(&self) -> &T {
        unsafe { &*self.mutex.data.get() }
    }
}

impl<'a, R: RawMutex + 'a, T: ?Sized + 'a> DerefMut for MutexGuard<'a, R, T> {
    #[inline]
    fn deref_mut(&mut self) -> &mut T {
        unsafe { &mut *self.mutex.data.get() }
    }
}

impl<'a, R: RawMutex + 'a, T: ?Sized + 'a> Drop for MutexGuard<'a, R, T> {
    #[inline]
    fn drop(&mut self) {
        // Safety: A MutexGuard always holds the lock.
        unsafe {
            self.mutex.raw.unlock();
        }
    }
}

impl<'a, R: RawMutex + 'a, T: fmt::Debug + ?Sized + 'a> fmt::Debug for MutexGuard<'a, R, T> {
    fn fmt(&self, f: &mut fmt::Formatter<'_>) -> fmt::Result {
        fmt::Debug::fmt(&**self, f)
    }
}

impl<'a, R: RawMutex + 'a, T: fmt::Display + ?Sized + 'a> fmt::Display for MutexGuard<'a, R, T> {
    fn fmt(&self, f: &mut fmt::Formatter<'_>) -> fmt::Result {
        (**self).fmt(f)
    }
}

#[cfg(feature = "owning_ref")]
unsafe impl<'a, R: RawMutex + 'a, T: ?Sized + 'a> StableAddress for MutexGuard<'a, R, T> {}

/// An RAII mutex guard returned by the `Arc` locking operations on `Mutex`.
///
/// This is similar to the `MutexGuard` struct, except instead of using a reference to unlock the `Mutex` it
/// uses an `Arc<Mutex>`. This has several advantages, most notably that it has an `'static` lifetime.
#[cfg(feature = "arc_lock")]
#[clippy::has_significant_drop]
#[must_use = "if unused the Mutex will immediately unlock"]
pub struct ArcMutexGuard<R: RawMutex, T: ?Sized> {
    mutex: Arc<Mutex<R, T>>,
    marker: PhantomData<*const ()>,
}

#[cfg(feature = "arc_lock")]
unsafe impl<R: RawMutex + Send + Sync, T: Send + ?Sized> Send for ArcMutexGuard<R, T> where
    R::GuardMarker: Send
{
}
#[cfg(feature = "arc_lock")]
unsafe impl<R: RawMutex + Sync, T: Sync + ?Sized> Sync for ArcMutexGuard<R, T> where
    R::GuardMarker: Sync
{
}

#[cfg(feature = "arc_lock")]
impl<R: RawMutex, T: ?Sized> ArcMutexGuard<R, T> {
    /// Returns a reference to the `Mutex` this is guarding, contained in its `Arc`.
    #[inline]
    pub fn mutex(s: &Self) -> &Arc<Mutex<R, T>> {
        &s.mutex
    }

    /// Unlocks the mutex and returns the `Arc` that was held by the [`ArcMutexGuard`].
    #[inline]
    #[track_caller]
    pub fn into_arc(s: Self) -> Arc<Mutex<R, T>> {
        // SAFETY: Skip our Drop impl and manually unlock the mutex.
        let s = ManuallyDrop::new(s);
        unsafe {
            s.mutex.raw.unlock();
            ptr::read(&s.mutex)
        }
    }

    /// Temporarily unlocks the mutex to execute the given function.
    ///
    /// This is safe because `&mut` guarantees that there exist no other
    /// references to the data protected by the mutex.
    #[inline]
    #[track_caller]
    pub fn unlocked<F, U>(s: &mut Self, f: F) -> U
    where
        F: FnOnce() -> U,
    {
        // Safety: A MutexGuard always holds the lock.
        unsafe {
            s.mutex.raw.unlock();
        }
        defer!(s.mutex.raw.lock());
        f()
    }
}

#[cfg(feature = "arc_lock")]
impl<R: RawMutexFair, T: ?Sized> ArcMutexGuard<R, T> {
    /// Unlocks the mutex using a fair unlock protocol.
    ///
    /// This is functionally identical to the `unlock_fair` method on [`MutexGuard`].
    #[inline]
    #[track_caller]
    pub fn unlock_fair(s: Self) {
        drop(Self::into_arc_fair(s));
    }

    /// Unlocks the mutex using a fair unlock protocol and returns the `Arc` that was held by the [`ArcMutexGuard`].
    #[inline]
    pub fn into_arc_fair(s: Self) -> Arc<Mutex<R, T>> {
        // SAFETY: Skip our Drop impl and manually unlock the mutex.
        let s = ManuallyDrop::new(s);
        unsafe {
            s.mutex.raw.unlock_fair();
            ptr::read(&s.mutex)
        }
    }

    /// Temporarily unlocks the mutex to execute the given function.
    ///
    /// This is functionally identical to the `unlocked_fair` method on [`MutexGuard`].
    #[inline]
    #[track_caller]
    pub fn unlocked_fair<F, U>(s: &mut Self, f: F) -> U
    where
        F: FnOnce() -> U,
    {
        // Safety: A MutexGuard always holds the lock.
        unsafe {
            s.mutex.raw.unlock_fair();
        }
        defer!(s.mutex.raw.lock());
        f()
    }

    /// Temporarily yields the mutex to a waiting thread if there is one.
    ///
    /// This is functionally identical to the `bump` method on [`MutexGuard`].
    #[inline]
    #[track_caller]
    pub fn bump(s: &mut Self) {
        // Safety: A MutexGuard always holds the lock.
        unsafe {
            s.mutex.raw.bump();
        }
    }
}

#[cfg(feature = "arc_lock")]
impl<R: RawMutex, T: ?Sized> Deref for ArcMutexGuard<R, T> {
    type Target = T;
    #[inline]
    fn deref(&self) -> &T {
        unsafe { &*self.mutex.data.get() }
    }
}

#[cfg(feature = "arc_lock")]
impl<R: RawMutex, T: ?Sized> DerefMut for ArcMutexGuard<R, T> {
    #[inline]
    fn deref_mut(&mut self) -> &mut T {
        unsafe { &mut *self.mutex.data.get() }
    }
}

#[cfg(feature = "arc_lock")]
impl<R: RawMutex, T: ?Sized> Drop for ArcMutexGuard<R, T> {
    #[inline]
    fn drop(&mut self) {
        // Safety: A MutexGuard always holds the lock.
        unsafe {
            self.mutex.raw.unlock();
        }
    }
}

/// An RAII mutex guard returned by `MutexGuard::map`, which can point to a
/// subfield of the protected data.
///
/// The main difference between `MappedMutexGuard` and `MutexGuard` is that the
/// former doesn't support temporarily unlocking and re-locking, since that
/// could introduce soundness issues if the locked object is modified by another
/// thread.
#[clippy::has_significant_drop]
#[must_use = "if unused the Mutex will immediately unlock"]
pub struct MappedMutexGuard<'a, R: RawMutex, T: ?Sized> {
    raw: &'a crate::verif::Hooked<R>,
    data: *mut T,
    marker: PhantomData<&'a mut T>,
}

unsafe impl<'a, R: RawMutex + Sync + 'a, T: ?Sized + Sync + 'a> Sync
    for MappedMutexGuard<'a, R, T>
{
}
unsafe impl<'a, R: RawMutex + 'a, T: ?Sized + Send + 'a> Send for MappedMutexGuard<'a, R, T> where
    R::GuardMarker: Send
{
}

impl<'a, R: RawMutex + 'a, T: ?Sized + 'a> MappedMutexGuard<'a, R, T> {
    /// Makes a new `MappedMutexGuard` for a component of the locked data.
    ///
    /// This operation cannot fail as the `MappedMutexGuard` passed
    /// in already locked the mutex.
    ///
    /// This is an associated function that needs to be
    /// used as `MappedMutexGuard::map(...)`. A method would interfere with methods of
    /// the same name on the contents of the locked data.
    #[inline]
    pub fn map<U: ?Sized, F>(s: Self, f: F) -> MappedMutexGuard<'a, R, U>
    where
        F: FnOnce(&mut T) -> &mut U,
    {
        let raw = s.raw;
        let data = f(unsafe { &mut *s.data });
        mem::forget(s);
        MappedMutexGuard {
            raw,
            data,
            marker: PhantomData,
        }
    }

    /// Attempts to make a new `MappedMutexGuard` for a component of the
    /// locked data. The original guard is returned if the closure returns `None`.
    ///
    /// This operation cannot fail as the `MappedMutexGuard` passed
    /// in already locked the mutex.
    ///
    /// This is an associated function that needs to be
    /// used as `MappedMutexGuard::try_map(...)`. A method would interfere with methods of
    /// the same name on the contents of the locked data.
    #[inline]
    pub fn try_map<U: ?Sized, F>(s: Self, f: F) -> Result<MappedMutexGuard<'a, R, U>, Self>
    where
        F: FnOnce(&mut T) -> Option<&mut U>,
    {
        let raw = s.raw;
        let data = match f(unsafe { &mut *s.data }) {
            Some(data) => data,
            None => return Err(s),
        };
        mem::forget(s);
        Ok(MappedMutexGuard {
            raw,
            data,
            marker: PhantomData,
        })
    }

    /// Attempts to make a new `MappedMutexGuard` for a component of the
    /// locked data. The original guard is returned alongside arbitrary user data
    /// if the closure returns `Err`.
    ///
    /// This operation cannot fail as the `MappedMutexGuard` passed
    /// in already locked the mutex.
    ///
    /// This is an associated function that needs to be
    /// used as `MappedMutexGuard::try_map_or_err(...)`. A method would interfere with methods of
    /// the same name on the contents of the locked data.
    #[inline]
    pub fn try_map_or_err<U: ?Sized, F, E>(
        s: Self,
        f: F,
    ) -> Result<MappedMutexGuard<'a, R, U>, (Self, E)>
    where
        F: FnOnce(&mut T) -> Result<&mut U, E>,
    {
        let raw = s.raw;
        let data = match f(unsafe { &mut *s.data }) {
            Ok(data) => data,
            Err(e) => return Err((s, e)),
        };
        mem::forget(s);
        Ok(MappedMutexGuard {
            raw,
            data,
            marker: PhantomData,
        })
    }
}

impl<'a, R: RawMutexFair + 'a, T: ?Sized + 'a> MappedMutexGuard<'a, R, T> {
    /// Unlocks the mutex using a fair unlock protocol.
    ///
    /// By default, mutexes are unfair and allow the current thread to re-lock
    /// the mutex before another has the chance to acquire the lock, even if
    /// that thread has been blocked on the mutex for a long time. This is the
    /// default because it allows much higher throughput as it avoids forcing a
    /// context switch on every mutex unlock. This can result in one thread
    /// acquiring a mutex many more times than other threads.
    ///
    /// However in some cases it can be beneficial to ensure fairness by forcing
    /// the lock to pass on to a waiting thread if there is one. This is done by
    /// using this method instead of dropping the `MutexGuard` normally.
    #[inline]
    #[track_caller]
    pub fn unlock_fair(s: Self) {
        // Safety: A MutexGuard always holds the lock.
        unsafe {
            s.raw.unlock_fair();
        }
        mem::forget(s);
    }
}

impl<'a, R: RawMutex + 'a, T: ?Sized + 'a> Deref for MappedMutexGuard<'a, R, T> {
    type Target = T;
    #[inline]
    fn deref(&self) -> &T {
        unsafe { &*self.data }
    }
}

impl<'a, R: RawMutex + 'a, T: ?Sized + 'a> DerefMut for MappedMutexGuard<'a, R, T> {
    #[inline]
    fn deref_mut(&mut self) -> &mut T {
        unsafe { &mut *self.data }
    }
}

impl<'a, R: RawMutex + 'a, T: ?Sized + 'a> Drop for MappedMutexGuard<'a, R, T> {
    #[inline]
    fn drop(&mut self) {
        // Safety: A MappedMutexGuard always holds the lock.
        unsafe {
            self.raw.unlock();
        }
    }
}

impl<'a, R: RawMutex + 'a, T: fmt::Debug + ?Sized + 'a> fmt::Debug for MappedMutexGuard<'a, R, T> {
    fn fmt(&self, f: &mut fmt::Formatter<'_>) -> fmt::Result {
        fmt::Debug::fmt(&**self, f)
    }
}

impl<'a, R: RawMutex + 'a, T: fmt::Display + ?Sized + 'a> fmt::Display
    for MappedMutexGuard<'a, R, T>
{
    fn fmt(&self, f: &mut fmt::Formatter<'_>) -> fmt::Result {
        (**self).fmt(f)
    }
}

#[cfg(feature = "owning_ref")]
unsafe impl<'a, R: RawMutex + 'a, T: ?Sized + 'a> StableAddress for MappedMutexGuard<'a, R, T> {}
