// Copyright 2018 Amanieu d'Antras
//
// Licensed under the Apache License, Version 2.0, <LICENSE-APACHE or
// http://apache.org/licenses/LICENSE-2.0> or the MIT license <LICENSE-MIT or
// http://opensource.org/licenses/MIT>, at your option. This file may not be
// copied, modified, or distributed except according to those terms.

//! This library provides type-safe and fully-featured [`Mutex`] and [`RwLock`]
//! types which wrap a simple raw mutex or rwlock type. This has several
//! benefits: not only does it eliminate a large portion of the work in
//! implementing custom lock types, it also allows users to write code which is
//! generic with regards to different lock implementations.
//!
//! Basic usage of this crate is very straightforward:
//!
//! 1. Create a raw lock type. This should only contain the lock state, not any
//!    data protected by the lock.
//! 2. Implement the `RawMutex` trait for your custom lock type.
//! 3. Export your mutex as a type alias for `lock_api::Mutex`, and
//!    your mutex guard as a type alias for `lock_api::MutexGuard`.
//!    See the [example](#example) below for details.
//!
//! This process is similar for [`RwLock`]s, except that two guards need to be
//! exported instead of one. (Or 3 guards if your type supports upgradable read
//! locks, see [extension traits](#extension-traits) below for details)
//!
//! # Example
//!
//! ```
//! use lock_api::{RawMutex, Mutex, GuardSend};
//! use std::sync::atomic::{AtomicBool, Ordering};
//!
//! // 1. Define our raw lock type
//! pub struct RawSpinlock(AtomicBool);
//!
//! // 2. Implement RawMutex for this type
//! unsafe impl RawMutex for RawSpinlock {
//!     const INIT: RawSpinlock = RawSpinlock(AtomicBool::new(false));
//!
//!     // A spinlock guard can be sent to another thread and unlocked there
//!     type GuardMarker = GuardSend;
//!
//!     fn lock(&self) {
//!         // Note: This isn't the best way of implementing a spinlock, but it
//!         // suffices for the sake of this example.
//!         while !self.try_lock() {}
//!     }
//!
//!     fn try_lock(&self) -> bool {
//!         self.0
//!             .compare_exchange(false, true, Ordering::Acquire, Ordering::Relaxed)
//!             .is_ok()
//!     }
//!
//!     unsafe fn unlock(&self) {
//!         self.0.store(false, Ordering::Release);
//!     }
//! }
//!
//! // 3. Export the wrappers. This are the types that your users will actually use.
//! pub type Spinlock<T> = lock_api::Mutex<RawSpinlock, T>;
//! pub type SpinlockGuard<'a, T> = lock_api::MutexGuard<'a, RawSpinlock, T>;
//! ```
//!
//! # Extension traits
//!
//! In addition to basic locking & unlocking functionality, you have the option
//! of exposing additional functionality in your lock types by implementing
//! additional traits for it. Examples of extension features include:
//!
//! - Fair unlocking (`RawMutexFair`, `RawRwLockFair`)
//! - Lock timeouts (`RawMutexTimed`, `RawRwLockTimed`)
//! - Downgradable write locks (`RawRwLockDowngradable`)
//! - Recursive read locks (`RawRwLockRecursive`)
//! - Upgradable read locks (`RawRwLockUpgrade`)
//!
//! The `Mutex` and `RwLock` wrappers will automatically expose this additional
//! functionality if the raw lock type implements these extension traits.
//!
//! # Cargo features
//!
//! This crate supports three cargo features:
//!
//! - `owning_ref`: Allows your lock types to be used with the `owning_ref` crate.
//! - `arc_lock`: Enables locking from an `Arc`. This enables types such as `ArcMutexGuard`. Note that this
//!   requires the `alloc` crate to be present.

#![no_std]
#![cfg_attr(docsrs, feature(doc_cfg))]
#![warn(missing_docs)]
#![warn(rust_2018_idioms)]

#[macro_use]
extern crate scopeguard;

#[cfg(feature = "arc_lock")]
extern crate alloc;

/// Marker type which indicates that the Guard type for a lock is `Send`.
pub struct GuardSend(());

/// Marker type which indicates that the Guard type for a lock is not `Send`.
#[allow(dead_code)]
pub struct GuardNoSend(*mut ());

unsafe impl Sync for GuardNoSend {}

pub mod verif;
mod mutex;
pub use crate::mutex::*;

#[cfg(feature = "atomic_usize")]
mod remutex;
#[cfg(feature = "atomic_usize")]
pub use crate::remutex::*;

mod rwlock;
pub use crate::rwlock::*;
