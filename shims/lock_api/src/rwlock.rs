// Copyright 2016 Amanieu d'Antras
//
// Licensed under the Apache License, Version 2.0, <LICENSE-APACHE or
// http://apache.org/licenses/LICENSE-2.0> or the MIT license <LICENSE-MIT or
// http://opensource.org/licenses/MIT>, at your option. This file may not be
// copied, modified, or distributed except according to those terms.

use core::cell::UnsafeCell;
use core::fmt;
use core::marker::PhantomData;
use core::mem;
use core::ops::{Deref, DerefMut};

#[cfg(feature = "arc_lock")]
use alloc::sync::Arc;
#[cfg(feature = "arc_lock")]
use core::mem::ManuallyDrop;
#[cfg(feature = "arc_lock")]
use core::ptr;

#[cfg(feature = "owning_ref")]
use owning_ref::StableAddress;

#[cfg(feature = "serde")]
use serde::{Deserialize, Deserializer, Serialize, Serializer};

/// Basic operations for a reader-writer lock.
///
/// Types implementing this trait can be used by `RwLock` to form a safe and
/// fully-functioning `RwLock` type.
///
/// # Safety
///
/// Implementations of this trait must ensure that the `RwLock` is actually
/// exclusive: an exclusive lock can't be acquired while an exclusive or shared
/// lock exists, and a shared lock can't be acquire while an exclusive lock
/// exists.
pub unsafe trait RawRwLock {
    /// Initial value for an unlocked `RwLock`.
    // A “non-constant” const item is a legacy way to supply an initialized value to downstream
    // static items. Can hopefully be replaced with `const fn new() -> Self` at some point.
    #[allow(clippy::declare_interior_mutable_const)]
    const INIT: Self;

    /// Marker type which determines whether a lock guard should be `Send`. Use
    /// one of the `GuardSend` or `GuardNoSend` helper types here.
    type GuardMarker;

    /// Acquires a shared lock, blocking the current thread until it is able to do so.
    fn lock_shared(&self);

    /// Attempts to acquire a shared lock without blocking.
    fn try_lock_shared(&self) -> bool;

    /// Releases a shared lock.
    ///
    /// # Safety
    ///
    /// This method may only be called if a shared lock is held in the current context.
    unsafe fn unlock_shared(&self);

    /// Acquires an exclusive lock, blocking the current thread until it is able to do so.
    fn lock_exclusive(&self);

    /// Attempts to acquire an exclusive lock without blocking.
    fn try_lock_exclusive(&self) -> bool;

    /// Releases an exclusive lock.
    ///
    /// # Safety
    ///
    /// This method may only be called if an exclusive lock is held in the current context.
    unsafe fn unlock_exclusive(&self);

    /// Checks if this `RwLock` is currently locked in any way.
    #[inline]
    fn is_locked(&self) -> bool {
        let acquired_lock = self.try_lock_exclusive();
        if acquired_lock {
            // Safety: A lock was successfully acquired above.
            unsafe {
                self.unlock_exclusive();
            }
        }
        !acquired_lock
    }

    /// Check if this `RwLock` is currently exclusively locked.
    fn is_locked_exclusive(&self) -> bool {
        let acquired_lock = self.try_lock_shared();
        if acquired_lock {
            // Safety: A shared lock was successfully acquired above.
            unsafe {
                self.unlock_shared();
            }
        }
        !acquired_lock
    }
}

/// Additional methods for `RwLock`s which support fair unlocking.
///
/// Fair unlocking means that a lock is handed directly over to the next waiting
/// thread if there is one, without giving other threads the opportunity to
/// "steal" the lock in the meantime. This is typically slower than unfair
/// unlocking, but may be necessary in certain circumstances.
pub unsafe trait RawRwLockFair: RawRwLock {
    /// Releases a shared lock using a fair unlock protocol.
    ///
    /// # Safety
    ///
    /// This method may only be called if a shared lock is held in the current context.
    unsafe fn unlock_shared_fair(&self);

    /// Releases an exclusive lock using a fair unlock protocol.
    ///
    /// # Safety
    ///
    /// This method may only be called if an exclusive lock is held in the current context.
    unsafe fn unlock_exclusive_fair(&self);

    /// Temporarily yields a shared lock to a waiting thread if there is one.
    ///
    /// This method is functionally equivalent to calling `unlock_shared_fair` followed
    /// by `lock_shared`, however it can be much more efficient in the case where there
    /// are no waiting threads.
    ///
    /// # Safety
    ///
    /// This method may only be called if a shared lock is held in the current context.
    unsafe fn bump_shared(&self) {
        self.unlock_shared_fair();
        self.lock_shared();
    }

    /// Temporarily yields an exclusive lock to a waiting thread if there is one.
    ///
    /// This method is functionally equivalent to calling `unlock_exclusive_fair` followed
    /// by `lock_exclusive`, however it can be much more efficient in the case where there
    /// are no waiting threads.
    ///
    /// # Safety
    ///
    /// This method may only be called if an exclusive lock is held in the current context.
    unsafe fn bump_exclusive(&self) {
        self.unlock_exclusive_fair();
        self.lock_exclusive();
    }
}

/// Additional methods for `RwLock`s which support atomically downgrading an
/// exclusive lock to a shared lock.
pub unsafe trait RawRwLockDowngrade: RawRwLock {
    /// Atomically downgrades an exclusive lock into a shared lock without
    /// allowing any thread to take an exclusive lock in the meantime.
    ///
    /// # Safety
    ///
    /// This method may only be called if an exclusive lock is held in the current context.
    unsafe fn downgrade(&self);
}

/// Additional methods for `RwLock`s which support locking with timeouts.
///
/// The `Duration` and `Instant` types are specified as associated types so that
/// this trait is usable even in `no_std` environments.
pub unsafe trait RawRwLockTimed: RawRwLock {
    /// Duration type used for `try_lock_for`.
    type Duration;

    /// Instant type used for `try_lock_until`.
    type Instant;

    /// Attempts to acquire a shared lock until a timeout is reached.
    fn try_lock_shared_for(&self, timeout: Self::Duration) -> bool;

    /// Attempts to acquire a shared lock until a timeout is reached.
    fn try_lock_shared_until(&self, timeout: Self::Instant) -> bool;

    /// Attempts to acquire an exclusive lock until a timeout is reached.
    fn try_lock_exclusive_for(&self, timeout: Self::Duration) -> bool;

    /// Attempts to acquire an exclusive lock until a timeout is reached.
    fn try_lock_exclusive_until(&self, timeout: Self::Instant) -> bool;
}

/// Additional methods for `RwLock`s which support recursive read locks.
///
/// These are guaranteed to succeed without blocking if
/// another read lock is held at the time of the call. This allows a thread
/// to recursively lock a `RwLock`. However using this method can cause
/// writers to starve since readers no longer block if a writer is waiting
/// for the lock.
pub unsafe trait RawRwLockRecursive: RawRwLock {
    /// Acquires a shared lock without deadlocking in case of a recursive lock.
    fn lock_shared_recursive(&self);

    /// Attempts to acquire a shared lock without deadlocking in case of a recursive lock.
    fn try_lock_shared_recursive(&self) -> bool;
}

/// Additional methods for `RwLock`s which support recursive read locks and timeouts.
pub unsafe trait RawRwLockRecursiveTimed: RawRwLockRecursive + RawRwLockTimed {
    /// Attempts to acquire a shared lock until a timeout is reached, without
    /// deadlocking in case of a recursive lock.
    fn try_lock_shared_recursive_for(&self, timeout: Self::Duration) -> bool;

    /// Attempts to acquire a shared lock until a timeout is reached, without
    /// deadlocking in case of a recursive lock.
    fn try_lock_shared_recursive_until(&self, timeout: Self::Instant) -> bool;
}

/// Additional methods for `RwLock`s which support atomically upgrading a shared
/// lock to an exclusive lock.
///
/// This requires acquiring a special "upgradable read lock" instead of a
/// normal shared lock. There may only be one upgradable lock at any time,
/// otherwise deadlocks could occur when upgrading.
pub unsafe trait RawRwLockUpgrade: RawRwLock {
    /// Acquires an upgradable lock, blocking the current thread until it is able to do so.
    fn lock_upgradable(&self);

    /// Attempts to acquire an upgradable lock without blocking.
    fn try_lock_upgradable(&self) -> bool;

    /// Releases an upgradable lock.
    ///
    /// # Safety
    ///
    /// This method may only be called if an upgradable lock is held in the current context.
    unsafe fn unlock_upgradable(&self);

    /// Upgrades an upgradable lock to an exclusive lock.
    ///
    /// # Safety
    ///
    /// This method may only be called if an upgradable lock is held in the current context.
    unsafe fn upgrade(&self);

    /// Attempts to upgrade an upgradable lock to an exclusive lock without
    /// blocking.
    ///
    /// # Safety
    ///
    /// This method may only be called if an upgradable lock is held in the current context.
    unsafe fn try_upgrade(&self) -> bool;
}

/// Additional methods for `RwLock`s which support upgradable locks and fair
/// unlocking.
pub unsafe trait RawRwLockUpgradeFair: RawRwLockUpgrade + RawRwLockFair {
    /// Releases an upgradable lock using a fair unlock protocol.
    ///
    /// # Safety
    ///
    /// This method may only be called if an upgradable lock is held in the current context.
    unsafe fn unlock_upgradable_fair(&self);

    /// Temporarily yields an upgradable lock to a waiting thread if there is one.
    ///
    /// This method is functionally equivalent to calling `unlock_upgradable_fair` followed
    /// by `lock_upgradable`, however it can be much more efficient in the case where there
    /// are no waiting threads.
    ///
    /// # Safety
    ///
    /// This method may only be called if an upgradable lock is held in the current context.
    unsafe fn bump_upgradable(&self) {
        self.unlock_upgradable_fair();
        self.lock_upgradable();
    }
}

/// Additional methods for `RwLock`s which support upgradable locks and lock
/// downgrading.
pub unsafe trait RawRwLockUpgradeDowngrade: RawRwLockUpgrade + RawRwLockDowngrade {
    /// Downgrades an upgradable lock to a shared lock.
    ///
    /// # Safety
    ///
    /// This method may only be called if an upgradable lock is held in the current context.
    unsafe fn downgrade_upgradable(&self);

    /// Downgrades an exclusive lock to an upgradable lock.
    ///
    /// # Safety
    ///
    /// This method may only be called if an exclusive lock is held in the current context.
    unsafe fn downgrade_to_upgradable(&self);
}

/// Additional methods for `RwLock`s which support upgradable locks and locking
/// with timeouts.
pub unsafe trait RawRwLockUpgradeTimed: RawRwLockUpgrade + RawRwLockTimed {
    /// Attempts to acquire an upgradable lock until a timeout is reached.
    fn try_lock_upgradable_for(&self, timeout: Self::Duration) -> bool;

    /// Attempts to acquire an upgradable lock until a timeout is reached.
    fn try_lock_upgradable_until(&self, timeout: Self::Instant) -> bool;

    /// Attempts to upgrade an upgradable lock to an exclusive lock until a
    /// timeout is reached.
    ///
    /// # Safety
    ///
    /// This method may only be called if an upgradable lock is held in the current context.
    unsafe fn try_upgrade_for(&self, timeout: Self::Duration) -> bool;

    /// Attempts to upgrade an upgradable lock to an exclusive lock until a
    /// timeout is reached.
    ///
    /// # Safety
    ///
    /// This method may only be called if an upgradable lock is held in the current context.
    unsafe fn try_upgrade_until(&self, timeout: Self::Instant) -> bool;
}

/// A reader-writer lock
///
/// This type of lock allows a number of readers or at most one writer at any
/// point in time. The write portion of this lock typically allows modification
/// of the underlying data (exclusive access) and the read portion of this lock
/// typically allows for read-only access (shared access).
///
/// The type parameter `T` represents the data that this lock protects. It is
/// required that `T` satisfies `Send` to be shared across threads and `Sync` to
/// allow concurrent access through readers. The RAII guards returned from the
/// locking methods implement `Deref` (and `DerefMut` for the `write` methods)
/// to allow access to the contained of the lock.
pub struct RwLock<R, T: ?Sized> {
    raw: crate::verif::Hooked<R>,
    data: UnsafeCell<T>,
}

// Copied and modified from serde
#[cfg(feature = "serde")]
impl<R, T> Serialize for RwLock<R, T>
where
    R: RawRwLock,
    T: Serialize + ?Sized,
{
    fn serialize<S>(&self, serializer: S) -> Result<S::Ok, S::Error>
    where
        S: Serializer,
    {
        self.read().serialize(serializer)
    }
}

#[cfg(feature = "serde")]
impl<'de, R, T> Deserialize<'de> for RwLock<R, T>
where
    R: RawRwLock,
    T: Deserialize<'de> + ?Sized,
{
    fn deserialize<D>(deserializer: D) -> Result<Self, D::Error>
    where
        D: Deserializer<'de>,
    {
        Deserialize::deserialize(deserializer).map(RwLock::new)
    }
}

unsafe impl<R: RawRwLock + Send, T: ?Sized + Send> Send for RwLock<R, T> {}
unsafe impl<R: RawRwLock + Sync, T: ?Sized + Send + Sync> Sync for RwLock<R, T> {}

impl<R: RawRwLock, T> RwLock<R, T> {
    /// Creates a new instance of an `RwLock<T>` which is unlocked.
    #[inline]
    pub const fn new(val: T) -> RwLock<R, T> {
        RwLock {
            data: UnsafeCell::new(val),
            raw: crate::verif::Hooked::new(R::INIT),
        }
    }

    /// Consumes this `RwLock`, returning the underlying data.
    #[inline]
    #[allow(unused_unsafe)]
    pub fn into_inner(self) -> T {
        unsafe { self.data.into_inner() }
    }
}

impl<R, T> RwLock<R, T> {
    /// Creates a new new instance of an `RwLock<T>` based on a pre-existing
    /// `RawRwLock<T>`.
    #[inline]
    pub const fn from_raw(raw_rwlock: R, val: T) -> RwLock<R, T> {
        RwLock {
            data: UnsafeCell::new(val),
            raw: crate::verif::Hooked::new(raw_rwlock),
        }
    }

    /// Creates a new new instance of an `RwLock<T>` based on a pre-existing
    /// `RawRwLock<T>`.
    ///
    /// This allows creating a `RwLock<T>` in a constant context on stable
    /// Rust.
    ///
    /// This method is a legacy alias for [`from_raw`](Self::from_raw).
    #[inline]
    pub const fn const_new(raw_rwlock: R, val: T) -> RwLock<R, T> {
        Self::from_raw(raw_rwlock, val)
    }
}

impl<R: RawRwLock, T: ?Sized> RwLock<R, T> {
    /// Creates a new `RwLockReadGuard` without checking if the lock is held.
    ///
    /// # Safety
    ///
    /// This method must only be called if the thread logically holds a read lock.
    ///
    /// This function does not increment the read count of the lock. Calling this function when a
    /// guard has already been produced is undefined behaviour unless the guard was forgotten
    /// with `mem::forget`.
    #[inline]
    pub unsafe fn make_read_guard_unchecked(&self) -> RwLockReadGuard<'_, R, T> {
        RwLockReadGuard {
            rwlock: self,
            marker: PhantomData,
        }
    }

    /// Creates a new `RwLockReadGuard` without checking if the lock is held.
    ///
    /// # Safety
    ///
    /// This method must only be called if the thread logically holds a write lock.
    ///
    /// Calling this function when a guard has already been produced is undefined behaviour unless
    /// the guard was forgotten with `mem::forget`.
    #[inline]
    pub unsafe fn make_write_guard_unchecked(&self) -> RwLockWriteGuard<'_, R, T> {
        RwLockWriteGuard {
            rwlock: self,
            marker: PhantomData,
        }
    }

    /// Locks this `RwLock` with shared read access, blocking the current thread
    /// until it can be acquired.
    ///
    /// The calling thread will be blocked until there are no more writers which
    /// hold the lock. There may be other readers currently inside the lock when
    /// this method returns.
    ///
    /// Note that attempts to recursively acquire a read lock on a `RwLock` when
    /// the current thread already holds one may result in a deadlock.
    ///
    /// Returns an RAII guard which will release this thread's shared access
    /// once it is dropped.
    #[inline]
    #[track_caller]
    pub fn read(&self) -> RwLockReadGuard<'_, R, T> {
        self.raw.lock_shared();
        // SAFETY: The lock is held, as required.
        unsafe { self.make_read_guard_unchecked() }
    }

    /// Attempts to acquire this `RwLock` with shared read access.
    ///
    /// If the access could not be granted at this time, then `None` is returned.
    /// Otherwise, an RAII guard is returned which will release the shared access
    /// when it is dropped.
    ///
    /// This function does not block.
    #[inline]
    #[track_caller]
    pub fn try_read(&self) -> Option<RwLockReadGuard<'_, R, T>> {
        if self.raw.try_lock_shared() {
            // SAFETY: The lock is held, as required.
            Some(unsafe { self.make_read_guard_unchecked() })
        } else {
            None
        }
    }

    /// Locks this `RwLock` with exclusive write access, blocking the current
    /// thread until it can be acquired.
    ///
    /// This function will not return while other writers or other readers
    /// currently have access to the lock.
    ///
    /// Returns an RAII guard which will drop the write access of this `RwLock`
    /// when dropped.
    #[inline]
    #[track_caller]
    pub fn write(&self) -> RwLockWriteGuard<'_, R, T> {
        self.raw.lock_exclusive();
        // SAFETY: The lock is held, as required.
        unsafe { self.make_write_guard_unchecked() }
    }

    /// Attempts to lock this `RwLock` with exclusive write access.
    ///
    /// If the lock could not be acquired at this time, then `None` is returned.
    /// Otherwise, an RAII guard is returned which will release the lock when
    /// it is dropped.
    ///
    /// This function does not block.
    #[inline]
    #[track_caller]
    pub fn try_write(&self) -> Option<RwLockWriteGuard<'_, R, T>> {
        if self.raw.try_lock_exclusive() {
            // SAFETY: The lock is held, as required.
            Some(unsafe { self.make_write_guard_unchecked() })
        } else {
            None
        }
    }

    /// Returns a mutable reference to the underlying data.
    ///
    /// Since this call borrows the `RwLock` mutably, no actual locking needs to
    /// take place---the mutable borrow statically guarantees no locks exist.
    #[inline]
    pub fn get_mut(&mut self) -> &mut T {
        unsafe { &mut *self.data.get() }
    }

    /// Checks whether this `RwLock` is currently locked in any way.
    #[inline]
    #[track_caller]
    pub fn is_locked(&self) -> bool {
        self.raw.is_locked()
    }

    /// Check if this `RwLock` is currently exclusively locked.
    #[inline]
    #[track_caller]
    pub fn is_locked_exclusive(&self) -> bool {
        self.raw.is_locked_exclusive()
    }

    /// Forcibly unlocks a read lock.
    ///
    /// This is useful when combined with `mem::forget` to hold a lock without
    /// the need to maintain a `RwLockReadGuard` object alive, for example when
    /// dealing with FFI.
    ///
    /// # Safety
    ///
    /// This method must only be called if the current thread logically owns a
    /// `RwLockReadGuard` but that guard has be discarded using `mem::forget`.
    /// Behavior is undefined if a rwlock is read-unlocked when not read-locked.
    #[inline]
    #[track_caller]
    pub unsafe fn force_unlock_read(&self) {
        self.raw.unlock_shared();
    }

    /// Forcibly unlocks a write lock.
    ///
    /// This is useful when combined with `mem::forget` to hold a lock without
    /// the need to maintain a `RwLockWriteGuard` object alive, for example when
    /// dealing with FFI.
    ///
    /// # Safety
    ///
    /// This method must only be called if the current thread logically owns a
    /// `RwLockWriteGuard` but that guard has be discarded using `mem::forget`.
    /// Behavior is undefined if a rwlock is write-unlocked when not write-locked.
    #[inline]
    #[track_caller]
    pub unsafe fn force_unlock_write(&self) {
        self.raw.unlock_exclusive();
    }

    /// Returns the underlying raw reader-writer lock object.
    ///
    /// Note that you will most likely need to import the `RawRwLock` trait from
    /// `lock_api` to be able to call functions on the raw
    /// reader-writer lock.
    ///
    /// # Safety
    ///
    /// This method is unsafe because it allows unlocking a mutex while
    /// still holding a reference to a lock guard.
    pub unsafe fn raw(&self) -> &R {
        &self.raw.0
    }

    /// Returns a raw pointer to the underlying data.
    ///
    /// This is useful when combined with `mem::forget` to hold a lock without
    /// the need to maintain a `RwLockReadGuard` or `RwLockWriteGuard` object
    /// alive, for example when dealing with FFI.
    ///
    /// # Safety
    ///
    /// You must ensure that there are no data races when dereferencing the
    /// returned pointer, for example if the current thread logically owns a
    /// `RwLockReadGuard` or `RwLockWriteGuard` but that guard has been discarded
    /// using `mem::forget`.
    #[inline]
    pub fn data_ptr(&self) -> *mut T {
        self.data.get()
    }

    /// Creates a new `RwLockReadGuard` without checking if the lock is held.
    ///
    /// # Safety
    ///
    /// This method must only be called if the thread logically holds a read lock.
    ///
    /// This function does not increment the read count of the lock. Calling this function when a
    /// guard has already been produced is undefined behaviour unless the guard was forgotten
    /// with `mem::forget`.`
    #[cfg(feature = "arc_lock")]
    #[inline]
    pub unsafe fn make_arc_read_guard_unchecked(self: &Arc<Self>) -> ArcRwLockReadGuard<R, T> {
        ArcRwLockReadGuard {
            rwlock: self.clone(),
            marker: PhantomData,
        }
    }

    /// Creates a new `RwLockWriteGuard` without checking if the lock is held.
    ///
    /// # Safety
    ///
    /// This method must only be called if the thread logically holds a write lock.
    ///
    /// Calling this function when a guard has already been produced is undefined behaviour unless
    /// the guard was forgotten with `mem::forget`.
    #[cfg(feature = "arc_lock")]
    #[inline]
    pub unsafe fn make_arc_write_guard_unchecked(self: &Arc<Self>) -> ArcRwLockWriteGuard<R, T> {
        ArcRwLockWriteGuard {
            rwlock: self.clone(),
            marker: PhantomData,
        }
    }

    /// Locks this `RwLock` with read access, through an `Arc`.
    ///
    /// This method is similar to the `read` method; however, it requires the `RwLock` to be inside of an `Arc`
    /// and the resulting read guard has no lifetime requirements.
    #[cfg(feature = "arc_lock")]
    #[inline]
    #[track_caller]
    pub fn read_arc(self: &Arc<Self>) -> ArcRwLockReadGuard<R, T> {
        self.raw.lock_shared();
        // SAFETY: locking guarantee is upheld
        unsafe { self.make_arc_read_guard_unchecked() }
    }

    /// Attempts to lock this `RwLock` with read access, through an `Arc`.
    ///
    /// This method is similar to the `try_read` method; however, it requires the `RwLock` to be inside of an
    /// `Arc` and the resulting read guard has no lifetime requirements.
    #[cfg(feature = "arc_lock")]
    #[inline]
    #[track_caller]
    pub fn try_read_arc(self: &Arc<Self>) -> Option<ArcRwLockReadGuard<R, T>> {
        if self.raw.try_lock_shared() {
            // SAFETY: locking guarantee is upheld
            Some(unsafe { self.make_arc_read_guard_unchecked() })
        } else {
            None
        }
    }

    /// Locks this `RwLock` with write access, through an `Arc`.
    ///
    /// This method is similar to the `write` method; however, it requires the `RwLock` to be inside of an `Arc`
    /// and the resulting write guard has no lifetime requirements.
    #[cfg(feature = "arc_lock")]
    #[inline]
    #[track_caller]
    pub fn write_arc(self: &Arc<Self>) -> ArcRwLockWriteGuard<R, T> {
        self.raw.lock_exclusive();
        // SAFETY: locking guarantee is upheld
        unsafe { self.make_arc_write_guard_unchecked() }
    }

    /// Attempts to lock this `RwLock` with writ access, through an `Arc`.
    ///
    /// This method is similar to the `try_write` method; however, it requires the `RwLock` to be inside of an
    /// `Arc` and the resulting write guard has no lifetime requirements.
    #[cfg(feature = "arc_lock")]
    #[inline]
    #[track_caller]
    pub fn try_write_arc(self: &Arc<Self>) -> Option<ArcRwLockWriteGuard<R, T>> {
        if self.raw.try_lock_exclusive() {
            // SAFETY: locking guarantee is upheld
            Some(unsafe { self.make_arc_write_guard_unchecked() })
        } else {
            None
        }
    }
}

impl<R: RawRwLockFair, T: ?Sized> RwLock<R, T> {
    /// Forcibly unlocks a read lock using a fair unlock protocol.
    ///
    /// This is useful when combined with `mem::forget` to hold a lock without
    /// the need to maintain a `RwLockReadGuard` object alive, for example when
    /// dealing with FFI.
    ///
    /// # Safety
    ///
    /// This method must only be called if the current thread logically owns a
    /// `RwLockReadGuard` but that guard has be discarded using `mem::forget`.
    /// Behavior is undefined if a rwlock is read-unlocked when not read-locked.
    #[inline]
    #[track_caller]
    pub unsafe fn force_unlock_read_fair(&self) {
        self.raw.unlock_shared_fair();
    }

    /// Forcibly unlocks a write lock using a fair unlock protocol.
    ///
    /// This is useful when combined with `mem::forget` to hold a lock without
    /// the need to maintain a `RwLockWriteGuard` object alive, for example when
    /// dealing with FFI.
    ///
    /// # Safety
    ///
    /// This method must only be called if the current thread logically owns a
    /// `RwLockWriteGuard` but that guard has be discarded using `mem::forget`.
    /// Behavior is undefined if a rwlock is write-unlocked when not write-locked.
    #[inline]
    #[track_caller]
    pub unsafe fn force_unlock_write_fair(&self) {
        self.raw.unlock_exclusive_fair();
    }
}

impl<R: RawRwLockTimed, T: ?Sized> RwLock<R, T> {
    /// Attempts to acquire this `RwLock` with shared read access until a timeout
    /// is reached.
    ///
    /// If the access could not be granted before the timeout expires, then
    /// `None` is returned. Otherwise, an RAII guard is returned which will
    /// release the shared access when it is dropped.
    #[inline]
    #[track_caller]
    pub fn try_read_for(&self, timeout: R::Duration) -> Option<RwLockReadGuard<'_, R, T>> {
        if self.raw.try_lock_shared_for(timeout) {
            // SAFETY: The lock is held, as required.
            Some(unsafe { self.make_read_guard_unchecked() })
        } else {
            None
        }
    }

    /// Attempts to acquire this `RwLock` with shared read access until a timeout
    /// is reached.
    ///
    /// If the access could not be granted before the timeout expires, then
    /// `None` is returned. Otherwise, an RAII guard is returned which will
    /// release the shared access when it is dropped.
    #[inline]
    #[track_caller]
    pub fn try_read_until(&self, timeout: R::Instant) -> Option<RwLockReadGuard<'_, R, T>> {
        if self.raw.try_lock_shared_until(timeout) {
            // SAFETY: The lock is held, as required.
            Some(unsafe { self.make_read_guard_unchecked() })
        } else {
            None
        }
    }

    /// Attempts to acquire this `RwLock` with exclusive write access until a
    /// timeout is reached.
    ///
    /// If the access could not be granted before the timeout expires, then
    /// `None` is returned. Otherwise, an RAII guard is returned which will
    /// release the exclusive access when it is dropped.
    #[inline]
    #[track_caller]
    pub fn try_write_for(&self, timeout: R::Duration) -> Option<RwLockWriteGuard<'_, R, T>> {
        if self.raw.try_lock_exclusive_for(timeout) {
            // SAFETY: The lock is held, as required.
            Some(unsafe { self.make_write_guard_unchecked() })
        } else {
            None
        }
    }

    /// Attempts to acquire this `RwLock` with exclusive write access until a
    /// timeout is reached.
    ///
    /// If the access could not be granted before the timeout expires, then
    /// `None` is returned. Otherwise, an RAII guard is returned which will
    /// release the exclusive access when it is dropped.
    #[inline]
    #[track_caller]
    pub fn try_write_until(&self, timeout: R::Instant) -> Option<RwLockWriteGuard<'_, R, T>> {
        if self.raw.try_lock_exclusive_until(timeout) {
            // SAFETY: The lock is held, as required.
            Some(unsafe { self.make_write_guard_unchecked() })
        } else {
            None
        }
    }

    /// Attempts to acquire this `RwLock` with read access until a timeout is reached, through an `Arc`.
    ///
    /// This method is similar to the `try_read_for` method; however, it requires the `RwLock` to be inside of an
    /// `Arc` and the resulting read guard has no lifetime requirements.
    #[cfg(feature = "arc_lock")]
    #[inline]
    #[track_caller]
    pub fn try_read_arc_for(
        self: &Arc<Self>,
        timeout: R::Duration,
    ) -> Option<ArcRwLockReadGuard<R, T>> {
        if self.raw.try_lock_shared_for(timeout) {
            // SAFETY: locking guarantee is upheld
            Some(unsafe { self.make_arc_read_guard_unchecked() })
        } else {
            None
        }
    }

    /// Attempts to acquire this `RwLock` with read access until a timeout is reached, through an `Arc`.
    ///
    /// This method is similar to the `try_read_until` method; however, it requires the `RwLock` to be inside of
    /// an `Arc` and the resulting read guard has no lifetime requirements.
    #[cfg(feature = "arc_lock")]
    #[inline]
    #[track_caller]
    pub fn try_read_arc_until(
        self: &Arc<Self>,
        timeout: R::Instant,
    ) -> Option<ArcRwLockReadGuard<R, T>> {
        if self.raw.try_lock_shared_until(timeout) {
            // SAFETY: locking guarantee is upheld
            Some(unsafe { self.make_arc_read_guard_unchecked() })
        } else {
            None
        }
    }

    /// Attempts to acquire this `RwLock` with write access until a timeout is reached, through an `Arc`.
    ///
    /// This method is similar to the `try_write_for` method; however, it requires the `RwLock` to be inside of
    /// an `Arc` and the resulting write guard has no lifetime requirements.
    #[cfg(feature = "arc_lock")]
    #[inline]
    #[track_caller]
    pub fn try_write_arc_for(
        self: &Arc<Self>,
        timeout: R::Duration,
    ) -> Option<ArcRwLockWriteGuard<R, T>> {
        if self.raw.try_lock_exclusive_for(timeout) {
            // SAFETY: locking guarantee is upheld
            Some(unsafe { self.make_arc_write_guard_unchecked() })
        } else {
            None
        }
    }

    /// Attempts to acquire this `RwLock` with read access until a timeout is reached, through an `Arc`.
    ///
    /// This method is similar to the `try_write_until` method; however, it requires the `RwLock` to be inside of
    /// an `Arc` and the resulting read guard has no lifetime requirements.
    #[cfg(feature = "arc_lock")]
    #[inline]
    #[track_caller]
    pub fn try_write_arc_until(
        self: &Arc<Self>,
        timeout: R::Instant,
    ) -> Option<ArcRwLockWriteGuard<R, T>> {
        if self.raw.try_lock_exclusive_until(timeout) {
            // SAFETY: locking guarantee is upheld
            Some(unsafe { self.make_arc_write_guard_unchecked() })
        } else {
            None
        }
    }
}

impl<R: RawRwLockRecursive, T: ?Sized> RwLock<R, T> {
    /// Locks this `RwLock` with shared read access, blocking the current thread
    /// until it can be acquired.
    ///
    /// The calling thread will be blocked until there are no more writers which
    /// hold the lock. There may be other readers currently inside the lock when
    /// this method returns.
    ///
    /// Unlike `read`, this method is guaranteed to succeed without blocking if
    /// another read lock is held at the time of the call. This allows a thread
    /// to recursively lock a `RwLock`. However using this method can cause
    /// writers to starve since readers no longer block if a writer is waiting
    /// for the lock.
    ///
    /// Returns an RAII guard which will release this thread's shared access
    /// once it is dropped.
    #[inline]
    #[track_caller]
    pub fn read_recursive(&self) -> RwLockReadGuard<'_, R, T> {
        self.raw.lock_shared_recursive();
        // SAFETY: The lock is held, as required.
        unsafe { self.make_read_guard_unchecked() }
    }

    /// Attempts to acquire this `RwLock` with shared read access.
    ///
    /// If the access could not be granted at this time, then `None` is returned.
    /// Otherwise, an RAII guard is returned which will release the shared access
    /// when it is dropped.
    ///
    /// This method is guaranteed to succeed if another read lock is held at the
    /// time of the call. See the documentation for `read_recursive` for details.
    ///
    /// This function does not block.
    #[inline]
    #[track_caller]
    pub fn try_read_recursive(&self) -> Option<RwLockReadGuard<'_, R, T>> {
        if self.raw.try_lock_shared_recursive() {
            // SAFETY: The lock is held, as required.
            Some(unsafe { self.make_read_guard_unchecked() })
        } else {
            None
        }
    }

    /// Locks this `RwLock` with shared read access, through an `Arc`.
    ///
    /// This method is similar to the `read_recursive` method; however, it requires the `RwLock` to be inside of
    /// an `Arc` and the resulting read guard has no lifetime requirements.
    #[cfg(feature = "arc_lock")]
    #[inline]
    #[track_caller]
    pub fn read_arc_recursive(self: &Arc<Self>) -> ArcRwLockReadGuard<R, T> {
        self.raw.lock_shared_recursive();
        // SAFETY: locking guarantee is upheld
        unsafe { self.make_arc_read_guard_unchecked() }
    }

    /// Attempts to lock this `RwLock` with shared read access, through an `Arc`.
    ///
    /// This method is similar to the `try_read_recursive` method; however, it requires the `RwLock` to be inside
    /// of an `Arc` and the resulting read guard has no lifetime requirements.
    #[cfg(feature = "arc_lock")]
    #[inline]
    #[track_caller]
    pub fn try_read_recursive_arc(self: &Arc<Self>) -> Option<ArcRwLockReadGuard<R, T>> {
        if self.raw.try_lock_shared_recursive() {
            // SAFETY: locking guarantee is upheld
            Some(unsafe { self.make_arc_read_guard_unchecked() })
        } else {
            None
        }
    }
}

impl<R: RawRwLockRecursiveTimed, T: ?Sized> RwLock<R, T> {
    /// Attempts to acquire this `RwLock` with shared read access until a timeout
    /// is reached.
    ///
    /// If the access could not be granted before the timeout expires, then
    /// `None` is returned. Otherwise, an RAII guard is returned which will
    /// release the shared access when it is dropped.
    ///
    /// This method is guaranteed to succeed without blocking if another read
    /// lock is held at the time of the call. See the documentation for
    /// `read_recursive` for details.
    #[inline]
    #[track_caller]
    pub fn try_read_recursive_for(
        &self,
        timeout: R::Duration,
    ) -> Option<RwLockReadGuard<'_, R, T>> {
        if self.raw.try_lock_shared_recursive_for(timeout) {
            // SAFETY: The lock is held, as required.
            Some(unsafe { self.make_read_guard_unchecked() })
        } else {
            None
        }
    }

    /// Attempts to acquire this `RwLock` with shared read access until a timeout
    /// is reached.
    ///
    /// If the access could not be granted before the timeout expires, then
    /// `None` is returned. Otherwise, an RAII guard is returned which will
    /// release the shared access when it is dropped.
    #[inline]
    #[track_caller]
    pub fn try_read_recursive_until(
        &self,
        timeout: R::Instant,
    ) -> Option<RwLockReadGuard<'_, R, T>> {
        if self.raw.try_lock_shared_recursive_until(timeout) {
            // SAFETY: The lock is held, as required.
            Some(unsafe { self.make_read_guard_unchecked() })
        } else {
            None
        }
    }

    /// Attempts to lock this `RwLock` with read access until a timeout is reached, through an `Arc`.
    ///
    /// This method is similar to the `try_read_recursive_for` method; however, it requires the `RwLock` to be
    /// inside of an `Arc` and the resulting read guard has no lifetime requirements.
    #[cfg(feature = "arc_lock")]
    #[inline]
    #[track_caller]
    pub fn try_read_arc_recursive_for(
        self: &Arc<Self>,
        timeout: R::Duration,
    ) -> Option<ArcRwLockReadGuard<R, T>> {
        if self.raw.try_lock_shared_recursive_for(timeout) {
            // SAFETY: locking guarantee is upheld
            Some(unsafe { self.make_arc_read_guard_unchecked() })
        } else {
            None
        }
    }

    /// Attempts to lock this `RwLock` with read access until a timeout is reached, through an `Arc`.
    ///
    /// This method is similar to the `try_read_recursive_until` method; however, it requires the `RwLock` to be
    /// inside of an `Arc` and the resulting read guard has no lifetime requirements.
    #[cfg(feature = "arc_lock")]
    #[inline]
    #[track_caller]
    pub fn try_read_arc_recursive_until(
        self: &Arc<Self>,
        timeout: R::Instant,
    ) -> Option<ArcRwLockReadGuard<R, T>> {
        if self.raw.try_lock_shared_recursive_until(timeout) {
            // SAFETY: locking guarantee is upheld
            Some(unsafe { self.make_arc_read_guard_unchecked() })
        } else {
            None
        }
    }
}

impl<R: RawRwLockUpgrade, T: ?Sized> RwLock<R, T> {
    /// Creates a new `RwLockUpgradableReadGuard` without checking if the lock is held.
    ///
    /// # Safety
    ///
    /// This method must only be called if the thread logically holds an upgradable read lock.
    ///
    /// This function does not increment the read count of the lock. Calling this function when a
    /// guard has already been produced is undefined behaviour unless the guard was forgotten
    /// with `mem::forget`.
    #[inline]
    pub unsafe fn make_upgradable_guard_unchecked(&self) -> RwLockUpgradableReadGuard<'_, R, T> {
        RwLockUpgradableReadGuard {
            rwlock: self,
            marker: PhantomData,
        }
    }

    /// Locks this `RwLock` with upgradable read access, blocking the current thread
    /// until it can be acquired.
    ///
    /// The calling thread will be blocked until there are no more writers or other
    /// upgradable reads which hold the lock. There may be other readers currently
    /// inside the lock when this method returns.
    ///
    /// Returns an RAII guard which will release this thread's shared access
    /// once it is dropped.
    #[inline]
    #[track_caller]
    pub fn upgradable_read(&self) -> RwLockUpgradableReadGuard<'_, R, T> {
        self.raw.lock_upgradable();
        // SAFETY: The lock is held, as required.
        unsafe { self.make_upgradable_guard_unchecked() }
    }

    /// Attempts to acquire this `RwLock` with upgradable read access.
    ///
    /// If the access could not be granted at this time, then `None` is returned.
    /// Otherwise, an RAII guard is returned which will release the shared access
    /// when it is dropped.
    ///
    /// This function does not block.
    #[inline]
    #[track_caller]
    pub fn try_upgradable_read(&self) -> Option<RwLockUpgradableReadGuard<'_, R, T>> {
        if self.raw.try_lock_upgradable() {
            // SAFETY: The lock is held, as required.
            Some(unsafe { self.make_upgradable_guard_unchecked() })
        } else {
            None
        }
    }

    /// Creates a new `ArcRwLockUpgradableReadGuard` without checking if the lock is held.
    ///
    /// # Safety
    ///
    /// This method must only be called if the thread logically holds an upgradable read lock.
    ///
    /// This function does not increment the read count of the lock. Calling this function when a
    /// guard has already been produced is undefined behaviour unless the guard was forgotten
    /// with `mem::forget`.`
    #[cfg(feature = "arc_lock")]
    #[inline]
    pub unsafe fn make_upgradable_arc_guard_unchecked(
        self: &Arc<Self>,
    ) -> ArcRwLockUpgradableReadGuard<R, T> {
        ArcRwLockUpgradableReadGuard {
            rwlock: self.clone(),
            marker: PhantomData,
        }
    }

    /// Locks this `RwLock` with upgradable read access, through an `Arc`.
    ///
    /// This method is similar to the `upgradable_read` method; however, it requires the `RwLock` to be
    /// inside of an `Arc` and the resulting read guard has no lifetime requirements.
    #[cfg(feature = "arc_lock")]
    #[inline]
    #[track_caller]
    pub fn upgradable_read_arc(self: &Arc<Self>) -> ArcRwLockUpgradableReadGuard<R, T> {
        self.raw.lock_upgradable();
        // SAFETY: locking guarantee is upheld
        unsafe { self.make_upgradable_arc_guard_unchecked() }
    }

    /// Attempts to lock this `RwLock` with upgradable read access, through an `Arc`.
    ///
    /// This method is similar to the `try_upgradable_read` method; however, it requires the `RwLock` to be
    /// inside of an `Arc` and the resulting read guard has no lifetime requirements.
    #[cfg(feature = "arc_lock")]
    #[inline]
    #[track_caller]
    pub fn try_upgradable_read_arc(self: &Arc<Self>) -> Option<ArcRwLockUpgradableReadGuard<R, T>> {
        if self.raw.try_lock_upgradable() {
            // SAFETY: locking guarantee is upheld
            Some(unsafe { self.make_upgradable_arc_guard_unchecked() })
        } else {
            None
        }
    }
}

impl<R: RawRwLockUpgradeTimed, T: ?Sized> RwLock<R, T> {
    /// Attempts to acquire this `RwLock` with upgradable read access until a timeout
    /// is reached.
    ///
    /// If the access could not be granted before the timeout expires, then
    /// `None` is returned. Otherwise, an RAII guard is returned which will
    /// release the shared access when it is dropped.
    #[inline]
    #[track_caller]
    pub fn try_upgradable_read_for(
        &self,
        timeout: R::Duration,
    ) -> Option<RwLockUpgradableReadGuard<'_, R, T>> {
        if self.raw.try_lock_upgradable_for(timeout) {
            // SAFETY: The lock is held, as required.
            Some(unsafe { self.make_upgradable_guard_unchecked() })
        } else {
            None
        }
    }

    /// Attempts to acquire this `RwLock` with upgradable read access until a timeout
    /// is reached.
    ///
    /// If the access could not be granted before the timeout expires, then
    /// `None` is returned. Otherwise, an RAII guard is returned which will
    /// release the shared access when it is dropped.
    #[inline]
    #[track_caller]
    pub fn try_upgradable_read_until(
        &self,
        timeout: R::Instant,
    ) -> Option<RwLockUpgradableReadGuard<'_, R, T>> {
        if self.raw.try_lock_upgradable_until(timeout) {
            // SAFETY: The lock is held, as required.
            Some(unsafe { self.make_upgradable_guard_unchecked() })
        } else {
            None
        }
    }

    /// Attempts to lock this `RwLock` with upgradable access until a timeout is reached, through an `Arc`.
    ///
    /// This method is similar to the `try_upgradable_read_for` method; however, it requires the `RwLock` to be
    /// inside of an `Arc` and the resulting read guard has no lifetime requirements.
    #[cfg(feature = "arc_lock")]
    #[inline]
    #[track_caller]
    pub fn try_upgradable_read_arc_for(
        self: &Arc<Self>,
        timeout: R::Duration,
    ) -> Option<ArcRwLockUpgradableReadGuard<R, T>> {
        if self.raw.try_lock_upgradable_for(timeout) {
            // SAFETY: locking guarantee is upheld
            Some(unsafe { self.make_upgradable_arc_guard_unchecked() })
        } else {
            None
        }
    }

    /// Attempts to lock this `RwLock` with upgradable access until a timeout is reached, through an `Arc`.
    ///
    /// This method is similar to the `try_upgradable_read_until` method; however, it requires the `RwLock` to be
    /// inside of an `Arc` and the resulting read guard has no lifetime requirements.
    #[cfg(feature = "arc_lock")]
    #[inline]
    #[track_caller]
    pub fn try_upgradable_read_arc_until(
        self: &Arc<Self>,
        timeout: R::Instant,
    ) -> Option<ArcRwLockUpgradableReadGuard<R, T>> {
        if self.raw.try_lock_upgradable_until(timeout) {
            // SAFETY: locking guarantee is upheld
            Some(unsafe { self.make_upgradable_arc_guard_unchecked() })
        } else {
            None
        }
    }
}

impl<R: RawRwLock, T: ?Sized + Default> Default for RwLock<R, T> {
    #[inline]
    fn default() -> RwLock<R, T> {
        RwLock::new(Default::default())
    }
}

impl<R: RawRwLock, T> From<T> for RwLock<R, T> {
    #[inline]
    fn from(t: T) -> RwLock<R, T> {
        RwLock::new(t)
    }
}

impl<R: RawRwLock, T: ?Sized + fmt::Debug> fmt::Debug for RwLock<R, T> {
    fn fmt(&self, f: &mut fmt::Formatter<'_>) -> fmt::Result {
        let mut d = f.debug_struct("RwLock");
        match self.try_read() {
            Some(guard) => d.field("data", &&*guard),
            None => {
                // Additional format_args! here is to remove quotes around <locked> in debug output.
                d.field("data", &format_args!("<locked>"))
            }
        };
        d.finish()
    }
}

/// RAII structure used to release the shared read access of a lock when
/// dropped.
#[clippy::has_significant_drop]
#[must_use = "if unused the RwLock will immediately unlock"]
pub struct RwLockReadGuard<'a, R: RawRwLock, T: ?Sized> {
    rwlock: &'a RwLock<R, T>,
    marker: PhantomData<(&'a T, R::GuardMarker)>,
}

unsafe impl<R: RawRwLock + Sync, T: Sync + ?Sized> Sync for RwLockReadGuard<'_, R, T> {}

impl<'a, R: RawRwLock + 'a, T: ?Sized + 'a> RwLockReadGuard<'a, R, T> {
    /// Returns a reference to the original reader-writer lock object.
    pub fn rwlock(s: &Self) -> &'a RwLock<R, T> {
        s.rwlock
    }

    /// Make a new `MappedRwLockReadGuard` for a component of the locked data.
    ///
    /// This operation cannot fail as the `RwLockReadGuard` passed
    /// in already locked the data.
    ///
    /// This is an associated function that needs to be
    /// used as `RwLockReadGuard::map(...)`. A method would interfere with methods of
    /// the same name on the contents of the locked data.
    #[inline]
    pub fn map<U: ?Sized, F>(s: Self, f: F) -> MappedRwLockReadGuard<'a, R, U>
    where
        F: FnOnce(&T) -> &U,
    {
        let raw = &s.rwlock.raw;
        let data = f(unsafe { &*s.rwlock.data.get() });
        mem::forget(s);
        MappedRwLockReadGuard {
            raw,
            data,
            marker: PhantomData,
        }
    }

    /// Attempts to make  a new `MappedRwLockReadGuard` for a component of the
    /// locked data. Returns the original guard if the closure returns `None`.
    ///
    /// This operation cannot fail as the `RwLockReadGuard` passed
    /// in already locked the data.
    ///
    /// This is an associated function that needs to be
    /// used as `RwLockReadGuard::try_map(...)`. A method would interfere with methods of
    /// the same name on the contents of the locked data.
    #[inline]
    pub fn try_map<U: ?Sized, F>(s: Self, f: F) -> Result<MappedRwLockReadGuard<'a, R, U>, Self>
    where
        F: FnOnce(&T) -> Option<&U>,
    {
        let raw = &s.rwlock.raw;
        let data = match f(unsafe { &*s.rwlock.data.get() }) {
            Some(data) => data,
            None => return Err(s),
        };
        mem::forget(s);
        Ok(MappedRwLockReadGuard {
            raw,
            data,
            marker: PhantomData,
        })
    }

    /// Attempts to make  a new `MappedRwLockReadGuard` for a component of the
    /// locked data. The original guard is returned alongside arbitrary user data
    /// if the closure returns `Err`.
    ///
    /// This operation cannot fail as the `RwLockReadGuard` passed
    /// in already locked the data.
    ///
    /// This is an associated function that needs to be
    /// used as `RwLockReadGuard::try_map_or_err(...)`. A method would interfere with methods of
    /// the same name on the contents of the locked data.
    #[inline]
    pub fn try_map_or_err<U: ?Sized, F, E>(
        s: Self,
        f: F,
    ) -> Result<MappedRwLockReadGuard<'a, R, U>, (Self, E)>
    where
        F: FnOnce(&T) -> Result<&U, E>,
    {
        let raw = &s.rwlock.raw;
        let data = match f(unsafe { &*s.rwlock.data.get() }) {
            Ok(data) => data,
            Err(e) => return Err((s, e)),
        };
        mem::forget(s);
        Ok(MappedRwLockReadGuard {
            raw,
            data,
            marker: PhantomData,
        })
    }

    /// Temporarily unlocks the `RwLock` to execute the given function.
    ///
    /// This is safe because `&mut` guarantees that there exist no other
    /// references to the data protected by the `RwLock`.
    #[inline]
    #[track_caller]
    pub fn unlocked<F, U>(s: &mut Self, f: F) -> U
    where
        F: FnOnce() -> U,
    {
        // Safety: An RwLockReadGuard always holds a shared lock.
        unsafe {
            s.rwlock.raw.unlock_shared();
        }
        defer!(s.rwlock.raw.lock_shared());
        f()
    }
}

impl<'a, R: RawRwLockFair + 'a, T: ?Sized + 'a> RwLockReadGuard<'a, R, T> {
    /// Unlocks the `RwLock` using a fair unlock protocol.
    ///
    /// By default, `RwLock` is unfair and allow the current thread to re-lock
    /// the `RwLock` before another has the chance to acquire the lock, even if
    /// that thread has been blocked on the `RwLock` for a long time. This is
    /// the default because it allows much higher throughput as it avoids
    /// forcing a context switch on every `RwLock` unlock. This can result in one
    /// thread acquiring a `RwLock` many more times than other threads.
    ///
    /// However in some cases it can be beneficial to ensure fairness by forcing
    /// the lock to pass on to a waiting thread if there is one. This is done by
    /// using this method instead of dropping the `RwLockReadGuard` normally.
    #[inline]
    #[track_caller]
    pub fn unlock_fair(s: Self) {
        // Safety: An RwLockReadGuard always holds a shared lock.
        unsafe {
            s.rwlock.raw.unlock_shared_fair();
        }
        mem::forget(s);
    }

    /// Temporarily unlocks the `RwLock` to execute the given function.
    ///
    /// The `RwLock` is unlocked a fair unlock protocol.
    ///
    /// This is safe because `&mut` guarantees that there exist no other
    /// references to the data protected by the `RwLock`.
    #[inline]
    #[track_caller]
    pub fn unlocked_fair<F, U>(s: &mut Self, f: F) -> U
    where
        F: FnOnce() -> U,
    {
        // Safety: An RwLockReadGuard always holds a shared lock.
        unsafe {
            s.rwlock.raw.unlock_shared_fair();
        }
        defer!(s.rwlock.raw.lock_shared());
        f()
    }

    /// Temporarily yields the `RwLock` to a waiting thread if there is one.
    ///
    /// This method is functionally equivalent to calling `unlock_fair` followed
    /// by `read`, however it can be much more efficient in the case where there
    /// are no waiting threads.
    #[inline]
    #[track_caller]
    pub fn bump(s: &mut Self) {
        // Safety: An RwLockReadGuard always holds a shared lock.
        unsafe {
            s.rwlock.raw.bump_shared();
        }
    }
}

impl<'a, R: RawRwLock + 'a, T: ?Sized + 'a> Deref for RwLockReadGuard<'a, R, T> {
    type Target = T;
    #[inline]
    fn deref(&self) -> &T {
        unsafe { &*self.rwlock.data.get() }
    }
}

impl<'a, R: RawRwLock + 'a, T: ?Sized + 'a> Drop for RwLockReadGuard<'a, R, T> {
    #[inline]
    fn drop(&mut self) {
        // Safety: An RwLockReadGuard always holds a shared lock.
        unsafe {
            self.rwlock.raw.unlock_shared();
        }
    }
}

impl<'a, R: RawRwLock + 'a, T: fmt::Debug + ?Sized + 'a> fmt::Debug for RwLockReadGuard<'a, R, T> {
    fn fmt(&self, f: &mut fmt::Formatter<'_>) -> fmt::Result {
        fmt::Debug::fmt(&**self, f)
    }
}

impl<'a, R: RawRwLock + 'a, T: fmt::Display + ?Sized + 'a> fmt::Display
    for RwLockReadGuard<'a, R, T>
{
    fn fmt(&self, f: &mut fmt::Formatter<'_>) -> fmt::Result {
        (**self).fmt(f)
    }
}

#[cfg(feature = "owning_ref")]
unsafe impl<'a, R: RawRwLock + 'a, T: ?Sized + 'a> StableAddress for RwLockReadGuard<'a, R, T> {}

/// An RAII rwlock guard returned by the `Arc` locking operations on `RwLock`.
///
/// This is similar to the `RwLockReadGuard` struct, except instead of using a reference to unlock the `RwLock`
/// it uses an `Arc<RwLock>`. This has several advantages, most notably that it has an `'static` lifetime.
#[cfg(feature = "arc_lock")]
#[clippy::has_significant_drop]
#[must_use = "if unused the RwLock will immediately unlock"]
pub struct ArcRwLockReadGuard<R: RawRwLock, T: ?Sized> {
    rwlock: Arc<RwLock<R, T>>,
    marker: PhantomData<R::GuardMarker>,
}

#[cfg(feature = "arc_lock")]
impl<R: RawRwLock, T: ?Sized> ArcRwLockReadGuard<R, T> {
    /// Returns a reference to the rwlock, contained in its `Arc`.
    pub fn rwlock(s: &Self) -> &Arc<RwLock<R, T>> {
        &s.rwlock
    }

    /// Unlocks the `RwLock` and returns the `Arc` that was held by the [`ArcRwLockReadGuard`].
    #[inline]
    pub fn into_arc(s: Self) -> Arc<RwLock<R, T>> {
        // SAFETY: Skip our Drop impl and manually unlock the rwlock.
        let s = ManuallyDrop::new(s);
        unsafe {
            s.rwlock.raw.unlock_shared();
            ptr::read(&s.rwlock)
        }
    }

    /// Temporarily unlocks the `RwLock` to execute the given function.
    ///
    /// This is functionally identical to the `unlocked` method on [`RwLockReadGuard`].
    #[inline]
    #[track_caller]
    pub fn unlocked<F, U>(s: &mut Self, f: F) -> U
    where
        F: FnOnce() -> U,
    {
        // Safety: An RwLockReadGuard always holds a shared lock.
        unsafe {
            s.rwlock.raw.unlock_shared();
        }
        defer!(s.rwlock.raw.lock_shared());
        f()
    }
}

#[cfg(feature = "arc_lock")]
impl<R: RawRwLockFair, T: ?Sized> ArcRwLockReadGuard<R, T> {
    /// Unlocks the `RwLock` using a fair unlock protocol.
    ///
    /// This is functionally identical to the `unlock_fair` method on [`RwLockReadGuard`].
    #[inline]
    #[track_caller]
    pub fn unlock_fair(s: Self) {
        drop(Self::into_arc_fair(s));
    }

    /// Unlocks the `RwLock` using a fair unlock protocol and returns the `Arc` that was held by the [`ArcRwLockReadGuard`].
    #[inline]
    pub fn into_arc_fair(s: Self) -> Arc<RwLock<R, T>> {
        // SAFETY: Skip our Drop impl and manually unlock the rwlock.
        let s = ManuallyDrop::new(s);
        unsafe {
            s.rwlock.raw.unlock_shared_fair();
            ptr::read(&s.rwlock)
        }
    }

    /// Temporarily unlocks the `RwLock` to execute the given function.
    ///
    /// This is functionally identical to the `unlocked_fair` method on [`RwLockReadGuard`].
    #[inline]
    #[track_caller]
    pub fn unlocked_fair<F, U>(s: &mut Self, f: F) -> U
    where
        F: FnOnce() -> U,
    {
        // Safety: An RwLockReadGuard always holds a shared lock.
        unsafe {
            s.rwlock.raw.unlock_shared_fair();
        }
        defer!(s.rwlock.raw.lock_shared());
        f()
    }

    /// Temporarily yields the `RwLock` to a waiting thread if there is one.
    ///
    /// This is functionally identical to the `bump` method on [`RwLockReadGuard`].
    #[inline]
    #[track_caller]
    pub fn bump(s: &mut Self) {
        // Safety: An RwLockReadGuard always holds a shared lock.
        unsafe {
            s.rwlock.raw.bump_shared();
        }
    }
}

#[cfg(feature = "arc_lock")]
impl<R: RawRwLock, T: ?Sized> Deref for ArcRwLockReadGuard<R, T> {
    type Target = T;
    #[inline]
    fn deref(&self) -> &T {
        unsafe { &*self.rwlock.data.get() }
    }
}

#[cfg(feature = "arc_lock")]
impl<R: RawRwLock, T: ?Sized> Drop for ArcRwLockReadGuard<R, T> {
    #[inline]
    fn drop(&mut self) {
        // Safety: An RwLockReadGuard always holds a shared lock.
        unsafe {
            self.rwlock.raw.unlock_shared();
        }
    }
}

#[cfg(feature = "arc_lock")]
impl<R: RawRwLock, T: fmt::Debug + ?Sized> fmt::Debug for ArcRwLockReadGuard<R, T> {
    fn fmt(&self, f: &mut fmt::Formatter<'_>) -> fmt::Result {
        fmt::Debug::fmt(&**self, f)
    }
}

#[cfg(feature = "arc_lock")]
impl<R: RawRwLock, T: fmt::Display + ?Sized> fmt::Display for ArcRwLockReadGuard<R, T> {
    fn fmt(&self, f: &mut fmt::Formatter<'_>) -> fmt::Result {
        (**self).fmt(f)
    }
}

/// RAII structure used to release the exclusive write access of a lock when
/// dropped.
#[clippy::has_significant_drop]
#[must_use = "if unused the RwLock will immediately unlock"]
pub struct RwLockWriteGuard<'a, R: RawRwLock, T: ?Sized> {
    rwlock: &'a RwLock<R, T>,
    marker: PhantomData<(&'a mut T, R::GuardMarker)>,
}

unsafe impl<R: RawRwLock + Sync, T: Sync + ?Sized> Sync for RwLockWriteGuard<'_, R, T> {}

impl<'a, R: RawRwLock + 'a, T: ?Sized + 'a> RwLockWriteGuard<'a, R, T> {
    /// Returns a reference to the original reader-writer lock object.
    pub fn rwlock(s: &Self) -> &'a RwLock<R, T> {
        s.rwlock
    }

    /// Make a new `MappedRwLockWriteGuard` for a component of the locked data.
    ///
    /// This operation cannot fail as the `RwLockWriteGuard` passed
    /// in already locked the data.
    ///
    /// This is an associated function that needs to be
    /// used as `RwLockWriteGuard::map(...)`. A method would interfere with methods of
    /// the same name on the contents of the locked data.
    #[inline]
    pub fn map<U: ?Sized, F>(s: Self, f: F) -> MappedRwLockWriteGuard<'a, R, U>
    where
        F: FnOnce(&mut T) -> &mut U,
    {
        let raw = &s.rwlock.raw;
        let data = f(unsafe { &mut *s.rwlock.data.get() });
        mem::forget(s);
        MappedRwLockWriteGuard {
            raw,
            data,
            marker: PhantomData,
        }
    }

    /// Attempts to make  a new `MappedRwLockWriteGuard` for a component of the
    /// locked data. The original guard is return if the closure returns `None`.
    ///
    /// This operation cannot fail as the `RwLockWriteGuard` passed
    /// in already locked the data.
    ///
    /// This is an associated function that needs to be
    /// used as `RwLockWriteGuard::try_map(...)`. A method would interfere with methods of
    /// the same name on the contents of the locked data.
    #[inline]
    pub fn try_map<U: ?Sized, F>(s: Self, f: F) -> Result<MappedRwLockWriteGuard<'a, R, U>, Self>
    where
        F: FnOnce(&mut T) -> Option<&mut U>,
    {
        let raw = &s.rwlock.raw;
        let data = match f(unsafe { &mut *s.rwlock.data.get() }) {
            Some(data) => data,
            None => return Err(s),
        };
        mem::forget(s);
        Ok(MappedRwLockWriteGuard {
            raw,
            data,
            marker: PhantomData,
        })
    }

    /// Attempts to make  a new `MappedRwLockWriteGuard` for a component of the
    /// locked data. The original guard is returned alongside arbitrary user data
    /// if the closure returns `Err`.
    ///
    /// This operation cannot fail as the `RwLockWriteGuard` passed
    /// in already locked the data.
    ///
    /// This is an associated function that needs to be
    /// used as `RwLockWriteGuard::try_map_or_err(...)`. A method would interfere with methods of
    /// the same name on the contents of the locked data.
    #[inline]
    pub fn try_map_or_err<U: ?Sized, F, E>(
        s: Self,
        f: F,
    ) -> Result<MappedRwLockWriteGuard<'a, R, U>, (Self, E)>
    where
        F: FnOnce(&mut T) -> Result<&mut U, E>,
    {
        let raw = &s.rwlock.raw;
        let data = match f(unsafe { &mut *s.rwlock.data.get() }) {
            Ok(data) => data,
            Err(e) => return Err((s, e)),
        };
        mem::forget(s);
        Ok(MappedRwLockWriteGuard {
            raw,
            data,
            marker: PhantomData,
        })
    }

    /// Temporarily unlocks the `RwLock` to execute the given function.
    ///
    /// This is safe because `&mut` guarantees that there exist no other
    /// references to the data protected by the `RwLock`.
    #[inline]
    #[track_caller]
    pub fn unlocked<F, U>(s: &mut Self, f: F) -> U
    where
        F: FnOnce() -> U,
    {
        // Safety: An RwLockReadGuard always holds a shared lock.
        unsafe {
            s.rwlock.raw.unlock_exclusive();
        }
        defer!(s.rwlock.raw.lock_exclusive());
        f()
    }
}

impl<'a, R: RawRwLockDowngrade + 'a, T: ?Sized + 'a> RwLockWriteGuard<'a, R, T> {
    /// Atomically downgrades a write lock into a read lock without allowing any
    /// writers to take exclusive access of the lock in the meantime.
    ///
    /// Note that if there are any writers currently waiting to take the lock
    /// then other readers may not be able to acquire the lock even if it was
    /// downgraded.
    #[track_caller]
    pub fn downgrade(s: Self) -> RwLockReadGuard<'a, R, T> {
        // Safety: An RwLockWriteGuard always holds an exclusive lock.
        unsafe {
            s.rwlock.raw.downgrade();
        }
        let rwlock = s.rwlock;
        mem::forget(s);
        RwLockReadGuard {
            rwlock,
            marker: PhantomData,
        }
    }
}

impl<'a, R: RawRwLockUpgradeDowngrade + 'a, T: ?Sized + 'a> RwLockWriteGuard<'a, R, T> {
    /// Atomically downgrades a write lock into an upgradable read lock without allowing any
    /// writers to take exclusive access of the lock in the meantime.
    ///
    /// Note that if there are any writers currently waiting to take the lock
    /// then other readers may not be able to acquire the lock even if it was
    /// downgraded.
    #[track_caller]
    pub fn downgrade_to_upgradable(s: Self) -> RwLockUpgradableReadGuard<'a, R, T> {
        // Safety: An RwLockWriteGuard always holds an exclusive lock.
        unsafe {
            s.rwlock.raw.downgrade_to_upgradable();
        }
        let rwlock = s.rwlock;
        mem::forget(s);
        RwLockUpgradableReadGuard {
            rwlock,
            marker: PhantomData,
        }
    }
}

impl<'a, R: RawRwLockFair + 'a, T: ?Sized + 'a> RwLockWriteGuard<'a, R, T> {
    /// Unlocks the `RwLock` using a fair unlock protocol.
    ///
    /// By default, `RwLock` is unfair and allow the current thread to re-lock
    /// the `RwLock` before another has the chance to acquire the lock, even if
    /// that thread has been blocked on the `RwLock` for a long time. This is
    /// the default because it allows much higher throughput as it avoids
    /// forcing a context switch on every `RwLock` unlock. This can result in one
    /// thread acquiring a `RwLock` many more times than other threads.
    ///
    /// However in some cases it can be beneficial to ensure fairness by forcing
    /// the lock to pass on to a waiting thread if there is one. This is done by
    /// using this method instead of dropping the `RwLockWriteGuard` normally.
    #[inline]
    #[track_caller]
    pub fn unlock_fair(s: Self) {
        // Safety: An RwLockWriteGuard always holds an exclusive lock.
        unsafe {
            s.rwlock.raw.unlock_exclusive_fair();
        }
        mem::forget(s);
    }

    /// Temporarily unlocks the `RwLock` to execute the given function.
    ///
    /// The `RwLock` is unlocked a fair unlock protocol.
    ///
    /// This is safe because `&mut` guarantees that there exist no other
    /// references to the data protected by the `RwLock`.
    #[inline]
    #[track_caller]
    pub fn unlocked_fair<F, U>(s: &mut Self, f: F) -> U
    where
        F: FnOnce() -> U,
    {
        // Safety: An RwLockWriteGuard always holds an exclusive lock.
        unsafe {
            s.rwlock.raw.unlock_exclusive_fair();
        }
        defer!(s.rwlock.raw.lock_exclusive());
        f()
    }

    /// Temporarily yields the `RwLock` to a waiting thread if there is one.
    ///
    /// This method is functionally equivalent to calling `unlock_fair` followed
    /// by `write`, however it can be much more efficient in the case where there
    /// are no waiting threads.
    #[inline]
    #[track_caller]
    pub fn bump(s: &mut Self) {
        // Safety: An RwLockWriteGuard always holds an exclusive lock.
        unsafe {
            s.rwlock.raw.bump_exclusive();
        }
    }
}

impl<'a, R: RawRwLock + 'a, T: ?Sized + 'a> Deref for RwLockWriteGuard<'a, R, T> {
    type Target = T;
    #[inline]
    fn deref(&self) -> &T {
        unsafe { &*self.rwlock.data.get() }
    }
}

impl<'a, R: RawRwLock + 'a, T: ?Sized + 'a> DerefMut for RwLockWriteGuard<'a, R, T> {
    #[inline]
    fn deref_mut(&mut self) -> &mut T {
        unsafe { &mut *self.rwlock.data.get() }
    }
}

impl<'a, R: RawRwLock + 'a, T: ?Sized + 'a> Drop for RwLockWriteGuard<'a, R, T> {
    #[inline]
    fn drop(&mut self) {
        // Safety: An RwLockWriteGuard always holds an exclusive lock.
        unsafe {
            self.rwlock.raw.unlock_exclusive();
        }
    }
}

impl<'a, R: RawRwLock + 'a, T: fmt::Debug + ?Sized + 'a> fmt::Debug for RwLockWriteGuard<'a, R, T> {
    fn fmt(&self, f: &mut fmt::Formatter<'_>) -> fmt::Result {
        fmt::Debug::fmt(&**self, f)
    }
}

impl<'a, R: RawRwLock + 'a, T: fmt::Display + ?Sized + 'a> fmt::Display
    for RwLockWriteGuard<'a, R, T>
{
    fn fmt(&self, f: &mut fmt::Formatter<'_>) -> fmt::Result {
        (**self).fmt(f)
    }
}

#[cfg(feature = "owning_ref")]
unsafe impl<'a, R: RawRwLock + 'a, T: ?Sized + 'a> StableAddress for RwLockWriteGuard<'a, R, T> {}

/// An RAII rwlock guard returned by the `Arc` locking operations on `RwLock`.
/// This is similar to the `RwLockWriteGuard` struct, except instead of using a reference to unlock the `RwLock`
/// it uses an `Arc<RwLock>`. This has several advantages, most notably that it has an `'static` lifetime.
#[cfg(feature = "arc_lock")]
#[clippy::has_significant_drop]
#[must_use = "if unused the RwLock will immediately unlock"]
pub struct ArcRwLockWriteGuard<R: RawRwLock, T: ?Sized> {
    rwlock: Arc<RwLock<R, T>>,
    marker: PhantomData<R::GuardMarker>,
}

#[cfg(feature = "arc_lock")]
impl<R: RawRwLock, T: ?Sized> ArcRwLockWriteGuard<R, T> {
    /// Returns a reference to the rwlock, contained in its `Arc`.
    pub fn rwlock(s: &Self) -> &Arc<RwLock<R, T>> {
        &s.rwlock
    }

    /// Unlocks the `RwLock` and returns the `Arc` that was held by the [`ArcRwLockWriteGuard`].
    #[inline]
    pub fn into_arc(s: Self) -> Arc<RwLock<R, T>> {
        // SAFETY: Skip our Drop impl and manually unlock the rwlock.
        let s = ManuallyDrop::new(s);
        unsafe {
            s.rwlock.raw.unlock_exclusive();
            ptr::read(&s.rwlock)
        }
    }

    /// Temporarily unlocks the `RwLock` to execute the given function.
    ///
    /// This is functionally equivalent to the `unlocked` method on [`RwLockWriteGuard`].
    #[inline]
    #[track_caller]
    pub fn unlocked<F, U>(s: &mut Self, f: F) -> U
    where
        F: FnOnce() -> U,
    {
        // Safety: An RwLockWriteGuard always holds a shared lock.
        unsafe {
            s.rwlock.raw.unlock_exclusive();
        }
        defer!(s.rwlock.raw.lock_exclusive());
        f()
    }
}

#[cfg(feature = "arc_lock")]
impl<R: RawRwLockDowngrade, T: ?Sized> ArcRwLockWriteGuard<R, T> {
    /// Atomically downgrades a write lock into a read lock without allowing any
    /// writers to take exclusive access of the lock in the meantime.
    ///
    /// This is functionally equivalent to the `downgrade` method on [`RwLockWriteGuard`].
    #[track_caller]
    pub fn downgrade(s: Self) -> ArcRwLockReadGuard<R, T> {
        // Safety: An RwLockWriteGuard always holds an exclusive lock.
        unsafe {
            s.rwlock.raw.downgrade();
        }

        // SAFETY: prevent the arc's refcount from changing using ManuallyDrop and ptr::read
        let s = ManuallyDrop::new(s);
        let rwlock = unsafe { ptr::read(&s.rwlock) };

        ArcRwLockReadGuard {
            rwlock,
            marker: PhantomData,
        }
    }
}

#[cfg(feature = "arc_lock")]
impl<R: RawRwLockUpgradeDowngrade, T: ?Sized> ArcRwLockWriteGuard<R, T> {
    /// Atomically downgrades a write lock into an upgradable read lock without allowing any
    /// writers to take exclusive access of the lock in the meantime.
    ///
    /// This is functionally identical to the `downgrade_to_upgradable` method on [`RwLockWriteGuard`].
    #[track_caller]
    pub fn downgrade_to_upgradable(s: Self) -> ArcRwLockUpgradableReadGuard<R, T> {
        // Safety: An RwLockWriteGuard always holds an exclusive lock.
        unsafe {
            s.rwlock.raw.downgrade_to_upgradable();
        }

        // SAFETY: same as above
        let s = ManuallyDrop::new(s);
        let rwlock = unsafe { ptr::read(&s.rwlock) };

        ArcRwLockUpgradableReadGuard {
            rwlock,
            marker: PhantomData,
        }
    }
}

#[cfg(feature = "arc_lock")]
impl<R: RawRwLockFair, T: ?Sized> ArcRwLockWriteGuard<R, T> {
    /// Unlocks the `RwLock` using a fair unlock protocol.
    ///
    /// This is functionally equivalent to the `unlock_fair` method on [`RwLockWriteGuard`].
    #[inline]
    #[track_caller]
    pub fn unlock_fair(s: Self) {
        drop(Self::into_arc_fair(s));
    }

    /// Unlocks the `RwLock` using a fair unlock protocol and returns the `Arc` that was held by the [`ArcRwLockWriteGuard`].
    #[inline]
    pub fn into_arc_fair(s: Self) -> Arc<RwLock<R, T>> {
        // SAFETY: Skip our Drop impl and manually unlock the rwlock.
        let s = ManuallyDrop::new(s);
        unsafe {
            s.rwlock.raw.unlock_exclusive_fair();
            ptr::read(&s.rwlock)
        }
    }

    /// Temporarily unlocks the `RwLock` to execute the given function.
    ///
    /// This is functionally equivalent to the `unlocked_fair` method on [`RwLockWriteGuard`].
    #[inline]
    #[track_caller]
    pub fn unlocked_fair<F, U>(s: &mut Self, f: F) -> U
    where
        F: FnOnce() -> U,
    {
        // Safety: An RwLockWriteGuard always holds an exclusive lock.
        unsafe {
            s.rwlock.raw.unlock_exclusive_fair();
        }
        defer!(s.rwlock.raw.lock_exclusive());
        f()
    }

    /// Temporarily yields the `RwLock` to a waiting thread if there is one.
    ///
    /// This method is functionally equivalent to the `bump` method on [`RwLockWriteGuard`].
    #[inline]
    #[track_caller]
    pub fn bump(s: &mut Self) {
        // Safety: An RwLockWriteGuard always holds an exclusive lock.
        unsafe {
            s.rwlock.raw.bump_exclusive();
        }
    }
}

#[cfg(feature = "arc_lock")]
impl<R: RawRwLock, T: ?Sized> Deref for ArcRwLockWriteGuard<R, T> {
    type Target = T;
    #[inline]
    fn deref(&self) -> &T {
        unsafe { &*self.rwlock.data.get() }
    }
}

#[cfg(feature = "arc_lock")]
impl<R: RawRwLock, T: ?Sized> DerefMut for ArcRwLockWriteGuard<R, T> {
    #[inline]
    fn deref_mut(&mut self) -> &mut T {
        unsafe { &mut *self.rwlock.data.get() }
    }
}

#[cfg(feature = "arc_lock")]
impl<R: RawRwLock, T: ?Sized> Drop for ArcRwLockWriteGuard<R, T> {
    #[inline]
    fn drop(&mut self) {
        // Safety: An RwLockWriteGuard always holds an exclusive lock.
        unsafe {
            self.rwlock.raw.unlock_exclusive();
        }
    }
}

#[cfg(feature = "arc_lock")]
impl<R: RawRwLock, T: fmt::Debug + ?Sized> fmt::Debug for ArcRwLockWriteGuard<R, T> {
    fn fmt(&self, f: &mut fmt::Formatter<'_>) -> fmt::Result {
        fmt::Debug::fmt(&**self, f)
    }
}

#[cfg(feature = "arc_lock")]
impl<R: RawRwLock, T: fmt::Display + ?Sized> fmt::Display for ArcRwLockWriteGuard<R, T> {
    fn fmt(&self, f: &mut fmt::Formatter<'_>) -> fmt::Result {
        (**self).fmt(f)
    }
}

/// RAII structure used to release the upgradable read access of a lock when
/// dropped.
#[clippy::has_significant_drop]
#[must_use = "if unused the RwLock will immediately unlock"]
pub struct RwLockUpgradableReadGuard<'a, R: RawRwLockUpgrade, T: ?Sized> {
    rwlock: &'a RwLock<R, T>,
    marker: PhantomData<(&'a T, R::GuardMarker)>,
}

unsafe impl<'a, R: RawRwLockUpgrade + 'a, T: ?Sized + Sync + 'a> Sync
    for RwLockUpgradableReadGuard<'a, R, T>
{
}

impl<'a, R: RawRwLockUpgrade + 'a, T: ?Sized + 'a> RwLockUpgradableReadGuard<'a, R, T> {
    /// Returns a reference to the original reader-writer lock object.
    pub fn rwlock(s: &Self) -> &'a RwLock<R, T> {
        s.rwlock
    }

    /// Temporarily unlocks the `RwLock` to execute the given function.
    ///
    /// This is safe because `&mut` guarantees that there exist no other
    /// references to the data protected by the `RwLock`.
    #[inline]
    #[track_caller]
    pub fn unlocked<F, U>(s: &mut Self, f: F) -> U
    where
        F: FnOnce() -> U,
    {
        // Safety: An RwLockUpgradableReadGuard always holds an upgradable lock.
        unsafe {
            s.rwlock.raw.unlock_upgradable();
        }
        defer!(s.rwlock.raw.lock_upgradable());
        f()
    }

    /// Atomically upgrades an upgradable read lock lock into an exclusive write lock,
    /// blocking the current thread until it can be acquired.
    #[track_caller]
    pub fn upgrade(s: Self) -> RwLockWriteGuard<'a, R, T> {
        // Safety: An RwLockUpgradableReadGuard always holds an upgradable lock.
        unsafe {
            s.rwlock.raw.upgrade();
        }
        let rwlock = s.rwlock;
        mem::forget(s);
        RwLockWriteGuard {
            rwlock,
            marker: PhantomData,
        }
    }

    /// Tries to atomically upgrade an upgradable read lock into an exclusive write lock.
    ///
    /// If the access could not be granted at this time, then the current guard is returned.
    #[track_caller]
    pub fn try_upgrade(s: Self) -> Result<RwLockWriteGuard<'a, R, T>, Self> {
        // Safety: An RwLockUpgradableReadGuard always holds an upgradable lock.
        if unsafe { s.rwlock.raw.try_upgrade() } {
            let rwlock = s.rwlock;
            mem::forget(s);
            Ok(RwLockWriteGuard {
                rwlock,
                marker: PhantomData,
            })
        } else {
            Err(s)
        }
    }
}

impl<'a, R: RawRwLockUpgradeFair + 'a, T: ?Sized + 'a> RwLockUpgradableReadGuard<'a, R, T> {
    /// Unlocks the `RwLock` using a fair unlock protocol.
    ///
    /// By default, `RwLock` is unfair and allow the current thread to re-lock
    /// the `RwLock` before another has the chance to acquire the lock, even if
    /// that thread has been blocked on the `RwLock` for a long time. This is
    /// the default because it allows much higher throughput as it avoids
    /// forcing a context switch on every `RwLock` unlock. This can result in one
    /// thread acquiring a `RwLock` many more times than other threads.
    ///
    /// However in some cases it can be beneficial to ensure fairness by forcing
    /// the lock to pass on to a waiting thread if there is one. This is done by
    /// using this method instead of dropping the `RwLockUpgradableReadGuard` normally.
    #[inline]
    #[track_caller]
    pub fn unlock_fair(s: Self) {
        // Safety: An RwLockUpgradableReadGuard always holds an upgradable lock.
        unsafe {
            s.rwlock.raw.unlock_upgradable_fair();
        }
        mem::forget(s);
    }

    /// Temporarily unlocks the `RwLock` to execute the given function.
    ///
    /// The `RwLock` is unlocked a fair unlock protocol.
    ///
    /// This is safe because `&mut` guarantees that there exist no other
    /// references to the data protected by the `RwLock`.
    #[inline]
    #[track_caller]
    pub fn unlocked_fair<F, U>(s: &mut Self, f: F) -> U
    where
        F: FnOnce() -> U,
    {
        // Safety: An RwLockUpgradableReadGuard always holds an upgradable lock.
        unsafe {
            s.rwlock.raw.unlock_upgradable_fair();
        }
        defer!(s.rwlock.raw.lock_upgradable());
        f()
    }

    /// Temporarily yields the `RwLock` to a waiting thread if there is one.
    ///
    /// This method is functionally equivalent to calling `unlock_fair` followed
    /// by `upgradable_read`, however it can be much more efficient in the case where there
    /// are no waiting threads.
    #[inline]
    #[track_caller]
    pub fn bump(s: &mut Self) {
        // Safety: An RwLockUpgradableReadGuard always holds an upgradable lock.
        unsafe {
            s.rwlock.raw.bump_upgradable();
        }
    }
}

impl<'a, R: RawRwLockUpgradeDowngrade + 'a, T: ?Sized + 'a> RwLockUpgradableReadGuard<'a, R, T> {
    /// Atomically downgrades an upgradable read lock lock into a shared read lock
    /// without allowing any writers to take exclusive access of the lock in the
    /// meantime.
    ///
    /// Note that if there are any writers currently waiting to take the lock
    /// then other readers may not be able to acquire the lock even if it was
    /// downgraded.
    #[track_caller]
    pub fn downgrade(s: Self) -> RwLockReadGuard<'a, R, T> {
        // Safety: An RwLockUpgradableReadGuard always holds an upgradable lock.
        unsafe {
            s.rwlock.raw.downgrade_upgradable();
        }
        let rwlock = s.rwlock;
        mem::forget(s);
        RwLockReadGuard {
            rwlock,
            marker: PhantomData,
        }
    }

    /// First, atomically upgrades an upgradable read lock lock into an exclusive write lock,
    /// blocking the current thread until it can be acquired.
    ///
    /// Then, calls the provided closure with an exclusive reference to the lock's data.
    ///
    /// Finally, atomically downgrades the lock back to an upgradable read lock.
    /// The closure's return value is wrapped in `Some` and returned.
    ///
    /// This function only requires a mutable reference to the guard, unlike
    /// `upgrade` which takes the guard by value.
    #[track_caller]
    pub fn with_upgraded<Ret, F: FnOnce(&mut T) -> Ret>(&mut self, f: F) -> Ret {
        unsafe {
            self.rwlock.raw.upgrade();
        }

        // Safety: We just upgraded the lock, so we have mutable access to the data.
        // This will restore the state the lock was in at the start of the function.
        defer!(unsafe { self.rwlock.raw.downgrade_to_upgradable() });

        // Safety: We upgraded the lock, so we have mutable access to the data.
        // When this function returns, whether by drop or panic,
        // the drop guard will downgrade it back to an upgradeable lock.
        f(unsafe { &mut *self.rwlock.data.get() })
    }

    /// First, tries to atomically upgrade an upgradable read lock into an exclusive write lock.
    ///
    /// If the access could not be granted at this time, then `None` is returned.
    ///
    /// Otherwise, calls the provided closure with an exclusive reference to the lock's data,
    /// and finally downgrades the lock back to an upgradable read lock.
    /// The closure's return value is wrapped in `Some` and returned.
    ///
    /// This function only requires a mutable reference to the guard, unlike
    /// `try_upgrade` which takes the guard by value.
    #[track_caller]
    pub fn try_with_upgraded<Ret, F: FnOnce(&mut T) -> Ret>(&mut self, f: F) -> Option<Ret> {
        if unsafe { self.rwlock.raw.try_upgrade() } {
            // Safety: We just upgraded the lock, so we have mutable access to the data.
            // This will restore the state the lock was in at the start of the function.
            defer!(unsafe { self.rwlock.raw.downgrade_to_upgradable() });

            // Safety: We upgraded the lock, so we have mutable access to the data.
            // When this function returns, whether by drop or panic,
            // the drop guard will downgrade it back to an upgradeable lock.
            Some(f(unsafe { &mut *self.rwlock.data.get() }))
        } else {
            None
        }
    }
}

impl<'a, R: RawRwLockUpgradeTimed + 'a, T: ?Sized + 'a> RwLockUpgradableReadGuard<'a, R, T> {
    /// Tries to atomically upgrade an upgradable read lock into an exclusive
    /// write lock, until a timeout is reached.
    ///
    /// If the access could not be granted before the timeout expires, then
    /// the current guard is returned.
    #[track_caller]
    pub fn try_upgrade_for(
        s: Self,
        timeout: R::Duration,
    ) -> Result<RwLockWriteGuard<'a, R, T>, Self> {
        // Safety: An RwLockUpgradableReadGuard always holds an upgradable lock.
        if unsafe { s.rwlock.raw.try_upgrade_for(timeout) } {
            let rwlock = s.rwlock;
            mem::forget(s);
            Ok(RwLockWriteGuard {
                rwlock,
                marker: PhantomData,
            })
        } else {
            Err(s)
        }
    }

    /// Tries to atomically upgrade an upgradable read lock into an exclusive
    /// write lock, until a timeout is reached.
    ///
    /// If the access could not be granted before the timeout expires, then
    /// the current guard is returned.
    #[inline]
    #[track_caller]
    pub fn try_upgrade_until(
        s: Self,
        timeout: R::Instant,
    ) -> Result<RwLockWriteGuard<'a, R, T>, Self> {
        // Safety: An RwLockUpgradableReadGuard always holds an upgradable lock.
        if unsafe { s.rwlock.raw.try_upgrade_until(timeout) } {
            let rwlock = s.rwlock;
            mem::forget(s);
            Ok(RwLockWriteGuard {
                rwlock,
                marker: PhantomData,
            })
        } else {
            Err(s)
        }
    }
}

impl<'a, R: RawRwLockUpgradeTimed + RawRwLockUpgradeDowngrade + 'a, T: ?Sized + 'a>
    RwLockUpgradableReadGuard<'a, R, T>
{
    /// Tries to atomically upgrade an upgradable read lock into an exclusive
    /// write lock, until a timeout is reached.
    ///
    /// If the access could not be granted before the timeout expires, then
    /// `None` is returned.
    ///
    /// Otherwise, calls the provided closure with an exclusive reference to the lock's data,
    /// and finally downgrades the lock back to an upgradable read lock.
    /// The closure's return value is wrapped in `Some` and returned.
    ///
    /// This function only requires a mutable reference to the guard, unlike
    /// `try_upgrade_for` which takes the guard by value.
    #[track_caller]
    pub fn try_with_upgraded_for<Ret, F: FnOnce(&mut T) -> Ret>(
        &mut self,
        timeout: R::Duration,
        f: F,
    ) -> Option<Ret> {
        if unsafe { self.rwlock.raw.try_upgrade_for(timeout) } {
            // Safety: We just upgraded the lock, so we have mutable access to the data.
            // This will restore the state the lock was in at the start of the function.
            defer!(unsafe { self.rwlock.raw.downgrade_to_upgradable() });

            // Safety: We upgraded the lock, so we have mutable access to the data.
            // When this function returns, whether by drop or panic,
            // the drop guard will downgrade it back to an upgradeable lock.
            Some(f(unsafe { &mut *self.rwlock.data.get() }))
        } else {
            None
        }
    }

    /// Tries to atomically upgrade an upgradable read lock into an exclusive
    /// write lock, until a timeout is reached.
    ///
    /// If the access could not be granted before the timeout expires, then
    /// `None` is returned.
    ///
    /// Otherwise, calls the provided closure with an exclusive reference to the lock's data,
    /// and finally downgrades the lock back to an upgradable read lock.
    /// The closure's return value is wrapped in `Some` and returned.
    ///
    /// This function only requires a mutable reference to the guard, unlike
    /// `try_upgrade_until` which takes the guard by value.
    #[track_caller]
    pub fn try_with_upgraded_until<Ret, F: FnOnce(&mut T) -> Ret>(
        &mut self,
        timeout: R::Instant,
        f: F,
    ) -> Option<Ret> {
        if unsafe { self.rwlock.raw.try_upgrade_until(timeout) } {
            // Safety: We just upgraded the lock, so we have mutable access to the data.
            // This will restore the state the lock was in at the start of the function.
            defer!(unsafe { self.rwlock.raw.downgrade_to_upgradable() });

            // Safety: We upgraded the lock, so we have mutable access to the data.
            // When this function returns, whether by drop or panic,
            // the drop guard will downgrade it back to an upgradeable lock.
            Some(f(unsafe { &mut *self.rwlock.data.get() }))
        } else {
            None
        }
    }
}

impl<'a, R: RawRwLockUpgrade + 'a, T: ?Sized + 'a> Deref for RwLockUpgradableReadGuard<'a, R, T> {
    type Target = T;
    #[inline]
    fn deref(&self) -> &T {
        unsafe { &*self.rwlock.data.get() }
    }
}

impl<'a, R: RawRwLockUpgrade + 'a, T: ?Sized + 'a> Drop for RwLockUpgradableReadGuard<'a, R, T> {
    #[inline]
    fn drop(&mut self) {
        // Safety: An RwLockUpgradableReadGuard always holds an upgradable lock.
        unsafe {
            self.rwlock.raw.unlock_upgradable();
        }
    }
}

impl<'a, R: RawRwLockUpgrade + 'a, T: fmt::Debug + ?Sized + 'a> fmt::Debug
    for RwLockUpgradableReadGuard<'a, R, T>
{
    fn fmt(&self, f: &mut fmt::Formatter<'_>) -> fmt::Result {
        fmt::Debug::fmt(&**self, f)
    }
}

impl<'a, R: RawRwLockUpgrade + 'a, T: fmt::Display + ?Sized + 'a> fmt::Display
    for RwLockUpgradableReadGuard<'a, R, T>
{
    fn fmt(&self, f: &mut fmt::Formatter<'_>) -> fmt::Result {
        (**self).fmt(f)
    }
}

#[cfg(feature = "owning_ref")]
unsafe impl<'a, R: RawRwLockUpgrade + 'a, T: ?Sized + 'a> StableAddress
    for RwLockUpgradableReadGuard<'a, R, T>
{
}

/// An RAII rwlock guard returned by the `Arc` locking operations on `RwLock`.
/// This is similar to the `RwLockUpgradableReadGuard` struct, except instead of using a reference to unlock the
/// `RwLock` it uses an `Arc<RwLock>`. This has several advantages, most notably that it has an `'static`
/// lifetime.
#[cfg(feature = "arc_lock")]
#[clippy::has_significant_drop]
#[must_use = "if unused the RwLock will immediately unlock"]
pub struct ArcRwLockUpgradableReadGuard<R: RawRwLockUpgrade, T: ?Sized> {
    rwlock: Arc<RwLock<R, T>>,
    marker: PhantomData<R::GuardMarker>,
}

#[cfg(feature = "arc_lock")]
impl<R: RawRwLockUpgrade, T: ?Sized> ArcRwLockUpgradableReadGuard<R, T> {
    /// Returns a reference to the rwlock, contained in its original `Arc`.
    pub fn rwlock(s: &Self) -> &Arc<RwLock<R, T>> {
        &s.rwlock
    }

    /// Unlocks the `RwLock` and returns the `Arc` that was held by the [`ArcRwLockUpgradableReadGuard`].
    #[inline]
    pub fn into_arc(s: Self) -> Arc<RwLock<R, T>> {
        // SAFETY: Skip our Drop impl and manually unlock the rwlock.
        let s = ManuallyDrop::new(s);
        unsafe {
            s.rwlock.raw.unlock_upgradable();
            ptr::read(&s.rwlock)
        }
    }

    /// Temporarily unlocks the `RwLock` to execute the given function.
    ///
    /// This is functionally identical to the `unlocked` method on [`RwLockUpgradableReadGuard`].
    #[inline]
    #[track_caller]
    pub fn unlocked<F, U>(s: &mut Self, f: F) -> U
    where
        F: FnOnce() -> U,
    {
        // Safety: An RwLockUpgradableReadGuard always holds an upgradable lock.
        unsafe {
            s.rwlock.raw.unlock_upgradable();
        }
        defer!(s.rwlock.raw.lock_upgradable());
        f()
    }

    /// Atomically upgrades an upgradable read lock lock into an exclusive write lock,
    /// blocking the current thread until it can be acquired.
    #[track_caller]
    pub fn upgrade(s: Self) -> ArcRwLockWriteGuard<R, T> {
        // Safety: An RwLockUpgradableReadGuard always holds an upgradable lock.
        unsafe {
            s.rwlock.raw.upgrade();
        }

        // SAFETY: avoid incrementing or decrementing the refcount using ManuallyDrop and reading the Arc out
        //         of the struct
        let s = ManuallyDrop::new(s);
        let rwlock = unsafe { ptr::read(&s.rwlock) };

        ArcRwLockWriteGuard {
            rwlock,
            marker: PhantomData,
        }
    }

    /// Tries to atomically upgrade an upgradable read lock into an exclusive write lock.
    ///
    /// If the access could not be granted at this time, then the current guard is returned.
    #[track_caller]
    pub fn try_upgrade(s: Self) -> Result<ArcRwLockWriteGuard<R, T>, Self> {
        // Safety: An RwLockUpgradableReadGuard always holds an upgradable lock.
        if unsafe { s.rwlock.raw.try_upgrade() } {
            // SAFETY: same as above
            let s = ManuallyDrop::new(s);
            let rwlock = unsafe { ptr::read(&s.rwlock) };

            Ok(ArcRwLockWriteGuard {
                rwlock,
                marker: PhantomData,
            })
        } else {
            Err(s)
        }
    }
}

#[cfg(feature = "arc_lock")]
impl<R: RawRwLockUpgradeFair, T: ?Sized> ArcRwLockUpgradableReadGuard<R, T> {
    /// Unlocks the `RwLock` using a fair unlock protocol.
    ///
    /// This is functionally identical to the `unlock_fair` method on [`RwLockUpgradableReadGuard`].
    #[inline]
    #[track_caller]
    pub fn unlock_fair(s: Self) {
        drop(Self::into_arc_fair(s));
    }

    /// Unlocks the `RwLock` using a fair unlock protocol and returns the `Arc` that was held by the [`ArcRwLockUpgradableReadGuard`].
    #[inline]
    pub fn into_arc_fair(s: Self) -> Arc<RwLock<R, T>> {
        // SAFETY: Skip our Drop impl and manually unlock the rwlock.
        let s = ManuallyDrop::new(s);
        unsafe {
            s.rwlock.raw.unlock_upgradable_fair();
            ptr::read(&s.rwlock)
        }
    }

    /// Temporarily unlocks the `RwLock` to execute the given function.
    ///
    /// This is functionally equivalent to the `unlocked_fair` method on [`RwLockUpgradableReadGuard`].
    #[inline]
    #[track_caller]
    pub fn unlocked_fair<F, U>(s: &mut Self, f: F) -> U
    where
        F: FnOnce() -> U,
    {
        // Safety: An RwLockUpgradableReadGuard always holds an upgradable lock.
        unsafe {
            s.rwlock.raw.unlock_upgradable_fair();
        }
        defer!(s.rwlock.raw.lock_upgradable());
        f()
    }

    /// Temporarily yields the `RwLock` to a waiting thread if there is one.
    ///
    /// This method is functionally equivalent to calling `bump` on [`RwLockUpgradableReadGuard`].
    #[inline]
    #[track_caller]
    pub fn bump(s: &mut Self) {
        // Safety: An RwLockUpgradableReadGuard always holds an upgradable lock.
        unsafe {
            s.rwlock.raw.bump_upgradable();
        }
    }
}

#[cfg(feature = "arc_lock")]
impl<R: RawRwLockUpgradeDowngrade, T: ?Sized> ArcRwLockUpgradableReadGuard<R, T> {
    /// Atomically downgrades an upgradable read lock lock into a shared read lock
    /// without allowing any writers to take exclusive access of the lock in the
    /// meantime.
    ///
    /// Note that if there are any writers currently waiting to take the lock
    /// then other readers may not be able to acquire the lock even if it was
    /// downgraded.
    #[track_caller]
    pub fn downgrade(s: Self) -> ArcRwLockReadGuard<R, T> {
        // Safety: An RwLockUpgradableReadGuard always holds an upgradable lock.
        unsafe {
            s.rwlock.raw.downgrade_upgradable();
        }

        // SAFETY: use ManuallyDrop and ptr::read to ensure the refcount is not changed
        let s = ManuallyDrop::new(s);
        let rwlock = unsafe { ptr::read(&s.rwlock) };

        ArcRwLockReadGuard {
            rwlock,
            marker: PhantomData,
        }
    }

    /// First, atomically upgrades an upgradable read lock lock into an exclusive write lock,
    /// blocking the current thread until it can be acquired.
    ///
    /// Then, calls the provided closure with an exclusive reference to the lock's data.
    ///
    /// Finally, atomically downgrades the lock back to an upgradable read lock.
    /// The closure's return value is returned.
    ///
    /// This function only requires a mutable reference to the guard, unlike
    /// `upgrade` which takes the guard by value.
    #[track_caller]
    pub fn with_upgraded<Ret, F: FnOnce(&mut T) -> Ret>(&mut self, f: F) -> Ret {
        unsafe {
            self.rwlock.raw.upgrade();
        }

        // Safety: We just upgraded the lock, so we have mutable access to the data.
        // This will restore the state the lock was in at the start of the function.
        defer!(unsafe { self.rwlock.raw.downgrade_to_upgradable() });

        // Safety: We upgraded the lock, so we have mutable access to the data.
        // When this function returns, whether by drop or panic,
        // the drop guard will downgrade it back to an upgradeable lock.
        f(unsafe { &mut *self.rwlock.data.get() })
    }

    /// First, tries to atomically upgrade an upgradable read lock into an exclusive write lock.
    ///
    /// If the access could not be granted at this time, then `None` is returned.
    ///
    /// Otherwise, calls the provided closure with an exclusive reference to the lock's data,
    /// and finally downgrades the lock back to an upgradable read lock.
    /// The closure's return value is wrapped in `Some` and returned.
    ///
    /// This function only requires a mutable reference to the guard, unlike
    /// `try_upgrade` which takes the guard by value.
    #[track_caller]
    pub fn try_with_upgraded<Ret, F: FnOnce(&mut T) -> Ret>(&mut self, f: F) -> Option<Ret> {
        if unsafe { self.rwlock.raw.try_upgrade() } {
            // Safety: We just upgraded the lock, so we have mutable access to the data.
            // This will restore the state the lock was in at the start of the function.
            defer!(unsafe { self.rwlock.raw.downgrade_to_upgradable() });

            // Safety: We upgraded the lock, so we have mutable access to the data.
            // When this function returns, whether by drop or panic,
            // the drop guard will downgrade it back to an upgradeable lock.
            Some(f(unsafe { &mut *self.rwlock.data.get() }))
        } else {
            None
        }
    }
}

#[cfg(feature = "arc_lock")]
impl<R: RawRwLockUpgradeTimed, T: ?Sized> ArcRwLockUpgradableReadGuard<R, T> {
    /// Tries to atomically upgrade an upgradable read lock into an exclusive
    /// write lock, until a timeout is reached.
    ///
    /// If the access could not be granted before the timeout expires, then
    /// the current guard is returned.
    #[track_caller]
    pub fn try_upgrade_for(
        s: Self,
        timeout: R::Duration,
    ) -> Result<ArcRwLockWriteGuard<R, T>, Self> {
        // Safety: An RwLockUpgradableReadGuard always holds an upgradable lock.
        if unsafe { s.rwlock.raw.try_upgrade_for(timeout) } {
            // SAFETY: same as above
            let s = ManuallyDrop::new(s);
            let rwlock = unsafe { ptr::read(&s.rwlock) };

            Ok(ArcRwLockWriteGuard {
                rwlock,
                marker: PhantomData,
            })
        } else {
            Err(s)
        }
    }

    /// Tries to atomically upgrade an upgradable read lock into an exclusive
    /// write lock, until a timeout is reached.
    ///
    /// If the access could not be granted before the timeout expires, then
    /// the current guard is returned.
    #[inline]
    #[track_caller]
    pub fn try_upgrade_until(
        s: Self,
        timeout: R::Instant,
    ) -> Result<ArcRwLockWriteGuard<R, T>, Self> {
        // Safety: An RwLockUpgradableReadGuard always holds an upgradable lock.
        if unsafe { s.rwlock.raw.try_upgrade_until(timeout) } {
            // SAFETY: same as above
            let s = ManuallyDrop::new(s);
            let rwlock = unsafe { ptr::read(&s.rwlock) };

            Ok(ArcRwLockWriteGuard {
                rwlock,
                marker: PhantomData,
            })
        } else {
            Err(s)
        }
    }
}

#[cfg(feature = "arc_lock")]
impl<R: RawRwLockUpgradeTimed + RawRwLockUpgradeDowngrade, T: ?Sized>
    ArcRwLockUpgradableReadGuard<R, T>
{
    /// Tries to atomically upgrade an upgradable read lock into an exclusive
    /// write lock, until a timeout is reached.
    ///
    /// If the access could not be granted before the timeout expires, then
    /// `None` is returned.
    ///
    /// Otherwise, calls the provided closure with an exclusive reference to the lock's data,
    /// and finally downgrades the lock back to an upgradable read lock.
    /// The closure's return value is wrapped in `Some` and returned.
    ///
    /// This function only requires a mutable reference to the guard, unlike
    /// `try_upgrade_for` which takes the guard by value.
    #[track_caller]
    pub fn try_with_upgraded_for<Ret, F: FnOnce(&mut T) -> Ret>(
        &mut self,
        timeout: R::Duration,
        f: F,
    ) -> Option<Ret> {
        if unsafe { self.rwlock.raw.try_upgrade_for(timeout) } {
            // Safety: We just upgraded the lock, so we have mutable access to the data.
            // This will restore the state the lock was in at the start of the function.
            defer!(unsafe { self.rwlock.raw.downgrade_to_upgradable() });

            // Safety: We upgraded the lock, so we have mutable access to the data.
            // When this function returns, whether by drop or panic,
            // the drop guard will downgrade it back to an upgradeable lock.
            Some(f(unsafe { &mut *self.rwlock.data.get() }))
        } else {
            None
        }
    }

    /// Tries to atomically upgrade an upgradable read lock into an exclusive
    /// write lock, until a timeout is reached.
    ///
    /// If the access could not be granted before the timeout expires, then
    /// `None` is returned.
    ///
    /// Otherwise, calls the provided closure with an exclusive reference to the lock's data,
    /// and finally downgrades the lock back to an upgradable read lock.
    /// The closure's return value is wrapped in `Some` and returned.
    ///
    /// This function only requires a mutable reference to the guard, unlike
    /// `try_upgrade_until` which takes the guard by value.
    #[track_caller]
    pub fn try_with_upgraded_until<Ret, F: FnOnce(&mut T) -> Ret>(
        &mut self,
        timeout: R::Instant,
        f: F,
    ) -> Option<Ret> {
        if unsafe { self.rwlock.raw.try_upgrade_until(timeout) } {
            // Safety: We just upgraded the lock, so we have mutable access to the data.
            // This will restore the state the lock was in at the start of the function.
            defer!(unsafe { self.rwlock.raw.downgrade_to_upgradable() });

            // Safety: We upgraded the lock, so we have mutable access to the data.
            // When this function returns, whether by drop or panic,
            // the drop guard will downgrade it back to an upgradeable lock.
            Some(f(unsafe { &mut *self.rwlock.data.get() }))
        } else {
            None
        }
    }
}

#[cfg(feature = "arc_lock")]
impl<R: RawRwLockUpgrade, T: ?Sized> Deref for ArcRwLockUpgradableReadGuard<R, T> {
    type Target = T;
    #[inline]
    fn deref(&self) -> &T {
        unsafe { &*self.rwlock.data.get() }
    }
}

#[cfg(feature = "arc_lock")]
impl<R: RawRwLockUpgrade, T: ?Sized> Drop for ArcRwLockUpgradableReadGuard<R, T> {
    #[inline]
    fn drop(&mut self) {
        // Safety: An RwLockUpgradableReadGuard always holds an upgradable lock.
        unsafe {
            self.rwlock.raw.unlock_upgradable();
        }
    }
}

#[cfg(feature = "arc_lock")]
impl<R: RawRwLockUpgrade, T: fmt::Debug + ?Sized> fmt::Debug
    for ArcRwLockUpgradableReadGuard<R, T>
{
    fn fmt(&self, f: &mut fmt::Formatter<'_>) -> fmt::Result {
        fmt::Debug::fmt(&**self, f)
    }
}

#[cfg(feature = "arc_lock")]
impl<R: RawRwLockUpgrade, T: fmt::Display + ?Sized> fmt::Display
    for ArcRwLockUpgradableReadGuard<R, T>
{
    fn fmt(&self, f: &mut fmt::Formatter<'_>) -> fmt::Result {
        (**self).fmt(f)
    }
}

/// An RAII read lock guard returned by `RwLockReadGuard::map`, which can point to a
/// subfield of the protected data.
///
/// The main difference between `MappedRwLockReadGuard` and `RwLockReadGuard` is that the
/// former doesn't support temporarily unlocking and re-locking, since that
/// could introduce soundness issues if the locked object is modified by another
/// thread.
#[clippy::has_significant_drop]
#[must_use = "if unused the RwLock will immediately unlock"]
pub struct MappedRwLockReadGuard<'a, R: RawRwLock, T: ?Sized> {
    raw: &'a crate::verif::Hooked<R>,
    data: *const T,
    marker: PhantomData<&'a T>,
}

unsafe impl<'a, R: RawRwLock + 'a, T: ?Sized + Sync + 'a> Sync for MappedRwLockReadGuard<'a, R, T> {}
unsafe impl<'a, R: RawRwLock + 'a, T: ?Sized + Sync + 'a> Send for MappedRwLockReadGuard<'a, R, T> where
    R::GuardMarker: Send
{
}

impl<'a, R: RawRwLock + 'a, T: ?Sized + 'a> MappedRwLockReadGuard<'a, R, T> {
    /// Make a new `MappedRwLockReadGuard` for a component of the locked data.
    ///
    /// This operation cannot fail as the `MappedRwLockReadGuard` passed
    /// in already locked the data.
    ///
    /// This is an associated function that needs to be
    /// used as `MappedRwLockReadGuard::map(...)`. A method would interfere with methods of
    /// the same name on the contents of the locked data.
    #[inline]
    pub fn map<U: ?Sized, F>(s: Self, f: F) -> MappedRwLockReadGuard<'a, R, U>
    where
        F: FnOnce(&T) -> &U,
    {
        let raw = s.raw;
        let data = f(unsafe { &*s.data });
        mem::forget(s);
        MappedRwLockReadGuard {
            raw,
            data,
            marker: PhantomData,
        }
    }

    /// Attempts to make  a new `MappedRwLockReadGuard` for a component of the
    /// locked data. The original guard is return if the closure returns `None`.
    ///
    /// This operation cannot fail as the `MappedRwLockReadGuard` passed
    /// in already locked the data.
    ///
    /// This is an associated function that needs to be
    /// used as `MappedRwLockReadGuard::try_map(...)`. A method would interfere with methods of
    /// the same name on the contents of the locked data.
    #[inline]
    pub fn try_map<U: ?Sized, F>(s: Self, f: F) -> Result<MappedRwLockReadGuard<'a, R, U>, Self>
    where
        F: FnOnce(&T) -> Option<&U>,
    {
        let raw = s.raw;
        let data = match f(unsafe { &*s.data }) {
            Some(data) => data,
            None => return Err(s),
        };
        mem::forget(s);
        Ok(MappedRwLockReadGuard {
            raw,
            data,
            marker: PhantomData,
        })
    }

    /// Attempts to make  a new `MappedRwLockReadGuard` for a component of the
    /// locked data. The original guard is returned alongside arbitrary user data
    /// if the closure returns `Err`.
    ///
    /// This operation cannot fail as the `MappedRwLockReadGuard` passed
    /// in already locked the data.
    ///
    /// This is an associated function that needs to be
    /// used as `MappedRwLockReadGuard::try_map_or_err(...)`. A method would interfere with methods of
    /// the same name on the contents of the locked data.
    #[inline]
    pub fn try_map_or_else<U: ?Sized, F, E>(
        s: Self,
        f: F,
    ) -> Result<MappedRwLockReadGuard<'a, R, U>, (Self, E)>
    where
        F: FnOnce(&T) -> Result<&U, E>,
    {
        let raw = s.raw;
        let data = match f(unsafe { &*s.data }) {
            Ok(data) => data,
            Err(e) => return Err((s, e)),
        };
        mem::forget(s);
        Ok(MappedRwLockReadGuard {
            raw,
            data,
            marker: PhantomData,
        })
    }
}

impl<'a, R: RawRwLockFair + 'a, T: ?Sized + 'a> MappedRwLockReadGuard<'a, R, T> {
    /// Unlocks the `RwLock` using a fair unlock protocol.
    ///
    /// By default, `RwLock` is unfair and allow the current thread to re-lock
    /// the `RwLock` before another has the chance to acquire the lock, even if
    /// that thread has been blocked on the `RwLock` for a long time. This is
    /// the default because it allows much higher throughput as it avoids
    /// forcing a context switch on every `RwLock` unlock. This can result in one
    /// thread acquiring a `RwLock` many more times than other threads.
    ///
    /// However in some cases it can be beneficial to ensure fairness by forcing
    /// the lock to pass on to a waiting thread if there is one. This is done by
    /// using this method instead of dropping the `MappedRwLockReadGuard` normally.
    #[inline]
    #[track_caller]
    pub fn unlock_fair(s: Self) {
        // Safety: A MappedRwLockReadGuard always holds a shared lock.
        unsafe {
            s.raw.unlock_shared_fair();
        }
        mem::forget(s);
    }
}

impl<'a, R: RawRwLock + 'a, T: ?Sized + 'a> Deref for MappedRwLockReadGuard<'a, R, T> {
    type Target = T;
    #[inline]
    fn deref(&self) -> &T {
        unsafe { &*self.data }
    }
}

impl<'a, R: RawRwLock + 'a, T: ?Sized + 'a> Drop for MappedRwLockReadGuard<'a, R, T> {
    #[inline]
    fn drop(&mut self) {
        // Safety: A MappedRwLockReadGuard always holds a shared lock.
        unsafe {
            self.raw.unlock_shared();
        }
    }
}

impl<'a, R: RawRwLock + 'a, T: fmt::Debug + ?Sized + 'a> fmt::Debug
    for MappedRwLockReadGuard<'a, R, T>
{
    fn fmt(&self, f: &mut fmt::Formatter<'_>) -> fmt::Result {
        fmt::Debug::fmt(&**self, f)
    }
}

impl<'a, R: RawRwLock + 'a, T: fmt::Display + ?Sized + 'a> fmt::Display
    for MappedRwLockReadGuard<'a, R, T>
{
    fn fmt(&self, f: &mut fmt::Formatter<'_>) -> fmt::Result {
        (**self).fmt(f)
    }
}

#[cfg(feature = "owning_ref")]
unsafe impl<'a, R: RawRwLock + 'a, T: ?Sized + 'a> StableAddress
    for MappedRwLockReadGuard<'a, R, T>
{
}

/// An RAII write lock guard returned by `RwLockWriteGuard::map`, which can point to a
/// subfield of the protected data.
///
/// The main difference between `MappedRwLockWriteGuard` and `RwLockWriteGuard` is that the
/// former doesn't support temporarily unlocking and re-locking, since that
/// could introduce soundness issues if the locked object is modified by another
/// thread.
#[clippy::has_significant_drop]
#[must_use = "if unused the RwLock will immediately unlock"]
pub struct MappedRwLockWriteGuard<'a, R: RawRwLock, T: ?Sized> {
    raw: &'a crate::verif::Hooked<R>,
    data: *mut T,
    marker: PhantomData<&'a mut T>,
}

unsafe impl<'a, R: RawRwLock + 'a, T: ?Sized + Sync + 'a> Sync
    for MappedRwLockWriteGuard<'a, R, T>
{
}
unsafe impl<'a, R: RawRwLock + 'a, T: ?Sized + Send + 'a> Send for MappedRwLockWriteGuard<'a, R, T> where
    R::GuardMarker: Send
{
}

impl<'a, R: RawRwLock + 'a, T: ?Sized + 'a> MappedRwLockWriteGuard<'a, R, T> {
    /// Make a new `MappedRwLockWriteGuard` for a component of the locked data.
    ///
    /// This operation cannot fail as the `MappedRwLockWriteGuard` passed
    /// in already locked the data.
    ///
    /// This is an associated function that needs to be
    /// used as `MappedRwLockWriteGuard::map(...)`. A method would interfere with methods of
    /// the same name on the contents of the locked data.
    #[inline]
    pub fn map<U: ?Sized, F>(s: Self, f: F) -> MappedRwLockWriteGuard<'a, R, U>
    where
        F: FnOnce(&mut T) -> &mut U,
    {
        let raw = s.raw;
        let data = f(unsafe { &mut *s.data });
        mem::forget(s);
        MappedRwLockWriteGuard {
            raw,
            data,
            marker: PhantomData,
        }
    }

    /// Attempts to make  a new `MappedRwLockWriteGuard` for a component of the
    /// locked data. The original guard is return if the closure returns `None`.
    ///
    /// This operation cannot fail as the `MappedRwLockWriteGuard` passed
    /// in already locked the data.
    ///
    /// This is an associated function that needs to be
    /// used as `MappedRwLockWriteGuard::try_map(...)`. A method would interfere with methods of
    /// the same name on the contents of the locked data.
    #[inline]
    pub fn try_map<U: ?Sized, F>(s: Self, f: F) -> Result<MappedRwLockWriteGuard<'a, R, U>, Self>
    where
        F: FnOnce(&mut T) -> Option<&mut U>,
    {
        let raw = s.raw;
        let data = match f(unsafe { &mut *s.data }) {
            Some(data) => data,
            None => return Err(s),
        };
        mem::forget(s);
        Ok(MappedRwLockWriteGuard {
            raw,
            data,
            marker: PhantomData,
        })
    }

    /// Attempts to make  a new `MappedRwLockWriteGuard` for a component of the
    /// locked data. The original guard is returned alongside arbitrary user data
    /// if the closure returns `Err`.
    ///
    /// This operation cannot fail as the `MappedRwLockWriteGuard` passed
    /// in already locked the data.
    ///
    /// This is an associated function that needs to be
    /// used as `MappedRwLockWriteGuard::try_map_or_err(...)`. A method would interfere with methods of
    /// the same name on the contents of the locked data.
    #[inline]
    pub fn try_map_or_err<U: ?Sized, F, E>(
        s: Self,
        f: F,
    ) -> Result<MappedRwLockWriteGuard<'a, R, U>, (Self, E)>
    where
        F: FnOnce(&mut T) -> Result<&mut U, E>,
    {
        let raw = s.raw;
        let data = match f(unsafe { &mut *s.data }) {
            Ok(data) => data,
            Err(e) => return Err((s, e)),
        };
        mem::forget(s);
        Ok(MappedRwLockWriteGuard {
            raw,
            data,
            marker: PhantomData,
        })
    }
}

impl<'a, R: RawRwLockFair + 'a, T: ?Sized + 'a> MappedRwLockWriteGuard<'a, R, T> {
    /// Unlocks the `RwLock` using a fair unlock protocol.
    ///
    /// By default, `RwLock` is unfair and allow the current thread to re-lock
    /// the `RwLock` before another has the chance to acquire the lock, even if
    /// that thread has been blocked on the `RwLock` for a long time. This is
    /// the default because it allows much higher throughput as it avoids
    /// forcing a context switch on every `RwLock` unlock. This can result in one
    /// thread acquiring a `RwLock` many more times than other threads.
    ///
    /// However in some cases it can be beneficial to ensure fairness by forcing
    /// the lock to pass on to a waiting thread if there is one. This is done by
    /// using this method instead of dropping the `MappedRwLockWriteGuard` normally.
    #[inline]
    #[track_caller]
    pub fn unlock_fair(s: Self) {
        // Safety: A MappedRwLockWriteGuard always holds an exclusive lock.
        unsafe {
            s.raw.unlock_exclusive_fair();
        }
        mem::forget(s);
    }
}

impl<'a, R: RawRwLock + 'a, T: ?Sized + 'a> Deref for MappedRwLockWriteGuard<'a, R, T> {
    type Target = T;
    #[inline]
    fn deref(&self) -> &T {
        unsafe { &*self.data }
    }
}

impl<'a, R: RawRwLock + 'a, T: ?Sized + 'a> DerefMut for MappedRwLockWriteGuard<'a, R, T> {
    #[inline]
    fn deref_mut(&mut self) -> &mut T {
        unsafe { &mut *self.data }
    }
}

impl<'a, R: RawRwLock + 'a, T: ?Sized + 'a> Drop for MappedRwLockWriteGuard<'a, R, T> {
    #[inline]
    fn drop(&mut self) {
        // Safety: A MappedRwLockWriteGuard always holds an exclusive lock.
        unsafe {
            self.raw.unlock_exclusive();
        }
    }
}

impl<'a, R: RawRwLock + 'a, T: fmt::Debug + ?Sized + 'a> fmt::Debug
    for MappedRwLockWriteGuard<'a, R, T>
{
    fn fmt(&self, f: &mut fmt::Formatter<'_>) -> fmt::Result {
        fmt::Debug::fmt(&**self, f)
    }
}

impl<'a, R: RawRwLock + 'a, T: fmt::Display + ?Sized + 'a> fmt::Display
    for MappedRwLockWriteGuard<'a, R, T>
{
    fn fmt(&self, f: &mut fmt::Formatter<'_>) -> fmt::Result {
        (**self).fmt(f)
    }
}

#[cfg(feature = "owning_ref")]
unsafe impl<'a, R: RawRwLock + 'a, T: ?Sized + 'a> StableAddress
    for MappedRwLockWriteGuard<'a, R, T>
{
}
