//! Verification hooks: `Hooked<R>` wraps a raw lock and reports acquire/release
//! to an installable hook table. No-op (one atomic load) when nothing is installed.
use core::sync::atomic::{AtomicPtr, Ordering};
use crate::*;

pub const EXCL: u8 = 0;
pub const SHARED: u8 = 1;
pub const UPGRADABLE: u8 = 2;
pub const UPGRADE: u8 = 3; // upgradable -> exclusive (blocking)

pub struct HookTable {
    /// Called before a blocking or try acquire. May block the caller (scheduling point).
    pub before_acquire: fn(addr: usize, kind: u8, is_try: bool),
    /// Called after the real acquire attempt.
    pub after_acquire: fn(addr: usize, kind: u8, ok: bool),
    /// Called after the real release.
    pub after_release: fn(addr: usize, kind: u8),
    /// Mode change without blocking (downgrade etc.): from -> to.
    pub mode_change: fn(addr: usize, from: u8, to: u8),
}

static HOOKS: AtomicPtr<HookTable> = AtomicPtr::new(core::ptr::null_mut());

pub fn install(t: &'static HookTable) {
    HOOKS.store(t as *const _ as *mut _, Ordering::SeqCst);
}

#[inline]
fn hooks() -> Option<&'static HookTable> {
    let p = HOOKS.load(Ordering::Relaxed);
    if p.is_null() { None } else { Some(unsafe { &*p }) }
}

#[repr(transparent)]
pub struct Hooked<R>(pub(crate) R);

impl<R> Hooked<R> {
    #[inline]
    pub const fn new(r: R) -> Self { Hooked(r) }
    #[inline]
    fn addr(&self) -> usize { self as *const _ as usize }
    #[inline]
    fn acq<F: FnOnce(&R)>(&self, kind: u8, f: F) {
        if let Some(h) = hooks() { (h.before_acquire)(self.addr(), kind, false); f(&self.0); (h.after_acquire)(self.addr(), kind, true); } else { f(&self.0) }
    }
    #[inline]
    fn try_acq<F: FnOnce(&R) -> bool>(&self, kind: u8, f: F) -> bool {
        if let Some(h) = hooks() { (h.before_acquire)(self.addr(), kind, true); let ok = f(&self.0); (h.after_acquire)(self.addr(), kind, ok); ok } else { f(&self.0) }
    }
    #[inline]
    fn rel<F: FnOnce(&R)>(&self, kind: u8, f: F) {
        f(&self.0);
        if let Some(h) = hooks() { (h.after_release)(self.addr(), kind); }
    }
    #[inline]
    fn chg<F: FnOnce(&R)>(&self, from: u8, to: u8, f: F) {
        f(&self.0);
        if let Some(h) = hooks() { (h.mode_change)(self.addr(), from, to); }
    }
}

unsafe impl<R: RawMutex> RawMutex for Hooked<R> {
    #[allow(clippy::declare_interior_mutable_const)]
    const INIT: Self = Hooked(R::INIT);
    type GuardMarker = R::GuardMarker;
    #[inline] fn lock(&self) { self.acq(EXCL, |r| r.lock()) }
    #[inline] fn try_lock(&self) -> bool { self.try_acq(EXCL, |r| r.try_lock()) }
    #[inline] unsafe fn unlock(&self) { self.rel(EXCL, |r| r.unlock()) }
    #[inline] fn is_locked(&self) -> bool { self.0.is_locked() }
}
unsafe impl<R: RawMutexFair> RawMutexFair for Hooked<R> {
    #[inline] unsafe fn unlock_fair(&self) { self.rel(EXCL, |r| r.unlock_fair()) }
    #[inline] unsafe fn bump(&self) { self.unlock_fair(); self.lock(); }
}
unsafe impl<R: RawMutexTimed> RawMutexTimed for Hooked<R> {
    type Duration = R::Duration;
    type Instant = R::Instant;
    #[inline] fn try_lock_for(&self, t: Self::Duration) -> bool { self.try_acq(EXCL, |r| r.try_lock_for(t)) }
    #[inline] fn try_lock_until(&self, t: Self::Instant) -> bool { self.try_acq(EXCL, |r| r.try_lock_until(t)) }
}

unsafe impl<R: RawRwLock> RawRwLock for Hooked<R> {
    #[allow(clippy::declare_interior_mutable_const)]
    const INIT: Self = Hooked(R::INIT);
    type GuardMarker = R::GuardMarker;
    #[inline] fn lock_shared(&self) { self.acq(SHARED, |r| r.lock_shared()) }
    #[inline] fn try_lock_shared(&self) -> bool { self.try_acq(SHARED, |r| r.try_lock_shared()) }
    #[inline] unsafe fn unlock_shared(&self) { self.rel(SHARED, |r| r.unlock_shared()) }
    #[inline] fn lock_exclusive(&self) { self.acq(EXCL, |r| r.lock_exclusive()) }
    #[inline] fn try_lock_exclusive(&self) -> bool { self.try_acq(EXCL, |r| r.try_lock_exclusive()) }
    #[inline] unsafe fn unlock_exclusive(&self) { self.rel(EXCL, |r| r.unlock_exclusive()) }
    #[inline] fn is_locked(&self) -> bool { self.0.is_locked() }
    #[inline] fn is_locked_exclusive(&self) -> bool { self.0.is_locked_exclusive() }
}
unsafe impl<R: RawRwLockFair> RawRwLockFair for Hooked<R> {
    #[inline] unsafe fn unlock_shared_fair(&self) { self.rel(SHARED, |r| r.unlock_shared_fair()) }
    #[inline] unsafe fn unlock_exclusive_fair(&self) { self.rel(EXCL, |r| r.unlock_exclusive_fair()) }
    #[inline] unsafe fn bump_shared(&self) { self.unlock_shared_fair(); self.lock_shared(); }
    #[inline] unsafe fn bump_exclusive(&self) { self.unlock_exclusive_fair(); self.lock_exclusive(); }
}
unsafe impl<R: RawRwLockDowngrade> RawRwLockDowngrade for Hooked<R> {
    #[inline] unsafe fn downgrade(&self) { self.chg(EXCL, SHARED, |r| r.downgrade()) }
}
unsafe impl<R: RawRwLockTimed> RawRwLockTimed for Hooked<R> {
    type Duration = R::Duration;
    type Instant = R::Instant;
    #[inline] fn try_lock_shared_for(&self, t: Self::Duration) -> bool { self.try_acq(SHARED, |r| r.try_lock_shared_for(t)) }
    #[inline] fn try_lock_shared_until(&self, t: Self::Instant) -> bool { self.try_acq(SHARED, |r| r.try_lock_shared_until(t)) }
    #[inline] fn try_lock_exclusive_for(&self, t: Self::Duration) -> bool { self.try_acq(EXCL, |r| r.try_lock_exclusive_for(t)) }
    #[inline] fn try_lock_exclusive_until(&self, t: Self::Instant) -> bool { self.try_acq(EXCL, |r| r.try_lock_exclusive_until(t)) }
}
unsafe impl<R: RawRwLockRecursive> RawRwLockRecursive for Hooked<R> {
    #[inline] fn lock_shared_recursive(&self) { self.acq(SHARED, |r| r.lock_shared_recursive()) }
    #[inline] fn try_lock_shared_recursive(&self) -> bool { self.try_acq(SHARED, |r| r.try_lock_shared_recursive()) }
}
unsafe impl<R: RawRwLockRecursiveTimed> RawRwLockRecursiveTimed for Hooked<R> {
    #[inline] fn try_lock_shared_recursive_for(&self, t: Self::Duration) -> bool { self.try_acq(SHARED, |r| r.try_lock_shared_recursive_for(t)) }
    #[inline] fn try_lock_shared_recursive_until(&self, t: Self::Instant) -> bool { self.try_acq(SHARED, |r| r.try_lock_shared_recursive_until(t)) }
}
unsafe impl<R: RawRwLockUpgrade> RawRwLockUpgrade for Hooked<R> {
    #[inline] fn lock_upgradable(&self) { self.acq(UPGRADABLE, |r| r.lock_upgradable()) }
    #[inline] fn try_lock_upgradable(&self) -> bool { self.try_acq(UPGRADABLE, |r| r.try_lock_upgradable()) }
    #[inline] unsafe fn unlock_upgradable(&self) { self.rel(UPGRADABLE, |r| r.unlock_upgradable()) }
    #[inline] unsafe fn upgrade(&self) { self.acq(UPGRADE, |r| r.upgrade()) }
    #[inline] unsafe fn try_upgrade(&self) -> bool { self.try_acq(UPGRADE, |r| r.try_upgrade()) }
}
unsafe impl<R: RawRwLockUpgradeFair> RawRwLockUpgradeFair for Hooked<R> {
    #[inline] unsafe fn unlock_upgradable_fair(&self) { self.rel(UPGRADABLE, |r| r.unlock_upgradable_fair()) }
    #[inline] unsafe fn bump_upgradable(&self) { self.unlock_upgradable_fair(); self.lock_upgradable(); }
}
unsafe impl<R: RawRwLockUpgradeDowngrade> RawRwLockUpgradeDowngrade for Hooked<R> {
    #[inline] unsafe fn downgrade_upgradable(&self) { self.chg(UPGRADABLE, SHARED, |r| r.downgrade_upgradable()) }
    #[inline] unsafe fn downgrade_to_upgradable(&self) { self.chg(EXCL, UPGRADABLE, |r| r.downgrade_to_upgradable()) }
}
unsafe impl<R: RawRwLockUpgradeTimed> RawRwLockUpgradeTimed for Hooked<R> {
    #[inline] fn try_lock_upgradable_for(&self, t: Self::Duration) -> bool { self.try_acq(UPGRADABLE, |r| r.try_lock_upgradable_for(t)) }
    #[inline] fn try_lock_upgradable_until(&self, t: Self::Instant) -> bool { self.try_acq(UPGRADABLE, |r| r.try_lock_upgradable_until(t)) }
    #[inline] unsafe fn try_upgrade_for(&self, t: Self::Duration) -> bool { self.try_acq(UPGRADE, |r| r.try_upgrade_for(t)) }
    #[inline] unsafe fn try_upgrade_until(&self, t: Self::Instant) -> bool { self.try_acq(UPGRADE, |r| r.try_upgrade_until(t)) }
}
