//! Generic multi-epoch crash explorer (DESIGN §E2): history on the real object with file I/O
//! logged → every crash image → real recovery + oracle → continue on the recovered object.
use crate::crash::{self, EnumCfg, Fs, Op as IoOp};
use crate::env;
use crate::report::ViolationRec;
use serde::{Deserialize, Serialize};
use serde_json::{json, Value};
use std::collections::{HashMap, HashSet};
use std::fmt::Debug;

pub trait Subject {
    type Op: Clone + Debug + Serialize;
    /// reference state / promises made so far
    type Model: Clone;
    type Live;
    /// property id prefix for signatures, e.g. "c10"
    fn tag(&self) -> &'static str;
    /// open (epoch 1) or recover (epoch >= 2) the real object on `dir`
    fn open(&self, dir: &str, epoch: usize) -> Result<Self::Live, String>;
    fn initial_model(&self) -> Self::Model;
    /// perform `op` on the live object; return the model after the call returned
    fn step(&self, live: &mut Self::Live, m: &Self::Model, op: &Self::Op) -> Self::Model;
    /// Recover from what is in `dir` now and check it against the promise window: `states[lo]` is
    /// the model after every acknowledged op, `states[hi]` after every started op.
    /// Ok(model to continue from) or Err((signature suffix, message)).
    fn recover_and_check(&self, dir: &str, states: &[Self::Model], lo: usize, hi: usize, epoch: usize) -> Result<Self::Model, (String, String)>;
    /// number of acknowledged ops when `returned` ops have returned
    fn acked(&self, _hist: &[Self::Op], returned: usize) -> usize {
        returned
    }
    /// whether power-loss (unsynced tail) images of this file are in scope
    fn power_loss_applies(&self, _file_name: &str) -> bool {
        true
    }
    /// short description of a model for distinct-state counting
    fn describe(&self, m: &Self::Model) -> String;
}

#[derive(Default, Serialize, Deserialize, Clone)]
pub struct Stats {
    pub histories: u64,
    pub images: u64,
    pub torn_images: u64,
    pub recoveries: u64,
    pub images_by_epoch: Vec<u64>,
    pub distinct_recovered: u64,
    pub violations: Vec<ViolationRec>,
    pub violation_total: u64,
    pub sample: Option<Value>,
}
impl Stats {
    pub fn merge(&mut self, s: Stats) {
        self.histories += s.histories;
        self.images += s.images;
        self.torn_images += s.torn_images;
        self.recoveries += s.recoveries;
        self.distinct_recovered = self.distinct_recovered.max(s.distinct_recovered);
        for (k, c) in s.images_by_epoch.iter().enumerate() {
            while self.images_by_epoch.len() <= k {
                self.images_by_epoch.push(0);
            }
            self.images_by_epoch[k] += c;
        }
        self.violation_total += s.violation_total;
        for v in s.violations {
            if self.violations.iter().filter(|x| x.signature == v.signature).count() < 3 {
                self.violations.push(v);
            }
        }
        if self.sample.is_none() {
            self.sample = s.sample;
        }
    }
    fn violation(&mut self, sig: String, msg: String, replay: Value) {
        self.violation_total += 1;
        if self.violations.iter().filter(|v| v.signature == sig).count() < 3 {
            self.violations.push(ViolationRec { signature: sig, message: msg, replay });
        }
    }
}

pub struct Explorer<'a, S: Subject> {
    pub subject: &'a S,
    pub dir: String,
    pub disk: crash::Disk,
    pub stats: Stats,
    pub seen: HashSet<String>,
    /// histories of each continuation epoch
    pub cont: Vec<Vec<Vec<S::Op>>>,
    /// epoch 1 -> 2 continues from every distinct image instead of landmark images only
    pub cont_all_first: bool,
    pub dense_limit: usize,
    pub cfg_label: Value,
    path_landmark: bool,
}

type FsKey = Vec<(String, Vec<u8>)>;

impl<'a, S: Subject> Explorer<'a, S> {
    pub fn new(subject: &'a S, dir: &str) -> Self {
        Explorer { subject, dir: dir.to_string(), disk: crash::Disk::new(dir), stats: Stats::default(), seen: HashSet::new(), cont: vec![], cont_all_first: false, dense_limit: 160, cfg_label: json!(null), path_landmark: true }
    }

    pub fn run(&mut self, first: &[S::Op]) {
        let m0 = self.subject.initial_model();
        self.path_landmark = true;
        self.epoch(&Fs::default(), &m0, first, 1, &json!(null));
    }

    fn epoch(&mut self, base: &Fs, m0: &S::Model, hist: &[S::Op], epoch_no: usize, trail: &Value) {
        let dir = self.dir.clone();
        let tag = self.subject.tag();
        let mut base = base.clone();
        for f in base.files.values_mut() {
            f.synced = f.data.len(); // whatever survived the previous crash is durable now
        }
        self.disk.set(&base, true);
        env::io_begin(&dir);
        let mut live = match self.subject.open(&dir, epoch_no) {
            Ok(l) => l,
            Err(_) => {
                env::io_end();
                return; // already reported by the previous epoch's oracle
            }
        };
        let mut states = vec![m0.clone()];
        for (k, op) in hist.iter().enumerate() {
            let next = self.subject.step(&mut live, states.last().unwrap(), op);
            env::io_mark(1, k as u64);
            states.push(next);
        }
        drop(live);
        env::io_end();
        let ops = crash::parse_log(&env::io_log());
        self.stats.histories += 1;
        if self.stats.sample.is_none() && hist.len() >= 2 && epoch_no == 1 {
            self.stats.sample = Some(json!({"cfg": self.cfg_label, "history": hist, "io_ops": ops.iter().map(|o| match o {
                IoOp::Write{path,off,data} => format!("write {}@{off}+{}", path.rsplit('/').next().unwrap(), data.len()),
                IoOp::Mark{value,..} => format!("ack op {value}"),
                other => format!("{other:?}").replace(&dir, "") }).collect::<Vec<_>>() }));
        }
        let ecfg = EnumCfg { power_loss: true, every_byte: true, dense_limit: self.dense_limit };
        let mut images: Vec<crash::Image> = vec![];
        let subject = self.subject;
        crash::enumerate(&base, &ops, &ecfg, |img| {
            if let Some(pos) = img.label.find("powerloss-") {
                let rest = &img.label[pos + 10..];
                let file = rest.split('@').next().unwrap_or("");
                if file != "all-synced" && !subject.power_loss_applies(file) {
                    return;
                }
            }
            images.push(img.clone());
        });
        while self.stats.images_by_epoch.len() < epoch_no {
            self.stats.images_by_epoch.push(0);
        }
        let n = hist.len();
        let mut continuations: Vec<(Fs, S::Model, String, bool)> = vec![];
        let mut cont_seen: HashSet<FsKey> = HashSet::new();
        let mut cache: HashMap<(FsKey, usize, usize), Result<S::Model, (String, String)>> = HashMap::new();
        for img in &images {
            self.stats.images += 1;
            self.stats.images_by_epoch[epoch_no - 1] += 1;
            if img.torn {
                self.stats.torn_images += 1;
            }
            let returned = ops[..img.ops_applied].iter().filter(|o| matches!(o, IoOp::Mark { tag: 1, .. })).count();
            let lo = self.subject.acked(hist, returned);
            let hi = (returned + 1).min(n);
            let key: FsKey = img.fs.files.iter().map(|(p, f)| (p.clone(), f.data.clone())).collect();
            let ckey = (key.clone(), lo, hi);
            if !cache.contains_key(&ckey) {
                self.disk.set(&img.fs, true);
                self.stats.recoveries += 1;
                let r = std::panic::catch_unwind(std::panic::AssertUnwindSafe(|| self.subject.recover_and_check(&dir, &states, lo, hi, epoch_no)));
                let r = match r {
                    Ok(r) => r,
                    Err(_) => Err(("recover-panics".to_string(), "recovery panicked".to_string())),
                };
                cache.insert(ckey.clone(), r);
            }
            match cache.get(&ckey).unwrap() {
                Ok(m) => {
                    self.seen.insert(self.subject.describe(m));
                    let eligible = if epoch_no == 1 && self.cont_all_first { true } else { img.landmark && self.path_landmark };
                    if epoch_no <= self.cont.len() && eligible && cont_seen.insert(key) {
                        continuations.push((img.fs.clone(), m.clone(), img.label.clone(), img.landmark));
                    }
                }
                Err((sig, msg)) => {
                    let when = if epoch_no > 1 { "after-earlier-crash" } else { "first-crash" };
                    let replay = json!({"trail": trail, "epoch": epoch_no, "cfg": self.cfg_label, "history": hist, "image": img.label, "ops_returned": returned, "acknowledged": lo});
                    self.stats.violation(format!("{tag}:{sig}:{when}"), format!("epoch {epoch_no} image {} of {hist:?}: {returned} ops returned, {lo} acknowledged: {msg}", img.label), replay);
                }
            }
        }
        if epoch_no <= self.cont.len() {
            let hists = self.cont[epoch_no - 1].clone();
            let saved = self.path_landmark;
            for (fs, m, label, landmark) in continuations {
                self.path_landmark = saved && landmark;
                let t = json!({"prev": trail, "epoch": epoch_no, "history": hist, "crashed_at": label});
                for h in &hists {
                    if !h.is_empty() {
                        self.epoch(&fs, &m, h, epoch_no + 1, &t);
                    }
                }
            }
            self.path_landmark = saved;
        }
    }
}

/// all sequences over `alpha` of length 1..=max_len
pub fn seqs<T: Clone>(alpha: &[T], max_len: usize) -> Vec<Vec<T>> {
    let mut out = vec![];
    let mut frontier: Vec<Vec<T>> = vec![vec![]];
    for _ in 0..max_len {
        let mut next = vec![];
        for s in &frontier {
            for a in alpha {
                let mut t = s.clone();
                t.push(a.clone());
                next.push(t);
            }
        }
        out.extend(next.iter().cloned());
        frontier = next;
    }
    out
}
