//! C18 — path queries return real, optimal paths (DESIGN §2 C18, engine E4).
//!
//! Bounded-exhaustive enumeration of small labelled multigraphs built in the real `GraphEngine`
//! (one engine per work unit, edges added/removed along a DFS over edge sequences/multisets), and on
//! every graph every query of a grid is compared with a brute-force reference:
//!   U : find_path (+filters), find_all_paths, find_variable_paths, traverse, neighbors, match_pattern(*min..max)
//!   W : find_weighted_path, find_all_weighted_paths, astar_path (all admissible heuristics h(x) in {0,d*(x)})
//!   D : find_all_weighted_paths on graphs with a zero-weight closed walk, one subprocess per graph
//!       with an allocation budget (a diverging call aborts the child, not the check)
//!   S : connected_components, strongly_connected_components, minimum_spanning_tree/forest,
//!       kcore_decomposition, count_triangles/clustering, biconnected_components/bridges/articulation
//!   B : the U / W / S / M batteries on graphs put into the engine through the other construction paths
//!       (batch_create_nodes + batch_create_edges; "churn": batches with decoys, batch_update_nodes, update_edge,
//!       delete_edge, create_node_with_labels hub removed by batch_delete_nodes -> delete_node)
use graph_engine::{
    AStarConfig, AllPathsConfig, BiconnectedConfig, EdgeInput, NodeInput, Pagination, Binding, CommunityConfig, Direction, Edge, EdgePattern, GraphEngine, GraphError, HeuristicFn, KCoreConfig, MstConfig, Node, NodePattern, PathPattern, Pattern,
    PropertyValue, SccConfig, TraversalFilter, TriangleConfig, VariableLengthConfig,
};
use graph_engine::CompareOp;
use nvc::Report;
use rayon::prelude::*;
use serde_json::{json, Value};
use std::alloc::{GlobalAlloc, Layout, System};
use std::collections::{BTreeMap, BTreeSet, HashMap, VecDeque};
use std::sync::atomic::{AtomicBool, AtomicIsize, AtomicUsize, Ordering};

// ------------------------------------------------------------------ allocation budget (child mode only)
struct BudgetAlloc;
static LIVE: AtomicIsize = AtomicIsize::new(0);
static LIMIT: AtomicUsize = AtomicUsize::new(0);
unsafe impl GlobalAlloc for BudgetAlloc {
    unsafe fn alloc(&self, l: Layout) -> *mut u8 {
        let lim = LIMIT.load(Ordering::Relaxed);
        if lim != 0 {
            let cur = LIVE.fetch_add(l.size() as isize, Ordering::Relaxed) + l.size() as isize;
            if cur > lim as isize {
                LIVE.fetch_sub(l.size() as isize, Ordering::Relaxed);
                return std::ptr::null_mut();
            }
        }
        System.alloc(l)
    }
    unsafe fn dealloc(&self, p: *mut u8, l: Layout) {
        if LIMIT.load(Ordering::Relaxed) != 0 {
            LIVE.fetch_sub(l.size() as isize, Ordering::Relaxed);
        }
        System.dealloc(p, l)
    }
    unsafe fn alloc_zeroed(&self, l: Layout) -> *mut u8 {
        let lim = LIMIT.load(Ordering::Relaxed);
        if lim != 0 {
            let cur = LIVE.fetch_add(l.size() as isize, Ordering::Relaxed) + l.size() as isize;
            if cur > lim as isize {
                LIVE.fetch_sub(l.size() as isize, Ordering::Relaxed);
                return std::ptr::null_mut();
            }
        }
        System.alloc_zeroed(l)
    }
    unsafe fn realloc(&self, p: *mut u8, l: Layout, new_size: usize) -> *mut u8 {
        let lim = LIMIT.load(Ordering::Relaxed);
        if lim != 0 {
            let diff = new_size as isize - l.size() as isize;
            let cur = LIVE.fetch_add(diff, Ordering::Relaxed) + diff;
            if diff > 0 && cur > lim as isize {
                LIVE.fetch_sub(diff, Ordering::Relaxed);
                return std::ptr::null_mut();
            }
        }
        System.realloc(p, l, new_size)
    }
}
#[global_allocator]
static GLOBAL: BudgetAlloc = BudgetAlloc;

/// `--selftest`: the reference claims optima that are one hop / one weight unit too small.
static SELFTEST: AtomicBool = AtomicBool::new(false);
fn selftest() -> bool {
    SELFTEST.load(Ordering::Relaxed)
}

// ------------------------------------------------------------------ labelled edges and the engine under test
#[derive(Clone, Copy, Debug, PartialEq, Eq, PartialOrd, Ord, Hash)]
struct EL {
    u: u8,
    v: u8,
    ty: u8, // 0 = "A", 1 = "B"
    w: u8,  // index into the weight alphabet
    dir: bool,
}
fn ty_str(t: u8) -> &'static str {
    if t == 0 {
        "A"
    } else {
        "B"
    }
}
fn w_prop(w: u8) -> Option<PropertyValue> {
    match w {
        0 => Some(PropertyValue::Int(0)),
        1 => Some(PropertyValue::Int(1)),
        2 => None, // property absent: documented default weight 1.0
        3 => Some(PropertyValue::Float(5.0)),
        k => Some(PropertyValue::Int(i64::from(k) - 10)), // 10+i: integer weight i (part M: distinct weights 1..m)
    }
}
fn w_num(w: u8) -> f64 {
    if w >= 10 {
        f64::from(w - 10)
    } else {
        [0.0, 1.0, 1.0, 5.0][w as usize]
    }
}
fn w_show(w: u8) -> String {
    if w >= 10 {
        format!("w={}", w - 10)
    } else {
        ["w=0", "w=1", "w absent(=1)", "w=5.0"][w as usize].to_string()
    }
}
impl EL {
    fn show(&self) -> String {
        format!("n{}{}n{} :{} {}", self.u, if self.dir { "->" } else { "--" }, self.v, ty_str(self.ty), w_show(self.w))
    }
    fn to_json(&self) -> Value {
        json!([self.u, self.v, self.ty, self.w, self.dir as u8])
    }
    fn from_json(v: &Value) -> EL {
        let a = v.as_array().expect("edge array");
        let g = |i: usize| a[i].as_u64().expect("edge field") as u8;
        EL { u: g(0), v: g(1), ty: g(2), w: g(3), dir: g(4) != 0 }
    }
}

/// How the graph under test is put into the engine. Every construction path must yield the same graph.
#[derive(Clone, Copy, Debug, PartialEq, Eq, PartialOrd, Ord)]
enum Build {
    /// create_node per node, create_edge per edge (edges removed again with delete_edge along the DFS)
    Step,
    /// batch_create_nodes (one call), all edges of the graph in one batch_create_edges call, removed with batch_delete_edges
    Batch,
    /// nodes: one batch_create_nodes call together with decoy nodes (>= 100 inputs in the `big` variant = the engine's
    /// parallel branch), idx property set afterwards through batch_update_nodes, decoys removed with batch_delete_nodes;
    /// edges: one batch_create_edges call holding the real edges (placeholder weight, corrected afterwards with
    /// update_edge incl. removal via Null), a decoy twin per real edge (removed with delete_edge) and decoy edges to a
    /// hub node made with create_node_with_labels (removed with batch_delete_nodes -> delete_node)
    Churn,
}
const ALT_BUILDS: [Build; 2] = [Build::Batch, Build::Churn];
impl Build {
    fn name(self) -> &'static str {
        match self {
            Build::Step => "create_edge",
            Build::Batch => "batch_create_edges",
            Build::Churn => "batch+update_edge+delete_edge+delete_node",
        }
    }
    fn tag(self) -> &'static str {
        match self {
            Build::Step => "step",
            Build::Batch => "batch",
            Build::Churn => "churn",
        }
    }
    fn from_tag(s: &str) -> Build {
        match s {
            "batch" => Build::Batch,
            "churn" => Build::Churn,
            _ => Build::Step,
        }
    }
}

struct Ctx {
    eng: GraphEngine,
    build: Build,
    n: usize,
    nid: Vec<u64>,
    nodes: Vec<Node>,
    nidx: HashMap<u64, usize>,
    labels: Vec<EL>,
    eids: Vec<u64>,
    edges: Vec<Edge>,
    calls: u64,
    /// (alternative builds) the engine does not hold the nodes that were requested
    node_defect: Option<String>,
}
fn node_props(idx: i64, i: usize) -> HashMap<String, PropertyValue> {
    // x/y: coordinates for astar_path_euclidean / astar_path_manhattan (node i sits at (i, 0))
    let mut p = HashMap::new();
    p.insert("idx".to_string(), PropertyValue::Int(idx));
    p.insert("x".to_string(), PropertyValue::Float(i as f64));
    p.insert("y".to_string(), PropertyValue::Int(0));
    p
}
fn edge_props(l: EL, weight: Option<PropertyValue>) -> HashMap<String, PropertyValue> {
    let mut p = HashMap::new();
    p.insert("t".to_string(), PropertyValue::String(ty_str(l.ty).to_string()));
    if let Some(w) = weight {
        p.insert("weight".to_string(), w);
    }
    p
}
impl Ctx {
    fn new(n: usize) -> Ctx {
        Ctx::with_build(n, Build::Step, false)
    }
    /// `big`: (Churn only) put >= 100 decoy nodes into the node batch so that batch_create_nodes takes its parallel branch
    fn with_build(n: usize, build: Build, big: bool) -> Ctx {
        let eng = GraphEngine::new();
        let mut calls = 0u64;
        let nid: Vec<u64> = match build {
            Build::Step => (0..n)
                .map(|i| {
                    calls += 1;
                    eng.create_node("N", node_props(i as i64, i)).expect("create_node")
                })
                .collect(),
            Build::Batch => {
                calls += 1;
                let r = eng.batch_create_nodes((0..n).map(|i| NodeInput::new(vec!["N".to_string()], node_props(i as i64, i))).collect()).expect("batch_create_nodes");
                assert!(r.count == n && r.created_ids.len() == n, "batch_create_nodes returned {} ids for {n} inputs", r.created_ids.len());
                r.created_ids
            }
            Build::Churn => {
                // decoys before, between and behind the real nodes; real nodes start with a wrong idx
                let per_gap = if big { 100 / (n + 1) + 1 } else { 1 };
                let mut inputs = vec![];
                let mut real_pos = vec![];
                let mut decoy_pos = vec![];
                for i in 0..=n {
                    for _ in 0..per_gap {
                        decoy_pos.push(inputs.len());
                        inputs.push(NodeInput::new(vec!["N".to_string(), "Decoy".to_string()], node_props(-7, 50)));
                    }
                    if i < n {
                        real_pos.push(inputs.len());
                        inputs.push(NodeInput::new(vec!["N".to_string()], node_props(50 + i as i64, i)));
                    }
                }
                let total = inputs.len();
                assert!(!big || total >= 100);
                let r = eng.batch_create_nodes(inputs).expect("batch_create_nodes");
                assert!(r.count == total && r.created_ids.len() == total, "batch_create_nodes returned {} ids for {total} inputs", r.created_ids.len());
                let nid: Vec<u64> = real_pos.iter().map(|p| r.created_ids[*p]).collect();
                let upd = nid
                    .iter()
                    .enumerate()
                    .map(|(i, id)| {
                        let mut p = HashMap::new();
                        p.insert("idx".to_string(), PropertyValue::Int(i as i64));
                        (*id, None, p)
                    })
                    .collect();
                assert_eq!(eng.batch_update_nodes(upd).expect("batch_update_nodes"), n);
                let del = eng.batch_delete_nodes(decoy_pos.iter().map(|p| r.created_ids[*p]).collect()).expect("batch_delete_nodes");
                assert!(del.failed.is_empty() && del.count == decoy_pos.len(), "batch_delete_nodes failed: {:?}", del.failed);
                calls += 3;
                nid
            }
        };
        let mut nodes = vec![];
        let mut nidx = HashMap::new();
        let mut node_defect = None;
        for (i, id) in nid.iter().enumerate() {
            let node = eng.get_node(*id).expect("get_node");
            if !(node.properties.get("idx") == Some(&PropertyValue::Int(i as i64)) && node.labels == vec!["N".to_string()]) {
                node_defect = Some(format!("node n{i} is stored as {node:?}"));
            }
            nidx.insert(*id, i);
            nodes.push(node);
        }
        if eng.node_count() != n {
            node_defect = Some(format!("node_count() = {} after building {n} node(s)", eng.node_count()));
        }
        assert!(build != Build::Step || node_defect.is_none(), "engine stored different nodes than requested: {node_defect:?}");
        calls += n as u64 + 1;
        Ctx { eng, build, n, nid, nodes, nidx, labels: vec![], eids: vec![], edges: vec![], calls, node_defect }
    }
    /// Err = the engine does not hold the edge that was requested (for the alternative builds this is reported as a violation)
    fn record(&mut self, l: EL, id: u64) -> Result<(), String> {
        self.calls += 1;
        let e = self.eng.get_edge(id).map_err(|e| format!("get_edge({id}) of the edge requested as {}: {e:?}", l.show()))?;
        if !(e.from == self.nid[l.u as usize] && e.to == self.nid[l.v as usize] && e.directed == l.dir && e.edge_type == ty_str(l.ty)) {
            return Err(format!("edge requested as {} is stored as from={} to={} directed={} type={}", l.show(), e.from, e.to, e.directed, e.edge_type));
        }
        let wp = e.properties.get("weight").cloned();
        if wp != w_prop(l.w) {
            return Err(format!("edge requested as {} is stored with weight property {wp:?}", l.show()));
        }
        self.labels.push(l);
        self.eids.push(id);
        self.edges.push(e);
        Ok(())
    }
    fn push(&mut self, l: EL) {
        assert!(self.build == Build::Step);
        let id = self.eng.create_edge(self.nid[l.u as usize], self.nid[l.v as usize], ty_str(l.ty), edge_props(l, w_prop(l.w)), l.dir).expect("create_edge");
        self.calls += 1;
        self.record(l, id).unwrap_or_else(|e| panic!("engine stored a different edge than requested: {e}"));
    }
    fn pop(&mut self) {
        assert!(self.build == Build::Step);
        let id = self.eids.pop().expect("pop");
        self.labels.pop();
        self.edges.pop();
        self.eng.delete_edge(id).expect("delete_edge");
        self.calls += 1;
    }
    /// (alternative builds) put the whole graph into the empty engine through this context's construction path
    fn load(&mut self, labels: &[EL]) -> Result<(), String> {
        assert!(self.labels.is_empty());
        let nid = self.nid.clone();
        let input = |l: &EL, w: Option<PropertyValue>| EdgeInput::new(nid[l.u as usize], nid[l.v as usize], ty_str(l.ty), edge_props(*l, w), l.dir);
        match self.build {
            Build::Step => {
                for l in labels {
                    self.push(*l);
                }
            }
            Build::Batch => {
                let r = self.eng.batch_create_edges(labels.iter().map(|l| input(l, w_prop(l.w))).collect()).expect("batch_create_edges");
                assert!(r.count == labels.len() && r.created_ids.len() == labels.len());
                self.calls += 1;
                for (l, id) in labels.iter().zip(r.created_ids) {
                    self.record(*l, id)?;
                }
            }
            Build::Churn => {
                let n = self.n;
                let hub = self.eng.create_node_with_labels(vec!["N".to_string(), "Hub".to_string()], node_props(99, 99)).expect("create_node_with_labels");
                let mut inputs = vec![];
                let mut real_pos = vec![];
                let mut twin_pos = vec![];
                let decoy = |a: u64, b: u64, ty: u8, dir: bool| EdgeInput::new(a, b, ty_str(ty), edge_props(EL { u: 0, v: 0, ty, w: 0, dir }, Some(PropertyValue::Int(0))), dir);
                // hub decoys: both directed orientations and both stored orientations of an undirected edge, per real node, and a hub self-loop
                inputs.push(decoy(hub, hub, 0, false));
                for i in 0..n {
                    inputs.push(decoy(hub, nid[i], (i % 2) as u8, true));
                    inputs.push(decoy(nid[i], hub, ((i + 1) % 2) as u8, false));
                }
                for (k, l) in labels.iter().enumerate() {
                    // a decoy twin over the same node pair, stored the other way round, of the other type and directedness
                    twin_pos.push(inputs.len());
                    inputs.push(decoy(nid[l.v as usize], nid[l.u as usize], 1 - l.ty, !l.dir));
                    real_pos.push(inputs.len());
                    inputs.push(input(l, Some(PropertyValue::Int(7))));
                    let i = k % n.max(1);
                    if n > 0 {
                        inputs.push(decoy(nid[i], hub, (k % 2) as u8, true));
                        inputs.push(decoy(hub, nid[i], ((k + 1) % 2) as u8, false));
                    }
                }
                let total = inputs.len();
                let r = self.eng.batch_create_edges(inputs).expect("batch_create_edges");
                assert!(r.count == total && r.created_ids.len() == total);
                self.calls += 2;
                for (l, p) in labels.iter().zip(&real_pos) {
                    let mut upd = HashMap::new();
                    upd.insert("weight".to_string(), w_prop(l.w).unwrap_or(PropertyValue::Null));
                    self.eng.update_edge(r.created_ids[*p], upd).expect("update_edge");
                    self.calls += 1;
                }
                for p in &twin_pos {
                    self.eng.delete_edge(r.created_ids[*p]).expect("delete_edge");
                    self.calls += 1;
                }
                let del = self.eng.batch_delete_nodes(vec![hub]).expect("batch_delete_nodes");
                assert!(del.failed.is_empty() && del.count == 1, "batch_delete_nodes(hub) failed: {:?}", del.failed);
                self.calls += 1;
                for (l, p) in labels.iter().zip(&real_pos) {
                    self.record(*l, r.created_ids[*p])?;
                }
            }
        }
        Ok(())
    }
    /// (alternative builds) back to the edgeless graph
    fn clear(&mut self) {
        match self.build {
            Build::Step => {
                while !self.labels.is_empty() {
                    self.pop();
                }
            }
            Build::Batch => {
                let ids: Vec<u64> = self.eids.drain(..).collect();
                let k = ids.len();
                let del = self.eng.batch_delete_edges(ids).expect("batch_delete_edges");
                assert!(del.failed.is_empty() && del.count == k, "batch_delete_edges failed: {:?}", del.failed);
                self.calls += 1;
            }
            Build::Churn => {
                while let Some(id) = self.eids.pop() {
                    self.eng.delete_edge(id).expect("delete_edge");
                    self.calls += 1;
                }
            }
        }
        self.labels.clear();
        self.eids.clear();
        self.edges.clear();
    }
    fn eidx(&self, id: u64) -> Option<usize> {
        self.eids.iter().position(|x| *x == id)
    }
    fn walk_ids(&self, w: &(Vec<usize>, Vec<usize>)) -> (Vec<u64>, Vec<u64>) {
        (w.0.iter().map(|x| self.nid[*x]).collect(), w.1.iter().map(|e| self.eids[*e]).collect())
    }
    /// render a walk given in engine ids with harness names (n0.., e1..)
    fn show_walk(&self, nodes: &[u64], edges: &[u64]) -> String {
        let ns: Vec<String> = nodes.iter().map(|x| self.nidx.get(x).map_or(format!("?{x}"), |i| format!("n{i}"))).collect();
        let es: Vec<String> = edges.iter().map(|x| self.eidx(*x).map_or(format!("?{x}"), |i| format!("e{}", i + 1))).collect();
        format!("nodes {ns:?} edges {es:?}")
    }
}

fn graph_json(n: usize, labels: &[EL], build: Build) -> Value {
    json!({"n": n, "build": build.tag(), "built_via": build.name(), "edges": labels.iter().map(EL::to_json).collect::<Vec<_>>(), "edges_readable": labels.iter().enumerate().map(|(i, l)| format!("e{}: {}", i + 1, l.show())).collect::<Vec<_>>()})
}

/// The graph under enumeration held in an engine through ONE construction path. With Build::Step the engine is edited
/// edge by edge along the enumeration; with the other builds the label list is kept here and the whole graph is put
/// into the (empty) engine for each check and removed again afterwards.
struct Bench {
    build: Build,
    ctx: Ctx,
    cur: Vec<EL>,
    /// engines used only to attribute a finding made on an alternative build (created when the first one occurs)
    step_ref: Option<Ctx>,
    batch_ref: Option<Ctx>,
}
impl Bench {
    fn new(n: usize, build: Build, big: bool) -> Bench {
        Bench { build, ctx: Ctx::with_build(n, build, big), cur: vec![], step_ref: None, batch_ref: None }
    }
    fn push(&mut self, l: EL) {
        if self.build == Build::Step {
            self.ctx.push(l);
        }
        self.cur.push(l);
    }
    fn pop(&mut self) {
        if self.build == Build::Step {
            self.ctx.pop();
        }
        self.cur.pop();
    }
    fn len(&self) -> usize {
        self.cur.len()
    }
    fn calls(&self) -> u64 {
        self.ctx.calls + self.step_ref.as_ref().map_or(0, |c| c.calls) + self.batch_ref.as_ref().map_or(0, |c| c.calls)
    }
}

// ------------------------------------------------------------------ reference model
#[derive(Clone, Copy, PartialEq, Eq, Debug)]
enum Mode {
    Out,
    In,
    Both,
}
impl Mode {
    fn dir(self) -> Direction {
        match self {
            Mode::Out => Direction::Outgoing,
            Mode::In => Direction::Incoming,
            Mode::Both => Direction::Both,
        }
    }
}
const MODES: [Mode; 3] = [Mode::Out, Mode::In, Mode::Both];

#[derive(Clone, Copy, Debug)]
struct Arc {
    f: usize,
    t: usize,
    e: usize,
}
/// every way one hop can be taken: a directed edge from→to (Out), to→from (In), either (Both);
/// an undirected edge either way in every mode; a self-loop is one arc.
fn arcs(labels: &[EL], mode: Mode, eok: &[bool]) -> Vec<Arc> {
    let mut out = vec![];
    for (e, l) in labels.iter().enumerate() {
        if !eok[e] {
            continue;
        }
        let (u, v) = (l.u as usize, l.v as usize);
        if u == v {
            out.push(Arc { f: u, t: u, e });
            continue;
        }
        let fwd = !l.dir || mode != Mode::In;
        let bwd = !l.dir || mode != Mode::Out;
        if fwd {
            out.push(Arc { f: u, t: v, e });
        }
        if bwd {
            out.push(Arc { f: v, t: u, e });
        }
    }
    out
}
fn bfs(n: usize, arcs: &[Arc], from: usize, enter_ok: &dyn Fn(usize) -> bool) -> Vec<Option<usize>> {
    let mut d = vec![None; n];
    d[from] = Some(0);
    let mut q = VecDeque::new();
    q.push_back(from);
    while let Some(x) = q.pop_front() {
        for a in arcs.iter().filter(|a| a.f == x) {
            if d[a.t].is_none() && enter_ok(a.t) {
                d[a.t] = Some(d[x].unwrap() + 1);
                q.push_back(a.t);
            }
        }
    }
    d
}
type WalkIdx = (Vec<usize>, Vec<usize>);
/// all walks from `from` (ending at `to` if given) with minl <= hops <= maxl; `simple` = no node twice
fn enum_walks(arcs: &[Arc], from: usize, to: Option<usize>, minl: usize, maxl: usize, simple: bool, enter_ok: &dyn Fn(usize) -> bool) -> BTreeSet<WalkIdx> {
    fn rec(arcs: &[Arc], to: Option<usize>, minl: usize, maxl: usize, simple: bool, enter_ok: &dyn Fn(usize) -> bool, ns: &mut Vec<usize>, es: &mut Vec<usize>, out: &mut BTreeSet<WalkIdx>) {
        let cur = *ns.last().unwrap();
        if es.len() >= minl && to.map_or(true, |t| t == cur) {
            out.insert((ns.clone(), es.clone()));
        }
        if es.len() >= maxl {
            return;
        }
        for a in arcs.iter().filter(|a| a.f == cur) {
            if simple && ns.contains(&a.t) {
                continue;
            }
            if !enter_ok(a.t) {
                continue;
            }
            ns.push(a.t);
            es.push(a.e);
            rec(arcs, to, minl, maxl, simple, enter_ok, ns, es, out);
            ns.pop();
            es.pop();
        }
    }
    let mut out = BTreeSet::new();
    rec(arcs, to, minl, maxl, simple, enter_ok, &mut vec![from], &mut vec![], &mut out);
    out
}
/// Bellman-Ford distances (non-negative weights), f64::INFINITY = unreachable
fn bellman(n: usize, arcs: &[Arc], w: &[f64], from: usize) -> Vec<f64> {
    let mut d = vec![f64::INFINITY; n];
    d[from] = 0.0;
    for _ in 0..n {
        for a in arcs {
            if d[a.f] + w[a.e] < d[a.t] {
                d[a.t] = d[a.f] + w[a.e];
            }
        }
    }
    d
}
/// is there a closed walk with >= 1 hop and total weight 0 (in the Out sense)?
fn zero_closed_walk(n: usize, labels: &[EL]) -> bool {
    let all = vec![true; labels.len()];
    let za: Vec<Arc> = arcs(labels, Mode::Out, &all).into_iter().filter(|a| w_num(labels[a.e].w) == 0.0).collect();
    let mut r = vec![vec![false; n]; n];
    for a in &za {
        r[a.f][a.t] = true;
    }
    for k in 0..n {
        for i in 0..n {
            for j in 0..n {
                if r[i][k] && r[k][j] {
                    r[i][j] = true;
                }
            }
        }
    }
    (0..n).any(|i| r[i][i])
}
/// None = the (nodes, edges) pair is a walk over `arcs`; Some(reason) otherwise
fn walk_defect(ctx: &Ctx, arcs: &[Arc], nodes: &[u64], edges: &[u64]) -> Option<String> {
    if nodes.is_empty() || nodes.len() != edges.len() + 1 {
        return Some(format!("{} nodes but {} edges", nodes.len(), edges.len()));
    }
    for i in 0..edges.len() {
        let (Some(&a), Some(&b)) = (ctx.nidx.get(&nodes[i]), ctx.nidx.get(&nodes[i + 1])) else { return Some(format!("unknown node id at step {i}")) };
        let Some(e) = ctx.eidx(edges[i]) else { return Some(format!("step {i}: edge id {} is not an edge of the graph", edges[i])) };
        if !arcs.iter().any(|x| x.f == a && x.t == b && x.e == e) {
            return Some(format!("step {i}: edge e{} ({}) cannot be taken from n{a} to n{b} under the requested direction/filter", e + 1, ctx.labels[e].show()));
        }
    }
    None
}

// ------------------------------------------------------------------ result accumulation
#[derive(Clone)]
struct Art {
    size: (usize, usize), // (edges, nodes) — smallest artefacts are kept
    msg: String,
    replay: Value,
}
#[derive(Default)]
struct Acc {
    c: BTreeMap<&'static str, u64>,
    sig_cases: BTreeMap<String, u64>,
    sig_graphs: BTreeMap<String, u64>,
    arts: BTreeMap<String, Vec<Art>>,
    samples: Vec<Value>,
}
impl Acc {
    fn inc(&mut self, k: &'static str, n: u64) {
        *self.c.entry(k).or_insert(0) += n;
    }
    fn merge(&mut self, o: Acc) {
        for (k, v) in o.c {
            *self.c.entry(k).or_insert(0) += v;
        }
        for (k, v) in o.sig_cases {
            *self.sig_cases.entry(k).or_insert(0) += v;
        }
        for (k, v) in o.sig_graphs {
            *self.sig_graphs.entry(k).or_insert(0) += v;
        }
        for (k, v) in o.arts {
            let e = self.arts.entry(k).or_default();
            e.extend(v);
            e.sort_by_key(|a| a.size); // stable: earlier units first among equals
            e.truncate(3);
        }
        if self.samples.len() < 2 {
            self.samples.extend(o.samples);
            self.samples.truncate(2);
        }
    }
}
/// violations of one graph: first (simplest) query per signature + number of violating queries
#[derive(Default)]
struct GV {
    m: BTreeMap<String, (u64, String, Value)>,
}
impl GV {
    fn add(&mut self, sig: &str, f: impl FnOnce() -> (String, Value)) {
        if let Some(e) = self.m.get_mut(sig) {
            e.0 += 1;
        } else {
            let (msg, q) = f();
            self.m.insert(sig.to_string(), (1, msg, q));
        }
    }
    fn flush(self, part: &str, n: usize, labels: &[EL], build: Build, acc: &mut Acc) {
        for (sig, (cnt, msg, q)) in self.m {
            *acc.sig_cases.entry(sig.clone()).or_insert(0) += cnt;
            *acc.sig_graphs.entry(sig.clone()).or_insert(0) += 1;
            let e = acc.arts.entry(sig).or_default();
            let size = (labels.len(), n);
            if e.len() < 3 || size < e.last().unwrap().size {
                let mut g = graph_json(n, labels, build);
                g["part"] = json!(part);
                g["query"] = q;
                let via = if build == Build::Step { String::new() } else { format!("; built via {}", build.name()) };
                e.push(Art { size, msg: format!("{msg}  [graph: {n} node(s); {}{via}]", labels.iter().enumerate().map(|(i, l)| format!("e{}: {}", i + 1, l.show())).collect::<Vec<_>>().join(", ")), replay: g });
                e.sort_by_key(|a| a.size);
                e.truncate(3);
            }
        }
    }
}

// ------------------------------------------------------------------ filters
#[derive(Clone, Copy, Debug)]
struct FSpec {
    ef: u8, // 0 none, 1: t == "A", 2: t != "A"
    nf: i8, // -1 none, j >= 0: idx != j (blocks node j), 100: idx < 0 (blocks every node)
}
impl FSpec {
    fn build(self) -> Option<TraversalFilter> {
        if self.ef == 0 && self.nf == -1 {
            return None;
        }
        let mut f = TraversalFilter::new();
        match self.ef {
            1 => f = f.edge_eq("t", PropertyValue::String("A".into())),
            2 => f = f.edge_ne("t", PropertyValue::String("A".into())),
            _ => {}
        }
        match self.nf {
            -1 => {}
            100 => f = f.node_where("idx", CompareOp::Lt, PropertyValue::Int(0)),
            j => f = f.node_ne("idx", PropertyValue::Int(j as i64)),
        }
        Some(f)
    }
    fn show(self) -> String {
        let e = ["", "edge.t == 'A'", "edge.t != 'A'"][self.ef as usize];
        let n = match self.nf {
            -1 => String::new(),
            100 => "node.idx < 0".to_string(),
            j => format!("node.idx != {j}"),
        };
        match (e.is_empty(), n.is_empty()) {
            (true, true) => "none".into(),
            (false, true) => e.into(),
            (true, false) => n,
            _ => format!("{e} AND {n}"),
        }
    }
    /// which edges / nodes the engine's own predicate evaluation lets through
    fn allowed(self, ctx: &Ctx) -> (Vec<bool>, Vec<bool>) {
        match self.build() {
            None => (vec![true; ctx.edges.len()], vec![true; ctx.n]),
            Some(f) => (ctx.edges.iter().map(|e| f.matches_edge(e)).collect(), ctx.nodes.iter().map(|x| f.matches_node(x)).collect()),
        }
    }
}
fn type_ok(ctx: &Ctx, ty: Option<u8>) -> Vec<bool> {
    ctx.labels.iter().map(|l| ty.map_or(true, |t| l.ty == t)).collect()
}
fn and(a: &[bool], b: &[bool]) -> Vec<bool> {
    a.iter().zip(b).map(|(x, y)| *x && *y).collect()
}

struct Params {
    /// largest hop bound used for variable-length queries
    hops: usize,
    /// (min,max) hop ranges
    ranges: Vec<(usize, usize)>,
    type_filters: Vec<Option<u8>>,
    /// directions used by find_variable_paths / match_pattern
    var_modes: Vec<Mode>,
    /// directions used by astar_path
    astar_modes: Vec<Mode>,
    /// edge-property filters worth asking (with one edge type they all degenerate)
    two_types: bool,
    /// W: the full grid (true: astar with every h in {0,d*}^n, the option variants of astar / find_weighted_path /
    /// find_all_weighted_paths) or the reduced one of the large multiset spaces (false: astar with h=0 and h=d* only)
    h_full: bool,
    /// S: also call the thin wrappers (articulation_points, bridges, is_biconnected, is_strongly_connected, kcore_subgraph,
    /// degeneracy, global_clustering_coefficient) and minimum_spanning_tree with a non-default weight property / default weight
    wrappers: bool,
}

// ------------------------------------------------------------------ part U : unweighted path queries
fn judge_path(ctx: &Ctx, res: &Result<graph_engine::Path, GraphError>, ar: &[Arc], from: usize, to: usize, nok: &[bool]) -> Result<(), (&'static str, String)> {
    let expected = if from == to { Some(0) } else { bfs(ctx.n, ar, from, &|x| x == to || nok[x])[to] };
    let expected = if selftest() { expected.map(|d| if d >= 2 { d - 1 } else { d }) } else { expected };
    match res {
        Err(GraphError::PathNotFound) => match expected {
            None => Ok(()),
            Some(d) => Err(("missed-path", format!("PathNotFound but a qualifying path of {d} hop(s) exists"))),
        },
        Err(e) => Err(("unexpected-error", format!("{e:?}"))),
        Ok(p) => {
            if p.nodes.first() != Some(&ctx.nid[from]) || p.nodes.last() != Some(&ctx.nid[to]) {
                return Err(("not-a-walk", format!("returned {} does not run from n{from} to n{to}", ctx.show_walk(&p.nodes, &p.edges))));
            }
            if let Some(why) = walk_defect(ctx, ar, &p.nodes, &p.edges) {
                return Err(("not-a-walk", format!("returned {}: {why}", ctx.show_walk(&p.nodes, &p.edges))));
            }
            for x in &p.nodes[1..p.nodes.len().max(2) - 1] {
                let i = ctx.nidx[x];
                if i != to && !nok[i] {
                    return Err(("node-filter-ignored", format!("returned {} passes through n{i} which the node filter rejects", ctx.show_walk(&p.nodes, &p.edges))));
                }
            }
            match expected {
                None => Err(("reference-unreachable", "harness: valid walk returned but reference says unreachable".into())),
                Some(d) if p.edges.len() > d => Err(("not-shortest", format!("returned {} has {} hops, a qualifying path with {d} hop(s) exists", ctx.show_walk(&p.nodes, &p.edges), p.edges.len()))),
                Some(d) if p.edges.len() < d => Err(("reference-longer", "harness: returned valid walk shorter than reference optimum".into())),
                _ => Ok(()),
            }
        }
    }
}

fn check_u(ctx: &mut Ctx, p: &Params, acc: &mut Acc, gv: &mut GV) {
    let n = ctx.n;
    let all = vec![true; ctx.labels.len()];
    // ---- find_path with every filter
    let mut nfs: Vec<i8> = vec![-1];
    nfs.extend((0..n as i8).into_iter());
    nfs.push(100);
    for ef in 0..(if p.two_types { 3u8 } else { 1 }) {
        for &nf in &nfs {
            let fs = FSpec { ef, nf };
            let filter = fs.build();
            let (eok, nok) = fs.allowed(ctx);
            let ar_d = arcs(&ctx.labels, Mode::Out, &eok);
            let ar_u = arcs(&ctx.labels, Mode::Both, &eok);
            for from in 0..n {
                for to in 0..n {
                    let res = ctx.eng.find_path(ctx.nid[from], ctx.nid[to], filter.as_ref());
                    ctx.calls += 1;
                    acc.inc("find_path.queries", 1);
                    if let Ok(pp) = &res {
                        if pp.edges.len() >= 2 {
                            acc.inc("nontrivial", 1);
                        }
                    } else {
                        acc.inc("find_path.no_path_answers", 1);
                    }
                    if let Err((kind, why)) = judge_path(ctx, &res, &ar_d, from, to, &nok) {
                        let q = json!({"call": "find_path", "from": from, "to": to, "filter": fs.show()});
                        if kind.starts_with("reference") {
                            gv.add("c18:harness:reference-inconsistent", || (why.clone(), q.clone()));
                        } else if judge_path(ctx, &res, &ar_u, from, to, &nok).is_ok() {
                            gv.add("c18:find_path:ignores-edge-direction", || (format!("find_path(n{from}, n{to}, filter {}) = {}: {why}; the answer is only correct if every directed edge may also be walked backwards", fs.show(), show_path_res(ctx, &res)), q));
                        } else {
                            gv.add(&format!("c18:find_path:{kind}"), || (format!("find_path(n{from}, n{to}, filter {}): {why}", fs.show()), q));
                        }
                    }
                }
            }
        }
    }
    // ---- find_all_paths
    let ar = arcs(&ctx.labels, Mode::Out, &all);
    for from in 0..n {
        let dist = bfs(n, &ar, from, &|_| true);
        for to in 0..n {
            let res = ctx.eng.find_all_paths(ctx.nid[from], ctx.nid[to], None);
            ctx.calls += 1;
            acc.inc("find_all_paths.queries", 1);
            let q = json!({"call": "find_all_paths", "from": from, "to": to});
            match (dist[to], res) {
                (None, Err(GraphError::PathNotFound)) => {}
                (None, Err(e)) => gv.add("c18:find_all_paths:unexpected-error", || (format!("{e:?}"), q)),
                (None, Ok(r)) => gv.add("c18:find_all_paths:phantom-path", || (format!("find_all_paths(n{from}, n{to}) returned {} path(s) but n{to} is unreachable along edge directions", r.paths.len()), q)),
                (Some(d), Err(e)) => gv.add("c18:find_all_paths:missed-path", || (format!("find_all_paths(n{from}, n{to}) = {e:?} but a {d}-hop path exists"), q)),
                (Some(d), Ok(r)) => {
                    let exp: BTreeSet<(Vec<u64>, Vec<u64>)> = enum_walks(&ar, from, Some(to), d, d, false, &|_| true).iter().map(|w| ctx.walk_ids(w)).collect();
                    let got: BTreeSet<(Vec<u64>, Vec<u64>)> = r.paths.iter().map(|x| (x.nodes.clone(), x.edges.clone())).collect();
                    if exp.len() >= 2 {
                        acc.inc("nontrivial", 1);
                    }
                    // capped variant (max_paths 1, max_parents_per_node 1): whatever comes back must be shortest paths, and not nothing
                    if from != to && ctx.labels.len() <= 3 {
                        let capped = ctx.eng.find_all_paths(ctx.nid[from], ctx.nid[to], Some(AllPathsConfig { max_paths: 1, max_parents_per_node: 1 }));
                        ctx.calls += 1;
                        acc.inc("find_all_paths(capped).queries", 1);
                        let qc = json!({"call": "find_all_paths", "from": from, "to": to, "config": {"max_paths": 1, "max_parents_per_node": 1}});
                        match capped {
                            Err(e) => gv.add("c18:find_all_paths:capped:missed-path", || (format!("find_all_paths(n{from}, n{to}, max_paths=1, max_parents_per_node=1) = {e:?} but a {d}-hop path exists"), qc)),
                            Ok(rc) => {
                                if rc.paths.is_empty() || rc.hop_count != d {
                                    gv.add("c18:find_all_paths:capped:missed-path", || (format!("find_all_paths(n{from}, n{to}, max_paths=1, max_parents_per_node=1) returned {} path(s), hop_count {} but a {d}-hop path exists", rc.paths.len(), rc.hop_count), qc.clone()));
                                }
                                if let Some(x) = rc.paths.iter().find(|x| !exp.contains(&(x.nodes.clone(), x.edges.clone()))) {
                                    gv.add("c18:find_all_paths:capped:extra-path", || (format!("find_all_paths(n{from}, n{to}, max_paths=1, max_parents_per_node=1) returns {} which is not a shortest directed walk ({d} hops)", ctx.show_walk(&x.nodes, &x.edges)), qc.clone()));
                                }
                            }
                        }
                    }
                    if got.len() != r.paths.len() {
                        acc.inc("find_all_paths.answers_with_duplicates(info)", 1);
                    }
                    if r.hop_count != d {
                        gv.add("c18:find_all_paths:hop-count", || (format!("find_all_paths(n{from}, n{to}).hop_count = {} but the shortest path has {d} hop(s)", r.hop_count), q.clone()));
                    }
                    if let Some(m) = exp.difference(&got).next() {
                        gv.add("c18:find_all_paths:missing-path", || (format!("find_all_paths(n{from}, n{to}) misses the shortest path {} ({} of {} returned)", ctx.show_walk(&m.0, &m.1), got.len(), exp.len()), q.clone()));
                    }
                    if let Some(x) = got.difference(&exp).next() {
                        gv.add("c18:find_all_paths:extra-path", || (format!("find_all_paths(n{from}, n{to}) returns {} which is not a shortest directed walk ({d} hops)", ctx.show_walk(&x.0, &x.1)), q.clone()));
                    }
                }
            }
        }
    }
    // ---- find_variable_paths
    for &mode in &p.var_modes {
        for &ty in &p.type_filters {
            let tok = type_ok(ctx, ty);
            for cyc in [false, true] {
                // filters: none, an edge filter, and (simple paths only) each node filter
                let mut fss = vec![FSpec { ef: 0, nf: -1 }];
                if ty.is_none() {
                    if p.two_types {
                        fss.push(FSpec { ef: 2, nf: -1 });
                    }
                    if !cyc && mode == Mode::Out {
                        for j in 0..n as i8 {
                            fss.push(FSpec { ef: 0, nf: j });
                        }
                    }
                }
                for fs in fss {
                    let (eok, nok) = fs.allowed(ctx);
                    let ar = arcs(&ctx.labels, mode, &and(&eok, &tok));
                    let ranges: &[(usize, usize)] = if fs.ef == 0 && fs.nf == -1 { &p.ranges } else { &[(0, p.hops)] };
                    for from in 0..n {
                        for to in 0..n {
                            let enter = |x: usize| x == to || nok[x];
                            let full = enum_walks(&ar, from, Some(to), 0, p.hops, !cyc, &enter);
                            if fs.ef == 0 && fs.nf == -1 && !cyc && ctx.labels.len() <= 3 {
                                // option variants (graphs with <= 3 edges), widest range only: (a) both edge types listed = no type restriction, (b) max_paths = 1
                                let exp: BTreeSet<(Vec<u64>, Vec<u64>)> = full.iter().map(|w| ctx.walk_ids(w)).collect();
                                if ty.is_none() && p.two_types && mode == Mode::Out {
                                    let cfg = VariableLengthConfig::with_hops(0, p.hops).direction(mode.dir()).edge_types(&["A", "B"]).max_paths(usize::MAX);
                                    let res = ctx.eng.find_variable_paths(ctx.nid[from], ctx.nid[to], cfg);
                                    ctx.calls += 1;
                                    acc.inc("find_variable_paths(edge_types=[A,B]).queries", 1);
                                    let q = json!({"call": "find_variable_paths", "from": from, "to": to, "min_hops": 0, "max_hops": p.hops, "direction": format!("{mode:?}"), "edge_types": ["A", "B"], "allow_cycles": false});
                                    match res {
                                        Ok(r) if !r.stats.truncated => {
                                            let got: BTreeSet<(Vec<u64>, Vec<u64>)> = r.paths.iter().map(|x| (x.nodes.clone(), x.edges.clone())).collect();
                                            if got != exp {
                                                gv.add("c18:find_variable_paths:edge-types-list:wrong-path-set", || (format!("find_variable_paths(n{from}, n{to}, hops 0..={}, {mode:?}, edge_types [A,B]) returns {} path(s), expected {} (every edge has type A or B)", p.hops, got.len(), exp.len()), q));
                                            }
                                        }
                                        Ok(_) => {}
                                        Err(e) => gv.add("c18:find_variable_paths:unexpected-error", || (format!("{e:?}"), q)),
                                    }
                                }
                                let mut cfg = VariableLengthConfig::with_hops(0, p.hops).direction(mode.dir()).max_paths(1);
                                if let Some(t) = ty {
                                    cfg = cfg.edge_type(ty_str(t));
                                }
                                let res = ctx.eng.find_variable_paths(ctx.nid[from], ctx.nid[to], cfg);
                                ctx.calls += 1;
                                acc.inc("find_variable_paths(max_paths=1).queries", 1);
                                let q = json!({"call": "find_variable_paths", "from": from, "to": to, "min_hops": 0, "max_hops": p.hops, "direction": format!("{mode:?}"), "edge_type": ty.map(ty_str), "allow_cycles": false, "max_paths": 1});
                                match res {
                                    Ok(r) => {
                                        if r.paths.is_empty() && !exp.is_empty() {
                                            gv.add("c18:find_variable_paths:capped:missing-path", || (format!("find_variable_paths(n{from}, n{to}, hops 0..={}, {mode:?}, type {:?}, max_paths=1) returns nothing although {} qualifying path(s) exist", p.hops, ty.map(ty_str), exp.len()), q.clone()));
                                        }
                                        if let Some(x) = r.paths.iter().find(|x| !exp.contains(&(x.nodes.clone(), x.edges.clone()))) {
                                            gv.add("c18:find_variable_paths:capped:extra-path", || (format!("find_variable_paths(n{from}, n{to}, hops 0..={}, {mode:?}, type {:?}, max_paths=1) returns {} which is not a qualifying simple walk", p.hops, ty.map(ty_str), ctx.show_walk(&x.nodes, &x.edges)), q.clone()));
                                        }
                                    }
                                    Err(e) => gv.add("c18:find_variable_paths:unexpected-error", || (format!("{e:?}"), q)),
                                }
                            }
                            for &(lo, hi) in ranges {
                                let mut cfg = VariableLengthConfig::with_hops(lo, hi).direction(mode.dir()).allow_cycles(cyc).max_paths(usize::MAX);
                                if let Some(t) = ty {
                                    cfg = cfg.edge_type(ty_str(t));
                                }
                                if let Some(f) = fs.build() {
                                    cfg = cfg.with_filter(f);
                                }
                                let res = ctx.eng.find_variable_paths(ctx.nid[from], ctx.nid[to], cfg);
                                ctx.calls += 1;
                                acc.inc("find_variable_paths.queries", 1);
                                let q = json!({"call": "find_variable_paths", "from": from, "to": to, "min_hops": lo, "max_hops": hi, "direction": format!("{mode:?}"), "edge_type": ty.map(ty_str), "allow_cycles": cyc, "filter": fs.show()});
                                let r = match res {
                                    Ok(r) => r,
                                    Err(e) => {
                                        gv.add("c18:find_variable_paths:unexpected-error", || (format!("{e:?}"), q));
                                        continue;
                                    }
                                };
                                if r.stats.truncated {
                                    acc.inc("find_variable_paths.truncated(skipped)", 1);
                                    continue;
                                }
                                let exp: BTreeSet<(Vec<u64>, Vec<u64>)> = full.iter().filter(|w| w.1.len() >= lo && w.1.len() <= hi).map(|w| ctx.walk_ids(w)).collect();
                                let got: BTreeSet<(Vec<u64>, Vec<u64>)> = r.paths.iter().map(|x| (x.nodes.clone(), x.edges.clone())).collect();
                                if exp.len() >= 2 {
                                    acc.inc("nontrivial", 1);
                                }
                                if got.len() != r.paths.len() {
                                    acc.inc("find_variable_paths.answers_with_duplicates(info)", 1);
                                }
                                let desc = format!("find_variable_paths(n{from}, n{to}, hops {lo}..={hi}, {mode:?}, type {:?}, allow_cycles={cyc}, filter {})", ty.map(ty_str), fs.show());
                                if let Some(m) = exp.difference(&got).next() {
                                    gv.add("c18:find_variable_paths:missing-path", || (format!("{desc} misses {} ({} returned, {} expected)", ctx.show_walk(&m.0, &m.1), got.len(), exp.len()), q.clone()));
                                }
                                if let Some(x) = got.difference(&exp).next() {
                                    let kind = if walk_defect(ctx, &ar, &x.0, &x.1).is_some() {
                                        "not-a-walk"
                                    } else if x.1.len() < lo || x.1.len() > hi {
                                        "outside-hop-bounds"
                                    } else {
                                        "not-qualifying"
                                    };
                                    gv.add(&format!("c18:find_variable_paths:extra-path:{kind}"), || (format!("{desc} returns {} ({kind})", ctx.show_walk(&x.0, &x.1)), q.clone()));
                                }
                            }
                        }
                    }
                }
            }
        }
    }
    // ---- traverse and neighbors
    for mode in MODES {
        for &ty in &p.type_filters {
            let tok = type_ok(ctx, ty);
            let mut fss = vec![FSpec { ef: 0, nf: -1 }];
            if ty.is_none() {
                if p.two_types {
                    fss.push(FSpec { ef: 1, nf: -1 });
                }
                for j in 0..n as i8 {
                    fss.push(FSpec { ef: 0, nf: j });
                }
            }
            for fs in fss {
                let (eok, nok) = fs.allowed(ctx);
                let ar = arcs(&ctx.labels, mode, &and(&eok, &tok));
                let filter = fs.build();
                for start in 0..n {
                    // neighbors
                    let exp: BTreeSet<u64> = ar.iter().filter(|a| a.f == start && a.t != start && nok[a.t]).map(|a| ctx.nid[a.t]).collect();
                    let res = ctx.eng.neighbors(ctx.nid[start], ty.map(ty_str), mode.dir(), filter.as_ref());
                    ctx.calls += 1;
                    acc.inc("neighbors.queries", 1);
                    let q = json!({"call": "neighbors", "node": start, "direction": format!("{mode:?}"), "edge_type": ty.map(ty_str), "filter": fs.show()});
                    match res {
                        Ok(v) => {
                            let got: BTreeSet<u64> = v.iter().map(|x| x.id).collect();
                            if got != exp || got.len() != v.len() {
                                gv.add("c18:neighbors:wrong-node-set", || (format!("neighbors(n{start}, type {:?}, {mode:?}, filter {}) = {:?}, expected {:?} (engine ids)", ty.map(ty_str), fs.show(), v.iter().map(|x| x.id).collect::<Vec<_>>(), exp), q));
                            }
                        }
                        Err(e) => gv.add("c18:neighbors:unexpected-error", || (format!("{e:?}"), q)),
                    }
                    // neighbors_paginated, one page that holds everything (asked without property filter and with the first node filter)
                    if fs.ef == 0 && fs.nf <= 0 && ctx.labels.len() <= 3 {
                        let res = ctx.eng.neighbors_paginated(ctx.nid[start], ty.map(ty_str), mode.dir(), filter.as_ref(), Pagination::new(0, 1000));
                        ctx.calls += 1;
                        acc.inc("neighbors_paginated.queries", 1);
                        let q = json!({"call": "neighbors_paginated", "node": start, "direction": format!("{mode:?}"), "edge_type": ty.map(ty_str), "filter": fs.show(), "skip": 0, "limit": 1000});
                        match res {
                            Ok(pg) => {
                                let got: BTreeSet<u64> = pg.items.iter().map(|x| x.id).collect();
                                if got != exp || got.len() != pg.items.len() || pg.has_more {
                                    gv.add("c18:neighbors_paginated:wrong-node-set", || (format!("neighbors_paginated(n{start}, type {:?}, {mode:?}, filter {}, skip 0, limit 1000) = {:?} (has_more {}), expected {:?} (engine ids)", ty.map(ty_str), fs.show(), pg.items.iter().map(|x| x.id).collect::<Vec<_>>(), pg.has_more, exp), q));
                                }
                            }
                            Err(e) => gv.add("c18:neighbors_paginated:unexpected-error", || (format!("{e:?}"), q)),
                        }
                    }
                    // traverse
                    let d_all = bfs(n, &ar, start, &|_| true);
                    let d_blk = bfs(n, &ar, start, &|x| nok[x]);
                    for depth in 0..=n {
                        let res = ctx.eng.traverse(ctx.nid[start], mode.dir(), depth, ty.map(ty_str), filter.as_ref());
                        ctx.calls += 1;
                        acc.inc("traverse.queries", 1);
                        let q = json!({"call": "traverse", "start": start, "direction": format!("{mode:?}"), "max_depth": depth, "edge_type": ty.map(ty_str), "filter": fs.show()});
                        let v = match res {
                            Ok(v) => v,
                            Err(e) => {
                                gv.add("c18:traverse:unexpected-error", || (format!("{e:?}"), q));
                                continue;
                            }
                        };
                        let got: BTreeSet<usize> = v.iter().filter_map(|x| ctx.nidx.get(&x.id).copied()).collect();
                        // A: rejected nodes are walked through but not reported; B: rejected nodes block
                        let exp_a: BTreeSet<usize> = (0..n).filter(|&x| d_all[x].is_some_and(|d| d <= depth) && (x == start || nok[x])).collect();
                        let exp_b: BTreeSet<usize> = (0..n).filter(|&x| d_blk[x].is_some_and(|d| d <= depth)).collect();
                        if exp_a.len() >= 3 {
                            acc.inc("nontrivial", 1);
                        }
                        if got.len() != v.len() || (got != exp_a && got != exp_b) {
                            gv.add("c18:traverse:wrong-node-set", || (format!("traverse(n{start}, {mode:?}, depth {depth}, type {:?}, filter {}) = nodes {got:?} ({} entries), expected {exp_a:?}{}", ty.map(ty_str), fs.show(), v.len(), if exp_a != exp_b { format!(" (or {exp_b:?} if rejected nodes block)") } else { String::new() }), q));
                        } else if exp_a != exp_b {
                            acc.inc(if got == exp_a { "traverse.node_filter_semantics=report-only(info)" } else { "traverse.node_filter_semantics=blocking(info)" }, 1);
                        }
                    }
                }
            }
        }
    }
    // ---- match_pattern with a variable-length edge
    for &mode in &p.var_modes {
        for &ty in &p.type_filters {
            let ar = arcs(&ctx.labels, mode, &type_ok(ctx, ty));
            for start in 0..n {
                // ---- fixed one-hop pattern (s)-[e]-(t): exactly the hops that can be taken from s (graphs with <= 3 edges)
                if ctx.labels.len() <= 3 {
                    let mk_ep = || {
                        let mut ep = EdgePattern::new().variable("e").direction(mode.dir());
                        if let Some(t) = ty {
                            ep = ep.edge_type(ty_str(t));
                        }
                        ep
                    };
                    let sp = || NodePattern::new().variable("s").where_eq("idx", PropertyValue::Int(start as i64));
                    let pat = Pattern::new(PathPattern::new(sp(), mk_ep(), NodePattern::new().variable("t"))).limit(1_000_000);
                    let exp: BTreeSet<(u64, u64)> = ar.iter().filter(|a| a.f == start).map(|a| (ctx.eids[a.e], ctx.nid[a.t])).collect();
                    let desc = format!("match (s idx={start})-[e{} {mode:?}]-(t)", ty.map_or(String::new(), |t| format!(":{}", ty_str(t))));
                    let q = json!({"call": "match_pattern", "pattern": format!("(s {{idx:{start}}})-[e{}]-(t)", ty.map_or(String::new(), |t| format!(":{}", ty_str(t)))), "direction": format!("{mode:?}")});
                    // match_simple / count_pattern_matches / pattern_exists are thin wrappers: asked for the plain outgoing pattern only
                    let wrappers = mode == Mode::Out && ty.is_none();
                    acc.inc("match_pattern(one hop).queries", if wrappers { 4 } else { 1 });
                    ctx.calls += if wrappers { 4 } else { 1 };
                    let mut results = vec![ctx.eng.match_pattern(&pat)];
                    if wrappers {
                        results.push(ctx.eng.match_simple(sp(), mk_ep(), NodePattern::new().variable("t")));
                    }
                    for (which, res) in ["match_pattern", "match_simple"].iter().zip(results) {
                        match res {
                            Ok(r) => {
                                let mut got: BTreeSet<(u64, u64)> = BTreeSet::new();
                                let mut bad = false;
                                for m in &r.matches {
                                    match (m.bindings.get("s"), m.bindings.get("e"), m.bindings.get("t")) {
                                        (Some(Binding::Node(s0)), Some(Binding::Edge(e)), Some(Binding::Node(t))) if s0.id == ctx.nid[start] => {
                                            got.insert((e.id, t.id));
                                        }
                                        _ => bad = true,
                                    }
                                }
                                if bad {
                                    gv.add("c18:match_pattern:binding-inconsistent", || (format!("{which}: {desc}: a match lacks the node/edge bindings or binds another start node"), q.clone()));
                                } else if got != exp || r.matches.len() != got.len() {
                                    gv.add("c18:match_pattern:one-hop:wrong-match-set", || (format!("{which}: {desc} returns {} match(es) (edge id, end node id) {got:?}, expected {exp:?}", r.matches.len()), q.clone()));
                                }
                            }
                            Err(e) => gv.add("c18:match_pattern:unexpected-error", || (format!("{which}: {desc}: {e:?}"), q.clone())),
                        }
                    }
                    if wrappers {
                        match ctx.eng.count_pattern_matches(&pat) {
                            Ok(c) if c as usize == exp.len() => {}
                            other => gv.add("c18:match_pattern:one-hop:count_pattern_matches", || (format!("count_pattern_matches: {desc} = {other:?}, expected {}", exp.len()), q.clone())),
                        }
                        match ctx.eng.pattern_exists(&pat) {
                            Ok(b) if b == !exp.is_empty() => {}
                            other => gv.add("c18:match_pattern:one-hop:pattern_exists", || (format!("pattern_exists: {desc} = {other:?}, expected {}", !exp.is_empty()), q.clone())),
                        }
                    }
                }
                let full = enum_walks(&ar, start, None, 0, p.hops, true, &|_| true);
                for &(lo, hi) in &p.ranges {
                    let mut ep = EdgePattern::new().variable("p").direction(mode.dir()).variable_length(lo, hi);
                    if let Some(t) = ty {
                        ep = ep.edge_type(ty_str(t));
                    }
                    let pat = Pattern::new(PathPattern::new(NodePattern::new().variable("s").where_eq("idx", PropertyValue::Int(start as i64)), ep, NodePattern::new().variable("t"))).limit(1_000_000);
                    let res = ctx.eng.match_pattern(&pat);
                    ctx.calls += 1;
                    acc.inc("match_pattern.queries", 1);
                    let q = json!({"call": "match_pattern", "pattern": format!("(s {{idx:{start}}})-[p{}*{lo}..{hi}]-(t)", ty.map_or(String::new(), |t| format!(":{}", ty_str(t)))), "direction": format!("{mode:?}")});
                    let r = match res {
                        Ok(r) => r,
                        Err(e) => {
                            gv.add("c18:match_pattern:unexpected-error", || (format!("{e:?}"), q));
                            continue;
                        }
                    };
                    let mut got: BTreeSet<(Vec<u64>, Vec<u64>)> = BTreeSet::new();
                    let mut bad_binding = false;
                    for m in &r.matches {
                        match (m.bindings.get("p"), m.bindings.get("t")) {
                            (Some(Binding::Path(pp)), Some(Binding::Node(t))) if pp.nodes.last() == Some(&t.id) => {
                                got.insert((pp.nodes.clone(), pp.edges.clone()));
                            }
                            _ => bad_binding = true,
                        }
                    }
                    if bad_binding {
                        gv.add("c18:match_pattern:binding-inconsistent", || ("a match lacks the path binding or its end node differs from the bound node".into(), q.clone()));
                    }
                    let exp: BTreeSet<(Vec<u64>, Vec<u64>)> = full.iter().filter(|w| w.1.len() >= lo && w.1.len() <= hi).map(|w| ctx.walk_ids(w)).collect();
                    if exp.len() >= 2 {
                        acc.inc("nontrivial", 1);
                    }
                    let desc = format!("match (s idx={start})-[p{}*{lo}..{hi} {mode:?}]-(t)", ty.map_or(String::new(), |t| format!(":{}", ty_str(t))));
                    if let Some(m) = exp.difference(&got).next() {
                        // same node sequence returned through another (parallel) edge?
                        let par = got.iter().any(|g| g.0 == m.0);
                        let sig = if par { "c18:match_pattern:parallel-edge-path-dropped" } else { "c18:match_pattern:missing-path" };
                        gv.add(sig, || (format!("{desc} misses path {} ({} returned, {} expected){}", ctx.show_walk(&m.0, &m.1), got.len(), exp.len(), if par { "; the same node sequence is returned only through a parallel edge" } else { "" }), q.clone()));
                    }
                    if let Some(x) = got.difference(&exp).next() {
                        gv.add("c18:match_pattern:extra-path", || (format!("{desc} returns {} which is not a simple walk within the bounds", ctx.show_walk(&x.0, &x.1)), q.clone()));
                    }
                }
            }
        }
    }
}
fn show_path_res(ctx: &Ctx, r: &Result<graph_engine::Path, GraphError>) -> String {
    match r {
        Ok(p) => ctx.show_walk(&p.nodes, &p.edges),
        Err(e) => format!("{e:?}"),
    }
}

// ------------------------------------------------------------------ part W : weighted queries
fn weights(ctx: &Ctx) -> Vec<f64> {
    ctx.labels.iter().map(|l| w_num(l.w)).collect()
}
fn wsum(ctx: &Ctx, w: &[f64], edges: &[u64]) -> f64 {
    edges.iter().map(|e| ctx.eidx(*e).map_or(f64::NAN, |i| w[i])).sum()
}
fn st_opt(x: f64) -> f64 {
    if selftest() && x.is_finite() && x >= 1.0 {
        x - 1.0
    } else {
        x
    }
}
/// all minimum-weight simple paths (engine ids)
fn optimal_simple(ctx: &Ctx, ar: &[Arc], w: &[f64], from: usize, to: usize, opt: f64) -> BTreeSet<(Vec<u64>, Vec<u64>)> {
    enum_walks(ar, from, Some(to), 0, ctx.n.saturating_sub(1), true, &|_| true).iter().filter(|x| (x.1.iter().map(|e| w[*e]).sum::<f64>() - opt).abs() < 1e-9).map(|x| ctx.walk_ids(x)).collect()
}

fn check_all_weighted(ctx: &mut Ctx, from: usize, to: usize, complete: bool, acc: &mut Acc, gv: &mut GV) {
    let all = vec![true; ctx.labels.len()];
    let ar = arcs(&ctx.labels, Mode::Out, &all);
    let w = weights(ctx);
    let opt = st_opt(bellman(ctx.n, &ar, &w, from)[to]);
    let res = ctx.eng.find_all_weighted_paths(ctx.nid[from], ctx.nid[to], "weight", None);
    ctx.calls += 1;
    acc.inc("find_all_weighted_paths.queries", 1);
    let q = json!({"call": "find_all_weighted_paths", "from": from, "to": to, "weight_property": "weight"});
    match res {
        Err(GraphError::PathNotFound) => {
            if opt.is_finite() {
                gv.add("c18:find_all_weighted_paths:missed-path", || (format!("find_all_weighted_paths(n{from}, n{to}) = PathNotFound but a path of weight {opt} exists"), q));
            }
        }
        Err(e) => gv.add("c18:find_all_weighted_paths:unexpected-error", || (format!("{e:?}"), q)),
        Ok(r) => {
            if !opt.is_finite() {
                gv.add("c18:find_all_weighted_paths:phantom-path", || (format!("find_all_weighted_paths(n{from}, n{to}) returned {} path(s) but n{to} is unreachable", r.paths.len()), q));
                return;
            }
            if (r.total_weight - opt).abs() > 1e-9 {
                gv.add("c18:find_all_weighted_paths:not-optimal", || (format!("find_all_weighted_paths(n{from}, n{to}).total_weight = {} but the minimum is {opt}", r.total_weight), q.clone()));
            }
            let mut got = BTreeSet::new();
            for pth in &r.paths {
                let bad = if pth.nodes.first() != Some(&ctx.nid[from]) || pth.nodes.last() != Some(&ctx.nid[to]) { Some("wrong endpoints".to_string()) } else { walk_defect(ctx, &ar, &pth.nodes, &pth.edges) };
                if let Some(why) = bad {
                    gv.add("c18:find_all_weighted_paths:not-a-walk", || (format!("find_all_weighted_paths(n{from}, n{to}) returns {}: {why}", ctx.show_walk(&pth.nodes, &pth.edges)), q.clone()));
                } else if (wsum(ctx, &w, &pth.edges) - opt).abs() > 1e-9 || (pth.total_weight - opt).abs() > 1e-9 {
                    gv.add("c18:find_all_weighted_paths:path-weight-wrong", || (format!("find_all_weighted_paths(n{from}, n{to}) returns {} with real weight {} / claimed {} but the minimum is {opt}", ctx.show_walk(&pth.nodes, &pth.edges), wsum(ctx, &w, &pth.edges), pth.total_weight), q.clone()));
                }
                got.insert((pth.nodes.clone(), pth.edges.clone()));
            }
            let exp = if from == to { [(vec![ctx.nid[from]], vec![])].into_iter().collect() } else { optimal_simple(ctx, &ar, &w, from, to, opt) };
            if exp.len() >= 2 {
                acc.inc("nontrivial", 1);
            }
            if r.paths.len() < 1000 {
                if let Some(m) = exp.difference(&got).next() {
                    gv.add("c18:find_all_weighted_paths:missing-path", || (format!("find_all_weighted_paths(n{from}, n{to}) misses the minimum-weight path {} ({} returned, {} expected)", ctx.show_walk(&m.0, &m.1), got.len(), exp.len()), q.clone()));
                }
            }
            if complete {
                if let Some(x) = got.difference(&exp).next() {
                    // valid and optimal was checked above; with no zero-weight closed walk it must be simple
                    if walk_defect(ctx, &ar, &x.0, &x.1).is_none() {
                        gv.add("c18:find_all_weighted_paths:extra-path", || (format!("find_all_weighted_paths(n{from}, n{to}) returns {} which is not among the minimum-weight simple paths", ctx.show_walk(&x.0, &x.1)), q.clone()));
                    }
                }
            }
        }
    }
}

/// verdict on an A* answer for the variants that share no special-cased signature: None = fine
fn judge_astar(ctx: &Ctx, res: Result<graph_engine::AStarResult, GraphError>, ar: &[Arc], w: &[f64], from: usize, to: usize, opt: f64) -> Option<(&'static str, String)> {
    match res {
        Err(e) => Some(("unexpected-error", format!("{e:?}"))),
        Ok(r) => match r.path {
            None => opt.is_finite().then(|| ("missed-path", format!("found no path but one of weight {opt} exists"))),
            Some(pth) => {
                let bad = if pth.nodes.first() != Some(&ctx.nid[from]) || pth.nodes.last() != Some(&ctx.nid[to]) { Some("wrong endpoints".to_string()) } else { walk_defect(ctx, ar, &pth.nodes, &pth.edges) };
                if let Some(why) = bad {
                    return Some(("not-a-walk", format!("= {} weight {}: {why}", ctx.show_walk(&pth.nodes, &pth.edges), pth.total_weight)));
                }
                let s = wsum(ctx, w, &pth.edges);
                if (s - pth.total_weight).abs() > 1e-9 {
                    Some(("total-weight-mismatch", format!("= {} claims weight {} but its edges sum to {s}", ctx.show_walk(&pth.nodes, &pth.edges), pth.total_weight)))
                } else if s > opt + 1e-9 {
                    Some(("not-optimal", format!("= {} weight {s} but a path of weight {opt} exists", ctx.show_walk(&pth.nodes, &pth.edges))))
                } else if s < opt - 1e-9 {
                    Some(("harness", "valid walk lighter than reference optimum".to_string()))
                } else {
                    None
                }
            }
        },
    }
}

fn check_w(ctx: &mut Ctx, p: &Params, acc: &mut Acc, gv: &mut GV) {
    let n = ctx.n;
    let all = vec![true; ctx.labels.len()];
    let w = weights(ctx);
    let ar = arcs(&ctx.labels, Mode::Out, &all);
    let safe = !zero_closed_walk(n, &ctx.labels);
    for from in 0..n {
        let dist = bellman(n, &ar, &w, from);
        let hop_dist = bfs(n, &ar, from, &|_| true);
        for to in 0..n {
            let opt = st_opt(dist[to]);
            // ---- find_weighted_path
            let res = ctx.eng.find_weighted_path(ctx.nid[from], ctx.nid[to], "weight");
            ctx.calls += 1;
            acc.inc("find_weighted_path.queries", 1);
            let q = json!({"call": "find_weighted_path", "from": from, "to": to, "weight_property": "weight"});
            match res {
                Err(GraphError::PathNotFound) => {
                    acc.inc("find_weighted_path.no_path_answers", 1);
                    if opt.is_finite() {
                        gv.add("c18:find_weighted_path:missed-path", || (format!("find_weighted_path(n{from}, n{to}) = PathNotFound but a path of weight {opt} exists"), q));
                    }
                }
                Err(e) => gv.add("c18:find_weighted_path:unexpected-error", || (format!("{e:?}"), q)),
                Ok(pth) => {
                    if pth.edges.len() >= 2 {
                        acc.inc("nontrivial", 1);
                    }
                    let bad = if pth.nodes.first() != Some(&ctx.nid[from]) || pth.nodes.last() != Some(&ctx.nid[to]) { Some("wrong endpoints".to_string()) } else { walk_defect(ctx, &ar, &pth.nodes, &pth.edges) };
                    if let Some(why) = bad {
                        gv.add("c18:find_weighted_path:not-a-walk", || (format!("find_weighted_path(n{from}, n{to}) = {}: {why}", ctx.show_walk(&pth.nodes, &pth.edges)), q));
                    } else {
                        let s = wsum(ctx, &w, &pth.edges);
                        if (s - pth.total_weight).abs() > 1e-9 {
                            gv.add("c18:find_weighted_path:total-weight-mismatch", || (format!("find_weighted_path(n{from}, n{to}) = {} claims weight {} but its edges sum to {s}", ctx.show_walk(&pth.nodes, &pth.edges), pth.total_weight), q));
                        } else if s > opt + 1e-9 {
                            gv.add("c18:find_weighted_path:not-optimal", || (format!("find_weighted_path(n{from}, n{to}) = {} weight {s} but a path of weight {opt} exists", ctx.show_walk(&pth.nodes, &pth.edges)), q));
                        } else if s < opt - 1e-9 {
                            gv.add("c18:harness:reference-inconsistent", || ("valid walk lighter than reference optimum".into(), q));
                        }
                    }
                }
            }
            // ---- find_weighted_path over a property no edge has: every edge weighs the documented default 1.0
            if from != to && p.h_full && (ctx.labels.len() <= 2 || (n >= 4 && ctx.labels.len() <= 3)) {
                let hops = hop_dist[to].map_or(f64::INFINITY, |d| d as f64);
                let hops = st_opt(hops);
                let res = ctx.eng.find_weighted_path(ctx.nid[from], ctx.nid[to], "no_such_property");
                ctx.calls += 1;
                acc.inc("find_weighted_path(missing property).queries", 1);
                let q = json!({"call": "find_weighted_path", "from": from, "to": to, "weight_property": "no_such_property"});
                match res {
                    Err(GraphError::PathNotFound) => {
                        if hops.is_finite() {
                            gv.add("c18:find_weighted_path:missing-property:missed-path", || (format!("find_weighted_path(n{from}, n{to}, \"no_such_property\") = PathNotFound but a path of {hops} hop(s) exists"), q));
                        }
                    }
                    Err(e) => gv.add("c18:find_weighted_path:unexpected-error", || (format!("{e:?}"), q)),
                    Ok(pth) => {
                        let bad = if pth.nodes.first() != Some(&ctx.nid[from]) || pth.nodes.last() != Some(&ctx.nid[to]) { Some("wrong endpoints".to_string()) } else { walk_defect(ctx, &ar, &pth.nodes, &pth.edges) };
                        if let Some(why) = bad {
                            gv.add("c18:find_weighted_path:missing-property:not-a-walk", || (format!("find_weighted_path(n{from}, n{to}, \"no_such_property\") = {}: {why}", ctx.show_walk(&pth.nodes, &pth.edges)), q));
                        } else if pth.edges.len() as f64 > hops + 1e-9 || (pth.total_weight - pth.edges.len() as f64).abs() > 1e-9 {
                            gv.add("c18:find_weighted_path:missing-property:not-optimal", || (format!("find_weighted_path(n{from}, n{to}, \"no_such_property\") = {} claimed weight {}; with every edge at the default weight 1.0 the minimum is {hops}", ctx.show_walk(&pth.nodes, &pth.edges), pth.total_weight), q));
                        }
                    }
                }
            }
            // ---- find_all_weighted_paths (in-process only when it provably terminates)
            if safe {
                check_all_weighted(ctx, from, to, true, acc, gv);
                // capped variant (max_paths 1, max_parents_per_node 1): a non-empty subset of the minimum-weight paths
                if from != to && opt.is_finite() && p.h_full && (ctx.labels.len() <= 2 || (n >= 4 && ctx.labels.len() <= 3)) {
                    let res = ctx.eng.find_all_weighted_paths(ctx.nid[from], ctx.nid[to], "weight", Some(AllPathsConfig { max_paths: 1, max_parents_per_node: 1 }));
                    ctx.calls += 1;
                    acc.inc("find_all_weighted_paths(capped).queries", 1);
                    let q = json!({"call": "find_all_weighted_paths", "from": from, "to": to, "weight_property": "weight", "config": {"max_paths": 1, "max_parents_per_node": 1}});
                    match res {
                        Err(e) => gv.add("c18:find_all_weighted_paths:capped:missed-path", || (format!("find_all_weighted_paths(n{from}, n{to}, max_paths=1, max_parents_per_node=1) = {e:?} but a path of weight {opt} exists"), q)),
                        Ok(r) => {
                            let exp = optimal_simple(ctx, &ar, &w, from, to, opt);
                            if r.paths.is_empty() || (r.total_weight - opt).abs() > 1e-9 {
                                gv.add("c18:find_all_weighted_paths:capped:missed-path", || (format!("find_all_weighted_paths(n{from}, n{to}, max_paths=1, max_parents_per_node=1) returned {} path(s), total_weight {} but the minimum is {opt}", r.paths.len(), r.total_weight), q.clone()));
                            }
                            if let Some(x) = r.paths.iter().find(|x| !exp.contains(&(x.nodes.clone(), x.edges.clone()))) {
                                gv.add("c18:find_all_weighted_paths:capped:extra-path", || (format!("find_all_weighted_paths(n{from}, n{to}, max_paths=1, max_parents_per_node=1) returns {} which is not a minimum-weight simple path", ctx.show_walk(&x.nodes, &x.edges)), q.clone()));
                            }
                        }
                    }
                }
            } else {
                acc.inc("find_all_weighted_paths.skipped_in_process(zero-weight closed walk; see part D)", 1);
            }
        }
    }
    // ---- A*
    for &mode in &p.astar_modes {
        for &ty in &p.type_filters {
            let ar = arcs(&ctx.labels, mode, &type_ok(ctx, ty));
            let has_parallel = ar.iter().enumerate().any(|(i, a)| ar[..i].iter().any(|b| a.f == b.f && a.t == b.t && a.f != a.t));
            // hops whose edge is not where get_astar_edge_weight looks for it (wrong adjacency list or
            // stored with the opposite orientation): the lookup falls back to (default weight, edge id 0)
            let lookup_miss = ar.iter().any(|a| {
                let l = ctx.labels[a.e];
                a.f != a.t
                    && match mode {
                        Mode::Out => l.v as usize != a.t,
                        Mode::In => l.u as usize != a.t,
                        Mode::Both => l.dir && l.u as usize == a.t,
                    }
            });
            let dstar: Vec<Vec<f64>> = (0..n).map(|x| bellman(n, &ar, &w, x)).collect();
            // ---- option variants (h = 0 unless stated): unweighted(); default_weight(3.0); the euclidean / manhattan entry points
            // (spaces with the full heuristic grid only: the large multiset spaces keep their budget for 3-edge graphs)
            let small = ctx.labels.len() <= 2 || (n >= 4 && ctx.labels.len() <= 3); // the option variants: graphs with <= 2 edges (4 nodes: <= 3)
            if p.h_full && small {
                let ones = vec![1.0; ctx.labels.len()];
                let w3: Vec<f64> = ctx.labels.iter().map(|l| if l.w == 2 { 3.0 } else { w_num(l.w) }).collect();
                let any_absent = ctx.labels.iter().any(|l| l.w == 2);
                for from in 0..n {
                    let d1 = bellman(n, &ar, &ones, from);
                    let d3 = bellman(n, &ar, &w3, from);
                    for to in 0..n {
                        if from == to {
                            continue;
                        }
                        let mut variants: Vec<(&'static str, AStarConfig, &[f64], f64)> = vec![];
                        let base = |c: AStarConfig| {
                            let c = c.direction(mode.dir());
                            match ty {
                                Some(t) => c.edge_type(ty_str(t)),
                                None => c,
                            }
                        };
                        variants.push(("unweighted", base(AStarConfig::new().unweighted()), &ones, d1[to]));
                        if any_absent && mode == Mode::Out {
                            variants.push(("default-weight-3", base(AStarConfig::new().default_weight(3.0)), &w3, d3[to]));
                        }
                        for (name, cfg, wv, optv) in variants {
                            let res = ctx.eng.astar_path(ctx.nid[from], ctx.nid[to], &cfg);
                            ctx.calls += 1;
                            acc.inc("astar_path(option variants).queries", 1);
                            if let Some((kind, why)) = judge_astar(ctx, res, &ar, wv, from, to, st_opt(optv)) {
                                let sig = if kind == "harness" { "c18:harness:reference-inconsistent".to_string() } else { format!("c18:astar:{name}:{kind}") };
                                gv.add(&sig, || (format!("astar_path(n{from}, n{to}, {mode:?}, type {:?}, {name}) {why}", ty.map(ty_str)), json!({"call": "astar_path", "from": from, "to": to, "direction": format!("{mode:?}"), "edge_type": ty.map(ty_str), "variant": name})));
                            }
                        }
                        if mode == Mode::Out && ty.is_none() {
                            // node i sits at (i, 0): both heuristics estimate |i - to|; judged only where that never overestimates
                            let admissible = (0..n).all(|x| !dstar[x][to].is_finite() || (x as f64 - to as f64).abs() <= dstar[x][to] + 1e-12);
                            if admissible {
                                let results = [("euclidean", ctx.eng.astar_path_euclidean(ctx.nid[from], ctx.nid[to], "x", "y")), ("manhattan", ctx.eng.astar_path_manhattan(ctx.nid[from], ctx.nid[to], "x", "y"))];
                                ctx.calls += 2;
                                acc.inc("astar_path_euclidean/manhattan.queries", 2);
                                for (name, res) in results {
                                    if let Some((kind, why)) = judge_astar(ctx, res, &ar, &w, from, to, st_opt(dstar[from][to])) {
                                        let sig = if kind == "harness" { "c18:harness:reference-inconsistent".to_string() } else { format!("c18:astar:{name}:{kind}") };
                                        gv.add(&sig, || (format!("astar_path_{name}(n{from}, n{to}, x, y) with node i at (i,0) (admissible here) {why}"), json!({"call": format!("astar_path_{name}"), "from": from, "to": to, "x_property": "x", "y_property": "y"})));
                                    }
                                }
                            }
                        }
                    }
                }
            }
            for to in 0..n {
                // admissible values per node: 0 or the true remaining cost (1000 where the goal is unreachable)
                let choices: Vec<Vec<f64>> = (0..n)
                    .map(|x| {
                        let d = dstar[x][to];
                        if d == 0.0 {
                            vec![0.0]
                        } else if d.is_finite() {
                            vec![0.0, d]
                        } else {
                            vec![0.0, 1000.0]
                        }
                    })
                    .collect();
                let combos: usize = choices.iter().map(Vec::len).product();
                for from in 0..n {
                    let opt = st_opt(dstar[from][to]);
                    for combo in 0..combos {
                        if !p.h_full && combo != 0 && combo != combos - 1 {
                            continue;
                        }
                        let mut h = vec![0.0; n];
                        let mut c = combo;
                        for x in 0..n {
                            h[x] = choices[x][c % choices[x].len()];
                            c /= choices[x].len();
                        }
                        let zero = h.iter().all(|v| *v == 0.0);
                        let consistent = ar.iter().all(|a| h[a.f] <= w[a.e] + h[a.t] + 1e-12);
                        let mut cfg = AStarConfig::new().direction(mode.dir());
                        if let Some(t) = ty {
                            cfg = cfg.edge_type(ty_str(t));
                        }
                        if !zero {
                            let table: HashMap<u64, f64> = (0..n).map(|x| (ctx.nid[x], h[x])).collect();
                            let hf: HeuristicFn = Box::new(move |x, _t, _e| table.get(&x).copied().unwrap_or(0.0));
                            cfg = cfg.heuristic(hf);
                        }
                        let res = ctx.eng.astar_path(ctx.nid[from], ctx.nid[to], &cfg);
                        ctx.calls += 1;
                        acc.inc("astar_path.queries", 1);
                        if !zero && !consistent {
                            acc.inc("astar_path.queries_admissible_but_inconsistent_heuristic", 1);
                        }
                        let hk = if zero { "zero-heuristic" } else if consistent { "consistent-heuristic" } else { "admissible-inconsistent-heuristic" };
                        let q = json!({"call": "astar_path", "from": from, "to": to, "direction": format!("{mode:?}"), "edge_type": ty.map(ty_str), "heuristic_by_node": h, "heuristic_kind": hk});
                        let desc = format!("astar_path(n{from}, n{to}, {mode:?}, type {:?}, h={h:?})", ty.map(ty_str));
                        let mut violated = false;
                        match res {
                            Err(e) => {
                                violated = true;
                                gv.add("c18:astar:unexpected-error", || (format!("{desc}: {e:?}"), q));
                            }
                            Ok(r) => match r.path {
                                None => {
                                    if opt.is_finite() {
                                        violated = true;
                                        gv.add("c18:astar:missed-path", || (format!("{desc} found no path but one of weight {opt} exists"), q));
                                    }
                                }
                                Some(pth) => {
                                    if pth.edges.len() >= 2 {
                                        acc.inc("nontrivial", 1);
                                    }
                                    let bad = if pth.nodes.first() != Some(&ctx.nid[from]) || pth.nodes.last() != Some(&ctx.nid[to]) { Some("wrong endpoints".to_string()) } else { walk_defect(ctx, &ar, &pth.nodes, &pth.edges) };
                                    if let Some(why) = bad {
                                        violated = true;
                                        let sig = if pth.edges.contains(&0) && lookup_miss { "c18:astar:edge-weight-lookup" } else { "c18:astar:not-a-walk" };
                                        gv.add(sig, || (format!("{desc} = {} weight {}: {why}", ctx.show_walk(&pth.nodes, &pth.edges), pth.total_weight), q));
                                    } else {
                                        let s = wsum(ctx, &w, &pth.edges);
                                        if (s - pth.total_weight).abs() > 1e-9 {
                                            violated = true;
                                            gv.add("c18:astar:total-weight-mismatch", || (format!("{desc} = {} claims weight {} but its edges sum to {s}", ctx.show_walk(&pth.nodes, &pth.edges), pth.total_weight), q));
                                        } else if s > opt + 1e-9 {
                                            violated = true;
                                            // get_astar_edge_weight takes the first connecting edge it finds in one adjacency
                                            // list: wrong with parallel edges and with edges kept in the other list/orientation
                                            let lookup = has_parallel || lookup_miss;
                                            let sig = if zero && lookup {
                                                "c18:astar:edge-weight-lookup".to_string()
                                            } else if !zero && !consistent && !lookup {
                                                "c18:astar:closed-set-with-inconsistent-admissible-heuristic".to_string()
                                            } else if !zero && lookup {
                                                format!("c18:astar:suboptimal:{hk}:graph-also-hits-edge-weight-lookup")
                                            } else {
                                                format!("c18:astar:suboptimal:{hk}")
                                            };
                                            gv.add(&sig, || (format!("{desc} = {} weight {s} but a path of weight {opt} exists", ctx.show_walk(&pth.nodes, &pth.edges)), q));
                                        } else if s < opt - 1e-9 {
                                            gv.add("c18:harness:reference-inconsistent", || ("valid walk lighter than reference optimum".into(), q));
                                        }
                                    }
                                }
                            },
                        }
                        if zero && violated {
                            break; // already wrong as plain Dijkstra: other heuristics would repeat the same root cause
                        }
                    }
                }
            }
        }
    }
}

// ------------------------------------------------------------------ part S : whole-graph algorithms
fn components_of(n: usize, adj: &[Vec<bool>], removed: Option<usize>) -> Vec<usize> {
    // component index per node (usize::MAX for the removed node)
    let mut comp = vec![usize::MAX; n];
    let mut c = 0;
    for s in 0..n {
        if Some(s) == removed || comp[s] != usize::MAX {
            continue;
        }
        let mut st = vec![s];
        comp[s] = c;
        while let Some(x) = st.pop() {
            for y in 0..n {
                if adj[x][y] && Some(y) != removed && comp[y] == usize::MAX {
                    comp[y] = c;
                    st.push(y);
                }
            }
        }
        c += 1;
    }
    comp
}
fn count_comps(comp: &[usize]) -> usize {
    comp.iter().filter(|c| **c != usize::MAX).collect::<BTreeSet<_>>().len()
}
/// does the engine's node→label map induce the same partition as `comp`?
fn same_partition<L: PartialEq>(ctx: &Ctx, got: &HashMap<u64, L>, comp: &[usize]) -> bool {
    if got.len() != ctx.n {
        return false;
    }
    for i in 0..ctx.n {
        for j in 0..ctx.n {
            let (Some(a), Some(b)) = (got.get(&ctx.nid[i]), got.get(&ctx.nid[j])) else { return false };
            if (a == b) != (comp[i] == comp[j]) {
                return false;
            }
        }
    }
    true
}
fn norm(a: u64, b: u64) -> (u64, u64) {
    (a.min(b), a.max(b))
}

fn check_s(ctx: &mut Ctx, p: &Params, acc: &mut Acc, gv: &mut GV) {
    let n = ctx.n;
    for &ty in &p.type_filters {
        let tok = type_ok(ctx, ty);
        let tys = ty.map(ty_str);
        let both = arcs(&ctx.labels, Mode::Both, &tok);
        let mut adj = vec![vec![false; n]; n];
        let mut mult = vec![vec![0usize; n]; n];
        for a in &both {
            if a.f != a.t {
                adj[a.f][a.t] = true;
                mult[a.f][a.t] += 1;
            }
        }
        let comp = components_of(n, &adj, None);
        let ncomp = count_comps(&comp);
        let deg: Vec<usize> = (0..n).map(|i| (0..n).filter(|&j| adj[i][j]).count()).collect();

        // ---- connected components
        {
            let cfg = CommunityConfig { edge_type: tys.map(str::to_string), ..CommunityConfig::default() };
            let q = json!({"call": "connected_components", "edge_type": tys});
            acc.inc("connected_components.calls", 1);
            ctx.calls += 1;
            match ctx.eng.connected_components(Some(cfg)) {
                Ok(r) => {
                    let members_ok = r.members.values().map(Vec::len).sum::<usize>() == n && r.members.iter().all(|(root, ms)| ms.iter().all(|m| r.communities.get(m) == Some(root)));
                    if !same_partition(ctx, &r.communities, &comp) || r.community_count != ncomp || !members_ok {
                        gv.add("c18:connected_components:wrong-partition", || (format!("connected_components(type {tys:?}) = {:?} (count {}), reference partition {comp:?}", r.communities, r.community_count), q));
                    }
                }
                Err(e) => gv.add("c18:connected_components:unexpected-error", || (format!("{e:?}"), q)),
            }
            if ty.is_none() {
                // default configuration
                let q = json!({"call": "connected_components", "config": null});
                acc.inc("connected_components.calls", 1);
                ctx.calls += 1;
                match ctx.eng.connected_components(None) {
                    Ok(r) => {
                        if !same_partition(ctx, &r.communities, &comp) || r.community_count != ncomp {
                            gv.add("c18:connected_components:wrong-partition", || (format!("connected_components(None) = {:?} (count {}), reference partition {comp:?}", r.communities, r.community_count), q));
                        }
                    }
                    Err(e) => gv.add("c18:connected_components:unexpected-error", || (format!("{e:?}"), q)),
                }
            }
        }
        // ---- strongly connected components + condensation
        {
            let out = arcs(&ctx.labels, Mode::Out, &tok);
            let mut reach = vec![vec![false; n]; n];
            for i in 0..n {
                reach[i][i] = true;
            }
            for a in &out {
                reach[a.f][a.t] = true;
            }
            for k in 0..n {
                for i in 0..n {
                    for j in 0..n {
                        if reach[i][k] && reach[k][j] {
                            reach[i][j] = true;
                        }
                    }
                }
            }
            let mut scc = vec![usize::MAX; n];
            let mut c = 0;
            for i in 0..n {
                if scc[i] == usize::MAX {
                    for j in 0..n {
                        if reach[i][j] && reach[j][i] {
                            scc[j] = c;
                        }
                    }
                    c += 1;
                }
            }
            if c >= 2 && c < n {
                acc.inc("nontrivial", 1);
            }
            let mut cfg = SccConfig::new().with_condensation();
            if let Some(t) = tys {
                cfg = cfg.edge_type(t);
            }
            let q = json!({"call": "strongly_connected_components", "edge_type": tys, "condensation": true});
            acc.inc("strongly_connected_components.calls", 1);
            ctx.calls += 1;
            match ctx.eng.strongly_connected_components(&cfg) {
                Ok(r) => {
                    let members_ok = r.members.len() == r.component_count && r.members.iter().enumerate().all(|(ci, ms)| ms.iter().all(|m| r.components.get(m) == Some(&ci))) && r.members.iter().map(Vec::len).sum::<usize>() == n;
                    if !same_partition(ctx, &r.components, &scc) || r.component_count != c || !members_ok {
                        gv.add("c18:scc:wrong-partition", || (format!("strongly_connected_components(type {tys:?}) = {:?} (count {}), reference {scc:?}", r.components, r.component_count), q.clone()));
                    } else {
                        let exp: BTreeSet<(usize, usize)> = out.iter().filter(|a| scc[a.f] != scc[a.t]).map(|a| (r.components[&ctx.nid[a.f]], r.components[&ctx.nid[a.t]])).collect();
                        let got: BTreeSet<(usize, usize)> = r.condensation_edges.iter().copied().collect();
                        let mut pos = vec![usize::MAX; c];
                        for (i, x) in r.topological_order.iter().enumerate() {
                            if *x < c {
                                pos[*x] = i;
                            }
                        }
                        let topo_ok = r.topological_order.len() == c && pos.iter().all(|x| *x != usize::MAX) && exp.iter().all(|(a, b)| pos[*a] < pos[*b]);
                        if exp != got || got.len() != r.condensation_edges.len() {
                            gv.add("c18:scc:condensation-edges", || (format!("condensation edges {got:?}, expected {exp:?}"), q.clone()));
                        } else if !topo_ok {
                            gv.add("c18:scc:topological-order", || (format!("topological_order {:?} is not a topological order of condensation {exp:?}", r.topological_order), q.clone()));
                        }
                    }
                }
                Err(e) => gv.add("c18:scc:unexpected-error", || (format!("{e:?}"), q)),
            }
            // default configuration (no condensation)
            if ty.is_none() {
                let mut cfg = SccConfig::new();
                if let Some(t) = tys {
                    cfg = cfg.edge_type(t);
                }
                let q = json!({"call": "strongly_connected_components", "edge_type": tys, "condensation": false});
                acc.inc("strongly_connected_components.calls", 1);
                ctx.calls += 1;
                match ctx.eng.strongly_connected_components(&cfg) {
                    Ok(r) => {
                        let members_ok = r.members.len() == r.component_count && r.members.iter().enumerate().all(|(ci, ms)| ms.iter().all(|m| r.components.get(m) == Some(&ci))) && r.members.iter().map(Vec::len).sum::<usize>() == n;
                        if !same_partition(ctx, &r.components, &scc) || r.component_count != c || !members_ok {
                            gv.add("c18:scc:wrong-partition", || (format!("strongly_connected_components(type {tys:?}, no condensation) = {:?} (count {}), reference {scc:?}", r.components, r.component_count), q));
                        }
                    }
                    Err(e) => gv.add("c18:scc:unexpected-error", || (format!("{e:?}"), q)),
                }
            }
            if ty.is_none() && p.wrappers {
                acc.inc("is_strongly_connected.calls", 1);
                ctx.calls += 1;
                match ctx.eng.is_strongly_connected() {
                    Ok(b) if b == (c == 1) => {}
                    other => gv.add("c18:scc:is_strongly_connected", || (format!("is_strongly_connected() = {other:?} but the graph has {c} strongly connected component(s)"), json!({"call": "is_strongly_connected"}))),
                }
            }
        }
        // ---- k-core (simple undirected projection)
        {
            let mut core = vec![0usize; n];
            for k in 1..=n {
                let mut alive: Vec<bool> = vec![true; n];
                loop {
                    let mut changed = false;
                    for i in 0..n {
                        if alive[i] && (0..n).filter(|&j| alive[j] && adj[i][j]).count() < k {
                            alive[i] = false;
                            changed = true;
                        }
                    }
                    if !changed {
                        break;
                    }
                }
                for i in 0..n {
                    if alive[i] {
                        core[i] = k;
                    }
                }
            }
            let mut cfg = KCoreConfig::new();
            if let Some(t) = tys {
                cfg = cfg.edge_type(t);
            }
            let q = json!({"call": "kcore_decomposition", "edge_type": tys});
            acc.inc("kcore_decomposition.calls", 1);
            ctx.calls += 1;
            if core.iter().collect::<BTreeSet<_>>().len() >= 2 {
                acc.inc("nontrivial", 1);
            }
            match ctx.eng.kcore_decomposition(&cfg) {
                Ok(r) => {
                    let got: Vec<Option<usize>> = (0..n).map(|i| r.core_numbers.get(&ctx.nid[i]).copied()).collect();
                    let exp: Vec<Option<usize>> = core.iter().map(|c| Some(*c)).collect();
                    let groups_ok = r.cores.iter().all(|(k, ms)| ms.iter().all(|m| r.core_numbers.get(m) == Some(k))) && r.cores.values().map(Vec::len).sum::<usize>() == r.core_numbers.len();
                    if got != exp || r.degeneracy != core.iter().copied().max().unwrap_or(0) || !groups_ok {
                        gv.add("c18:kcore:wrong-core-numbers", || (format!("kcore_decomposition(type {tys:?}) core numbers {got:?} degeneracy {}, reference {core:?}", r.degeneracy), q));
                    }
                }
                Err(e) => gv.add("c18:kcore:unexpected-error", || (format!("{e:?}"), q)),
            }
            if p.wrappers {
                let maxc = core.iter().copied().max().unwrap_or(0);
                acc.inc("degeneracy.calls", 1);
                ctx.calls += 1;
                match ctx.eng.degeneracy(&cfg) {
                    Ok(d) if d == maxc => {}
                    other => gv.add("c18:kcore:degeneracy", || (format!("degeneracy(type {tys:?}) = {other:?}, reference core numbers {core:?}"), json!({"call": "degeneracy", "edge_type": tys}))),
                }
                for k in 0..=maxc + 1 {
                    acc.inc("kcore_subgraph.calls", 1);
                    ctx.calls += 1;
                    let exp: BTreeSet<u64> = (0..n).filter(|&i| core[i] >= k).map(|i| ctx.nid[i]).collect();
                    match ctx.eng.kcore_subgraph(k, &cfg) {
                        Ok(v) if v.iter().copied().collect::<BTreeSet<u64>>() == exp && v.len() == exp.len() => {}
                        other => gv.add("c18:kcore:kcore_subgraph", || (format!("kcore_subgraph({k}, type {tys:?}) = {other:?}, expected the nodes with core number >= {k}: {exp:?} (engine ids)"), json!({"call": "kcore_subgraph", "k": k, "edge_type": tys}))),
                    }
                }
            }
        }
        // ---- triangles and clustering (undirected view; default config only when every edge is undirected)
        {
            let mut tri = vec![0usize; n];
            let mut total = 0usize;
            for i in 0..n {
                for j in i + 1..n {
                    for k in j + 1..n {
                        if adj[i][j] && adj[j][k] && adj[i][k] {
                            total += 1;
                            tri[i] += 1;
                            tri[j] += 1;
                            tri[k] += 1;
                        }
                    }
                }
            }
            if total >= 1 {
                acc.inc("nontrivial", 1);
            }
            let local: Vec<f64> = (0..n).map(|i| if deg[i] < 2 { 0.0 } else { tri[i] as f64 / (deg[i] * (deg[i] - 1) / 2) as f64 }).collect();
            let triplets: usize = (0..n).filter(|&i| deg[i] >= 2).map(|i| deg[i] * (deg[i] - 1) / 2).sum();
            let global = if triplets > 0 { (3 * total) as f64 / triplets as f64 } else { 0.0 };
            let all_undirected = ctx.labels.iter().zip(&tok).all(|(l, ok)| !ok || !l.dir);
            let mut cfgs = vec![("undirected", true)];
            if all_undirected {
                cfgs.push(("default", false));
            }
            for (name, und) in cfgs {
                let mut cfg = TriangleConfig::new();
                if und {
                    cfg = cfg.undirected();
                }
                if let Some(t) = tys {
                    cfg = cfg.edge_type(t);
                }
                let q = json!({"call": "count_triangles", "config": name, "edge_type": tys});
                acc.inc("count_triangles.calls", 1);
                ctx.calls += 1;
                match ctx.eng.count_triangles(&cfg) {
                    Ok(r) => {
                        let got: Vec<usize> = (0..n).map(|i| r.node_triangles.get(&ctx.nid[i]).copied().unwrap_or(usize::MAX)).collect();
                        if r.triangle_count != total || got != tri {
                            gv.add("c18:triangles:wrong-count", || (format!("count_triangles({name}, type {tys:?}) = {} triangles, per node {got:?}; brute force finds {total}, per node {tri:?}", r.triangle_count), q.clone()));
                        } else {
                            let lc_ok = (0..n).all(|i| r.local_clustering.get(&ctx.nid[i]).is_some_and(|v| (v - local[i]).abs() < 1e-12));
                            if !lc_ok || (r.global_clustering - global).abs() > 1e-12 {
                                gv.add("c18:triangles:wrong-clustering", || (format!("clustering local {:?} global {}, expected local {local:?} global {global}", r.local_clustering, r.global_clustering), q.clone()));
                            }
                        }
                    }
                    Err(e) => gv.add("c18:triangles:unexpected-error", || (format!("{e:?}"), q.clone())),
                }
                if p.wrappers {
                    acc.inc("global_clustering_coefficient.calls", 1);
                    ctx.calls += 1;
                    match ctx.eng.global_clustering_coefficient(&cfg) {
                        Ok(v) if (v - global).abs() < 1e-12 => {}
                        other => gv.add("c18:triangles:global-clustering-coefficient", || (format!("global_clustering_coefficient({name}, type {tys:?}) = {other:?}, expected {global}"), json!({"call": "global_clustering_coefficient", "config": name, "edge_type": tys}))),
                    }
                }
                for i in 0..n {
                    acc.inc("local_clustering_coefficient.calls", 1);
                    ctx.calls += 1;
                    match ctx.eng.local_clustering_coefficient(ctx.nid[i], &cfg) {
                        Ok(v) if (v - local[i]).abs() < 1e-12 => {}
                        other => gv.add("c18:triangles:local-clustering-coefficient", || (format!("local_clustering_coefficient(n{i}, {name}) = {other:?}, expected {}", local[i]), json!({"call": "local_clustering_coefficient", "node": i, "config": name, "edge_type": tys}))),
                    }
                }
            }
        }
        // ---- biconnected components / articulation points / bridges
        {
            let art: BTreeSet<u64> = (0..n).filter(|&v| count_comps(&components_of(n, &adj, Some(v))) > ncomp).map(|v| ctx.nid[v]).collect();
            let mut proj_edges: Vec<(usize, usize)> = vec![];
            for i in 0..n {
                for j in i + 1..n {
                    if adj[i][j] {
                        proj_edges.push((i, j));
                    }
                }
            }
            let mut bridges_proj = BTreeSet::new();
            let mut bridges_multi = BTreeSet::new();
            for &(i, j) in &proj_edges {
                let mut a2 = adj.clone();
                a2[i][j] = false;
                a2[j][i] = false;
                if count_comps(&components_of(n, &a2, None)) > ncomp {
                    bridges_proj.insert(norm(ctx.nid[i], ctx.nid[j]));
                    if mult[i][j] == 1 {
                        bridges_multi.insert(norm(ctx.nid[i], ctx.nid[j]));
                    }
                }
            }
            // blocks: edges are in one block iff they lie on a common simple cycle
            let m = proj_edges.len();
            let mut uf: Vec<usize> = (0..m).collect();
            fn find(uf: &mut Vec<usize>, x: usize) -> usize {
                if uf[x] != x {
                    let r = find(uf, uf[x]);
                    uf[x] = r;
                }
                uf[x]
            }
            let eid = |a: usize, b: usize| proj_edges.iter().position(|e| *e == (a.min(b), a.max(b))).unwrap();
            fn cycles(adj: &[Vec<bool>], start: usize, path: &mut Vec<usize>, out: &mut Vec<Vec<usize>>) {
                let cur = *path.last().unwrap();
                for y in 0..adj.len() {
                    if !adj[cur][y] {
                        continue;
                    }
                    if y == start && path.len() >= 3 {
                        out.push(path.clone());
                    } else if y > start && !path.contains(&y) {
                        path.push(y);
                        cycles(adj, start, path, out);
                        path.pop();
                    }
                }
            }
            let mut cyc = vec![];
            for s in 0..n {
                cycles(&adj, s, &mut vec![s], &mut cyc);
            }
            for c in &cyc {
                let first = eid(c[0], c[1]);
                for k in 1..c.len() {
                    let e = eid(c[k], c[(k + 1) % c.len()]);
                    let (a, b) = (find(&mut uf, first), find(&mut uf, e));
                    uf[a] = b;
                }
            }
            let mut blocks: BTreeMap<usize, BTreeSet<(u64, u64)>> = BTreeMap::new();
            for e in 0..m {
                let r = find(&mut uf, e);
                blocks.entry(r).or_default().insert(norm(ctx.nid[proj_edges[e].0], ctx.nid[proj_edges[e].1]));
            }
            let exp_blocks: BTreeSet<BTreeSet<(u64, u64)>> = blocks.into_values().collect();
            if !art.is_empty() {
                acc.inc("nontrivial", 1);
            }
            let mut cfg = BiconnectedConfig::new();
            if let Some(t) = tys {
                cfg = cfg.edge_type(t);
            }
            let q = json!({"call": "biconnected_components", "edge_type": tys});
            acc.inc("biconnected_components.calls", 1);
            ctx.calls += 1;
            match ctx.eng.biconnected_components(&cfg) {
                Ok(r) => {
                    let got_art: BTreeSet<u64> = r.articulation_points.iter().copied().collect();
                    if got_art != art || got_art.len() != r.articulation_points.len() {
                        gv.add("c18:biconnected:articulation-points", || (format!("articulation_points(type {tys:?}) = {:?}, brute force (removal increases #components) = {art:?} (engine ids)", r.articulation_points), q.clone()));
                    }
                    let got_br: BTreeSet<(u64, u64)> = r.bridges.iter().map(|(a, b)| norm(*a, *b)).collect();
                    if got_br != bridges_multi || got_br.len() != r.bridges.len() {
                        let sig = if got_br == bridges_proj && got_br.len() == r.bridges.len() { "c18:biconnected:bridges-ignore-parallel-edges" } else { "c18:biconnected:bridges" };
                        gv.add(sig, || (format!("bridges(type {tys:?}) = {:?}, but removing one edge disconnects the graph only for {bridges_multi:?} (engine ids)", r.bridges), q.clone()));
                    }
                    let got_blocks: BTreeSet<BTreeSet<(u64, u64)>> = r.components.iter().map(|s| s.iter().map(|(a, b)| norm(*a, *b)).collect()).collect();
                    if got_blocks != exp_blocks || r.component_count != r.components.len() || got_blocks.len() != r.components.len() {
                        let spans = r.components.iter().any(|s| s.iter().map(|(a, _)| comp[ctx.nidx[a]]).collect::<BTreeSet<_>>().len() > 1);
                        let covered: BTreeSet<(u64, u64)> = got_blocks.iter().flatten().copied().collect();
                        let all_e: BTreeSet<(u64, u64)> = exp_blocks.iter().flatten().copied().collect();
                        let sig = if spans {
                            "c18:biconnected:component-spans-disconnected-parts"
                        } else if covered != all_e {
                            "c18:biconnected:component-edge-missing"
                        } else {
                            "c18:biconnected:components-wrong"
                        };
                        gv.add(sig, || (format!("biconnected_components(type {tys:?}).components = {:?} (count {}), reference blocks {exp_blocks:?} (engine ids)", r.components, r.component_count), q.clone()));
                    }
                }
                Err(e) => gv.add("c18:biconnected:unexpected-error", || (format!("{e:?}"), q)),
            }
            if p.wrappers {
                acc.inc("articulation_points.calls", 1);
                acc.inc("bridges.calls", 1);
                acc.inc("is_biconnected.calls", 1);
                ctx.calls += 3;
                match ctx.eng.articulation_points(&cfg) {
                    Ok(v) if v.iter().copied().collect::<BTreeSet<u64>>() == art && v.len() == art.len() => {}
                    other => gv.add("c18:biconnected:articulation-points", || (format!("articulation_points(type {tys:?}) = {other:?}, brute force (removal increases #components) = {art:?} (engine ids)"), json!({"call": "articulation_points", "edge_type": tys}))),
                }
                match ctx.eng.bridges(&cfg) {
                    Ok(v) if v.iter().map(|(a, b)| norm(*a, *b)).collect::<BTreeSet<_>>() == bridges_multi && v.len() == bridges_multi.len() => {}
                    other => {
                        let proj = matches!(&other, Ok(v) if v.iter().map(|(a, b)| norm(*a, *b)).collect::<BTreeSet<_>>() == bridges_proj && v.len() == bridges_proj.len());
                        gv.add(if proj { "c18:biconnected:bridges-ignore-parallel-edges" } else { "c18:biconnected:bridges" }, || (format!("bridges(type {tys:?}) = {other:?}, but removing one edge disconnects the graph only for {bridges_multi:?} (engine ids)"), json!({"call": "bridges", "edge_type": tys})))
                    }
                }
                // textbook: a graph on >= 3 nodes is biconnected iff it is connected and has no articulation point; a
                // disconnected graph never is (graphs on <= 2 nodes: conventions differ, not judged)
                let exp = if ncomp > 1 { Some(false) } else if n >= 3 { Some(art.is_empty()) } else { None };
                if let Some(exp) = exp {
                    match ctx.eng.is_biconnected(&cfg) {
                        Ok(b) if b == exp => {}
                        other => {
                            let isolated = (0..n).any(|i| deg[i] == 0);
                            let sig = if exp == false && ncomp > 1 && isolated { "c18:biconnected:is_biconnected-true-on-disconnected-graph:isolated-nodes" } else if exp == false && ncomp > 1 { "c18:biconnected:is_biconnected-true-on-disconnected-graph" } else { "c18:biconnected:is_biconnected" };
                            gv.add(sig, || (format!("is_biconnected(type {tys:?}) = {other:?}, expected {exp}: the undirected projection has {ncomp} connected component(s) and articulation points {art:?}"), json!({"call": "is_biconnected", "edge_type": tys})))
                        }
                    }
                }
            }
        }
    }
    check_mst(ctx, acc, gv, p.wrappers);
}

// ---- minimum spanning tree / forest (all edges, direction ignored)
fn check_mst(ctx: &mut Ctx, acc: &mut Acc, gv: &mut GV, variants: bool) {
    let n = ctx.n;
    let w = weights(ctx);
    {
        let all = vec![true; ctx.labels.len()];
        let both = arcs(&ctx.labels, Mode::Both, &all);
        let mut adj = vec![vec![false; n]; n];
        let mut minw = vec![vec![f64::INFINITY; n]; n];
        for a in &both {
            if a.f != a.t {
                adj[a.f][a.t] = true;
                minw[a.f][a.t] = minw[a.f][a.t].min(w[a.e]);
            }
        }
        let comp = components_of(n, &adj, None);
        let ncomp = count_comps(&comp);
        // Prim per component
        let mut in_tree = vec![false; n];
        let mut best = 0.0;
        for s in 0..n {
            if in_tree[s] {
                continue;
            }
            in_tree[s] = true;
            loop {
                let mut pick: Option<(f64, usize)> = None;
                for i in 0..n {
                    for j in 0..n {
                        if in_tree[i] && !in_tree[j] && comp[i] == comp[s] && minw[i][j].is_finite() && pick.map_or(true, |p| minw[i][j] < p.0) {
                            pick = Some((minw[i][j], j));
                        }
                    }
                }
                match pick {
                    Some((wt, j)) => {
                        in_tree[j] = true;
                        best += wt;
                    }
                    None => break,
                }
            }
        }
        // independent brute force over edge subsets for small graphs
        let real: Vec<usize> = (0..ctx.labels.len()).filter(|&e| ctx.labels[e].u != ctx.labels[e].v).collect();
        if real.len() <= 8 {
            let mut bf = f64::INFINITY;
            for mask in 0u32..(1 << real.len()) {
                if mask.count_ones() as usize != n - ncomp {
                    continue;
                }
                let mut uf: Vec<usize> = (0..n).collect();
                let mut ok = true;
                let mut tot = 0.0;
                for (b, &e) in real.iter().enumerate() {
                    if mask & (1 << b) != 0 {
                        let (mut a, mut c) = (ctx.labels[e].u as usize, ctx.labels[e].v as usize);
                        while uf[a] != a {
                            a = uf[a];
                        }
                        while uf[c] != c {
                            c = uf[c];
                        }
                        if a == c {
                            ok = false;
                            break;
                        }
                        uf[a] = c;
                        tot += w[e];
                    }
                }
                if ok {
                    bf = bf.min(tot);
                }
            }
            assert!((bf - best).abs() < 1e-9, "harness: Prim {best} and brute force {bf} disagree");
        }
        let best = st_opt(best);
        if n - ncomp >= 2 && real.len() > n - ncomp {
            acc.inc("nontrivial", 1);
        }
        // distinct weights: the minimum spanning forest is unique, so its edge set is known (reference Kruskal)
        let distinct = real.iter().all(|&a| real.iter().all(|&b| a == b || w[a] != w[b]));
        let unique_set: Option<BTreeSet<u64>> = if distinct && !selftest() {
            let mut order = real.clone();
            order.sort_by(|a, b| w[*a].partial_cmp(&w[*b]).unwrap());
            let mut label: Vec<usize> = (0..n).collect();
            let mut set = BTreeSet::new();
            for e in order {
                let (a, b) = (label[ctx.labels[e].u as usize], label[ctx.labels[e].v as usize]);
                if a != b {
                    for x in label.iter_mut() {
                        if *x == b {
                            *x = a;
                        }
                    }
                    set.insert(ctx.eids[e]);
                }
            }
            Some(set)
        } else {
            None
        };
        // (name, config, weight of each edge under that config, minimum forest weight, is the reference edge set usable)
        let mut cfgs = vec![("forest", MstConfig::default(), w.clone(), best, true)];
        if ncomp == 1 {
            cfgs.push(("tree(compute_forest=false)", MstConfig::default().compute_forest(false), w.clone(), best, true));
        }
        // a weight property no edge has and default_weight 2.0: every edge weighs 2, any spanning forest is minimal
        let flat = st_opt(2.0 * (n - ncomp) as f64);
        if variants {
            cfgs.push(("forest(weight_property=no_such_property, default_weight=2.0)", MstConfig::new("no_such_property").default_weight(2.0), vec![2.0; ctx.labels.len()], flat, false));
        }
        for (name, cfg, w, best, use_unique) in cfgs {
            let q = json!({"call": "minimum_spanning_tree", "config": name});
            acc.inc("minimum_spanning_tree.calls", 1);
            ctx.calls += 1;
            match ctx.eng.minimum_spanning_tree(&cfg) {
                Ok(r) => {
                    let mut uf: Vec<usize> = (0..n).collect();
                    let mut forest = true;
                    let mut edges_ok = true;
                    let mut sum = 0.0;
                    for me in &r.edges {
                        match ctx.eidx(me.edge_id) {
                            Some(e) if ctx.edges[e].from == me.from && ctx.edges[e].to == me.to && (w[e] - me.weight).abs() < 1e-9 => {
                                sum += w[e];
                                let (mut a, mut c) = (ctx.labels[e].u as usize, ctx.labels[e].v as usize);
                                while uf[a] != a {
                                    a = uf[a];
                                }
                                while uf[c] != c {
                                    c = uf[c];
                                }
                                if a == c {
                                    forest = false;
                                } else {
                                    uf[a] = c;
                                }
                            }
                            _ => edges_ok = false,
                        }
                    }
                    let nodes_ok = r.nodes.iter().copied().collect::<BTreeSet<_>>() == ctx.nid.iter().copied().collect::<BTreeSet<_>>();
                    if !edges_ok || !nodes_ok {
                        gv.add("c18:mst:edge-or-node-mismatch", || (format!("minimum_spanning_tree({name}) lists edges/nodes that do not match the graph: {:?} nodes {:?}", r.edges, r.nodes), q));
                    } else if !forest || r.edges.len() != n - ncomp {
                        gv.add("c18:mst:not-a-spanning-forest", || (format!("minimum_spanning_tree({name}) returned {} edges {:?}; a spanning forest of {n} nodes in {ncomp} component(s) has {} acyclic edges", r.edges.len(), r.edges.iter().map(|e| e.edge_id).collect::<Vec<_>>(), n - ncomp), q));
                    } else if r.tree_count != ncomp {
                        gv.add("c18:mst:tree-count", || (format!("minimum_spanning_tree({name}).tree_count = {} but the graph has {ncomp} connected component(s)", r.tree_count), q));
                    } else if (sum - r.total_weight).abs() > 1e-9 || (sum - best).abs() > 1e-9 {
                        gv.add("c18:mst:weight-not-minimal", || (format!("minimum_spanning_tree({name}) total_weight {} (edges sum {sum}); minimum spanning forest weight is {best}", r.total_weight), q));
                    } else if let (Some(exp), true) = (&unique_set, use_unique) {
                        let got: BTreeSet<u64> = r.edges.iter().map(|e| e.edge_id).collect();
                        if got != *exp {
                            gv.add("c18:mst:edge-set-differs", || (format!("minimum_spanning_tree({name}) edges {got:?} but with distinct weights the unique minimum spanning forest is {exp:?} (engine edge ids)"), q));
                        }
                    }
                }
                Err(e) => gv.add("c18:mst:unexpected-error", || (format!("{e:?}"), q)),
            }
        }
        let q = json!({"call": "minimum_spanning_forest"});
        acc.inc("minimum_spanning_forest.calls", 1);
        ctx.calls += 1;
        match ctx.eng.minimum_spanning_forest("weight") {
            Ok(fs) => {
                let total: f64 = fs.iter().map(|f| f.total_weight).sum();
                let mut label: HashMap<u64, usize> = HashMap::new();
                for (i, f) in fs.iter().enumerate() {
                    for x in &f.nodes {
                        label.insert(*x, i);
                    }
                }
                let count_nodes: usize = fs.iter().map(|f| f.nodes.len()).sum();
                // an empty graph (n nodes, no edge) is reported as one forest result with tree_count n: accept partition by nodes only when each result is one tree
                let per_tree = fs.iter().all(|f| f.tree_count == 1);
                let ok = (total - best).abs() < 1e-9 && count_nodes == n && (!per_tree || (fs.len() == ncomp && same_partition(ctx, &label, &comp)));
                if !ok {
                    gv.add("c18:mst:forest-wrong", || (format!("minimum_spanning_forest: {} result(s), total weight {total}, node groups {:?}; expected {ncomp} tree(s) of total weight {best}", fs.len(), fs.iter().map(|f| f.nodes.clone()).collect::<Vec<_>>()), q));
                }
            }
            Err(e) => gv.add("c18:mst:unexpected-error", || (format!("{e:?}"), q)),
        }
    }
}

// ------------------------------------------------------------------ enumeration driver
#[derive(Clone, Copy, PartialEq, Eq, Debug)]
enum Part {
    U,
    W,
    S,
    /// spanning tree / forest only (part S on larger graphs with distinct weights)
    M,
}
impl Part {
    fn name(self) -> &'static str {
        match self {
            Part::U => "U",
            Part::W => "W",
            Part::S => "S",
            Part::M => "M",
        }
    }
}
struct Space {
    name: String,
    part: Part,
    n: usize,
    labels: Vec<EL>,
    max_edges: usize,
    /// true: every sequence (insertion order matters); false: multisets (non-decreasing label index)
    ordered: bool,
    params: Params,
    /// the construction paths through which every graph of the space is built (the whole space is run once per build)
    builds: Vec<Build>,
}
fn run_part(part: Part, ctx: &mut Ctx, p: &Params, acc: &mut Acc, gv: &mut GV) {
    match part {
        Part::U => check_u(ctx, p, acc, gv),
        Part::W => check_w(ctx, p, acc, gv),
        Part::S => check_s(ctx, p, acc, gv),
        Part::M => check_mst(ctx, acc, gv, false),
    }
}
/// signatures (with first message/query and count) the battery raises on `labels` built through `ctx`' construction path
fn battery_on(part: Part, ctx: &mut Ctx, labels: &[EL], p: &Params, acc: &mut Acc) -> Result<GV, String> {
    if let Err(why) = ctx.load(labels) {
        // the engine holds something unknown now: start over with a new one
        *ctx = Ctx::with_build(ctx.n, ctx.build, false);
        return Err(why);
    }
    let mut gv = GV::default();
    run_part(part, ctx, p, acc, &mut gv);
    ctx.clear();
    Ok(gv)
}
/// The battery on the graph held by `b`. A finding on an alternative construction path that the edge-by-edge build of
/// the same graph shows as well is the same root cause and keeps its signature; one that only the alternative build
/// shows is reported as `c18:built-via-<build>:<what>` (batch, if the plain batch build shows it too).
fn check_graph(part: Part, b: &mut Bench, p: &Params, acc: &mut Acc) {
    let labels = b.cur.clone();
    let n = b.ctx.n;
    acc.inc("graphs", 1);
    if labels.iter().any(|l| l.u == l.v) {
        acc.inc("graphs_with_self_loop", 1);
    }
    if labels.iter().enumerate().any(|(i, a)| labels[..i].iter().any(|b| (a.u, a.v) == (b.u, b.v) || (a.u, a.v) == (b.v, b.u))) {
        acc.inc("graphs_with_parallel_edges", 1);
    }
    if b.build == Build::Step {
        let mut gv = GV::default();
        run_part(part, &mut b.ctx, p, acc, &mut gv);
        gv.flush(part.name(), n, &labels, Build::Step, acc);
        return;
    }
    acc.inc(if b.build == Build::Batch { "graphs_built_via_batch_create_edges" } else { "graphs_built_via_churn(batch+update_edge+delete_edge+delete_node)" }, 1);
    if labels.iter().any(|l| !l.dir) {
        acc.inc("alt_built_graphs_with_undirected_edge", 1);
    }
    let build = b.build;
    let mut out = GV::default();
    if let Some(why) = b.ctx.node_defect.clone() {
        out.add(&format!("c18:built-via-{}:stored-node-differs-from-request", build.tag()), || (format!("node set built via {}: {why}", build.name()), json!({"call": "get_node"})));
    }
    match battery_on(part, &mut b.ctx, &labels, p, acc) {
        Err(why) => out.add(&format!("c18:built-via-{}:stored-edge-differs-from-request", build.tag()), || (format!("graph built via {}: {why}", build.name()), json!({"call": "get_edge"}))),
        Ok(found) if found.m.is_empty() => {}
        Ok(found) => {
            // attribute: what does the edge-by-edge build (and, for churn, the plain batch build) of the same graph show?
            let mut scratch = Acc::default();
            let step = b.step_ref.get_or_insert_with(|| Ctx::new(n));
            let on_step = battery_on(part, step, &labels, p, &mut scratch).expect("edge-by-edge build");
            let on_batch = if build == Build::Churn {
                let bc = b.batch_ref.get_or_insert_with(|| Ctx::with_build(n, Build::Batch, false));
                battery_on(part, bc, &labels, p, &mut scratch).ok()
            } else {
                None
            };
            for (sig, (cnt, msg, q)) in found.m {
                let filed = if sig.starts_with("c18:harness") || on_step.m.contains_key(&sig) {
                    sig
                } else if on_batch.as_ref().is_some_and(|g| g.m.contains_key(&sig)) {
                    format!("c18:built-via-batch:{}", &sig["c18:".len()..])
                } else {
                    format!("c18:built-via-{}:{}", build.tag(), &sig["c18:".len()..])
                };
                out.m.insert(filed, (cnt, format!("[graph built via {}] {msg}", build.name()), q));
            }
        }
    }
    out.flush(part.name(), n, &labels, build, acc);
}
fn dfs(sp: &Space, b: &mut Bench, last: usize, acc: &mut Acc) {
    check_graph(sp.part, b, &sp.params, acc);
    if b.len() >= sp.max_edges {
        return;
    }
    let lo = if sp.ordered { 0 } else { last };
    for i in lo..sp.labels.len() {
        b.push(sp.labels[i]);
        dfs(sp, b, i, acc);
        b.pop();
    }
}
/// The harness' own worker pool. It is separate from rayon's global pool because the engine uses the global pool
/// internally (batch_create_nodes with >= 100 inputs): a unit thread waiting for a global-pool job while every
/// global worker waits for a unit thread would deadlock. Twice the core count: each worker mostly waits for its unit thread.
fn pool() -> &'static rayon::ThreadPool {
    static P: std::sync::OnceLock<rayon::ThreadPool> = std::sync::OnceLock::new();
    P.get_or_init(|| {
        let cores = std::thread::available_parallelism().map(|n| n.get()).unwrap_or(8);
        let k = std::env::var("VERIF_THREADS").ok().and_then(|s| s.parse().ok()).unwrap_or((2 * cores).min(32));
        rayon::ThreadPoolBuilder::new().num_threads(k).build().expect("worker pool")
    })
}
fn run_space(sp: &Space) -> Acc {
    // work units: the edgeless graph; each one-edge graph (alone); each two-edge prefix with everything below it; per build.
    // Each unit runs on its own OS thread so hash seeds (thread-local) do not depend on scheduling.
    let l = sp.labels.len();
    let mut prefixes: Vec<Vec<usize>> = vec![vec![]];
    if sp.max_edges >= 1 {
        for i in 0..l {
            prefixes.push(vec![i]);
            if sp.max_edges >= 2 && l * l <= 800 {
                for j in (if sp.ordered { 0 } else { i })..l {
                    prefixes.push(vec![i, j]);
                }
            }
        }
    }
    let units: Vec<(Build, &Vec<usize>)> = sp.builds.iter().flat_map(|b| prefixes.iter().map(move |u| (*b, u))).collect();
    let results: Vec<Acc> = pool().install(|| {
        units
            .par_iter()
            .map(|(build, u)| {
                std::thread::scope(|s| {
                    std::thread::Builder::new()
                        .stack_size(32 << 20)
                        .spawn_scoped(s, || {
                            let mut acc = Acc::default();
                            // the >= 100-input node batch (engine-internal parallel branch) once per space and build
                            let mut b = Bench::new(sp.n, *build, u.is_empty());
                            for &i in u.iter() {
                                b.push(sp.labels[i]);
                            }
                            if u.len() < 2 && (u.is_empty() || l * l <= 800) {
                                check_graph(sp.part, &mut b, &sp.params, &mut acc);
                            } else if u.len() < 2 {
                                dfs(sp, &mut b, u[0], &mut acc);
                            } else {
                                dfs(sp, &mut b, u[1], &mut acc);
                            }
                            acc.inc("engine_calls", b.calls());
                            acc
                        })
                        .expect("spawn unit thread")
                        .join()
                        .expect("unit thread panicked")
                })
            })
            .collect()
    });
    let mut total = Acc::default();
    for r in results {
        total.merge(r);
    }
    let mid = &prefixes[prefixes.len() / 2];
    total.samples.push(json!({"space": sp.name, "nodes": sp.n, "built_via": sp.builds.iter().map(|b| b.name()).collect::<Vec<_>>(), "a_graph_prefix_checked": mid.iter().map(|i| sp.labels[*i].show()).collect::<Vec<_>>()}));
    total
}

/// re-run the whole check of one graph on fresh engines; hash-iteration order inside the engine depends on
/// thread-local hasher seeds, so several seed offsets are tried. Returns the offset that reproduces `sig`.
fn confirm_fresh(sig: &str, part: Part, n: usize, ls: &[EL], p: &Params, build: Build) -> Option<usize> {
    for off in 0..32usize {
        let hit = std::thread::scope(|s| {
            std::thread::Builder::new()
                .stack_size(32 << 20)
                .spawn_scoped(s, || {
                    let warm: Vec<HashMap<u8, u8>> = (0..off).map(|_| HashMap::new()).collect();
                    std::hint::black_box(&warm);
                    let mut b = Bench::new(n, build, true);
                    for l in ls {
                        b.push(*l);
                    }
                    let mut acc = Acc::default();
                    check_graph(part, &mut b, p, &mut acc);
                    acc.arts.contains_key(sig)
                })
                .expect("spawn")
                .join()
                .expect("confirm thread panicked")
        });
        if hit {
            return Some(off);
        }
    }
    None
}

fn labels(n: usize, tys: &[u8], ws: &[u8], dirs: &[bool]) -> Vec<EL> {
    let mut v = vec![];
    // simplest first: directed before undirected, type A before B, then endpoints
    for &dir in dirs {
        for &ty in tys {
            for &w in ws {
                for u in 0..n as u8 {
                    for vv in 0..n as u8 {
                        v.push(EL { u, v: vv, ty, w, dir });
                    }
                }
            }
        }
    }
    v
}
fn all_ranges(h: usize) -> Vec<(usize, usize)> {
    let mut v = vec![];
    for lo in 0..=h {
        for hi in lo..=h {
            v.push((lo, hi));
        }
    }
    v
}

// ------------------------------------------------------------------ part D : possibly diverging calls in a subprocess
const BUDGET: usize = 64 << 20;
fn encode(n: usize, gs: &[Vec<EL>]) -> String {
    serde_json::to_string(&json!({"n": n, "graphs": gs.iter().map(|g| g.iter().map(EL::to_json).collect::<Vec<_>>()).collect::<Vec<_>>()})).unwrap()
}
/// child: `--c18-child=<json> --c18-skip=<g>:<k>`: graphs g.. (pairs k.. of the first), one `@@PAIR` line per query
fn child_main(spec: &str, skip: (usize, usize)) -> ! {
    let v: Value = serde_json::from_str(spec).expect("child spec");
    let n = v["n"].as_u64().unwrap() as usize;
    let gs: Vec<Vec<EL>> = v["graphs"].as_array().unwrap().iter().map(|g| g.as_array().unwrap().iter().map(EL::from_json).collect()).collect();
    let mut ctx = Ctx::new(n);
    // the budget counts what is allocated from here on (an empty engine alone reserves > 64 MiB)
    LIVE.store(0, Ordering::SeqCst);
    LIMIT.store(BUDGET, Ordering::SeqCst);
    for (g, ls) in gs.iter().enumerate().skip(skip.0) {
        for l in ls {
            ctx.push(*l);
        }
        let mut k = 0;
        for from in 0..n {
            for to in 0..n {
                if g > skip.0 || k >= skip.1 {
                    println!("@@BEGIN {g} {k}");
                    let mut acc = Acc::default();
                    let mut gv = GV::default();
                    check_all_weighted(&mut ctx, from, to, false, &mut acc, &mut gv);
                    let out: Vec<Value> = gv.m.iter().map(|(s, (_, m, q))| json!({"sig": s, "msg": m, "query": q})).collect();
                    println!("@@PAIR {g} {k} {}", serde_json::to_string(&out).unwrap());
                }
                k += 1;
            }
        }
        while !ctx.labels.is_empty() {
            ctx.pop();
        }
    }
    println!("@@DONE");
    std::process::exit(0)
}
/// parent: per-graph outcomes; a child that dies inside query (g,k) = that call does not terminate within the budget
fn run_child_batch(n: usize, gs: &[Vec<EL>], acc: &mut Acc) -> Vec<Vec<(String, String, Value)>> {
    let exe = std::env::current_exe().expect("current_exe");
    let spec = encode(n, gs);
    let mut out: Vec<Vec<(String, String, Value)>> = vec![vec![]; gs.len()];
    let mut skip = (0usize, 0usize);
    loop {
        let o = std::process::Command::new(&exe).arg(format!("--c18-child={spec}")).arg(format!("--c18-skip={}:{}", skip.0, skip.1)).stderr(std::process::Stdio::null()).output().expect("spawn child");
        acc.inc("D.child_processes", 1);
        let text = String::from_utf8_lossy(&o.stdout).to_string();
        let mut open: Option<(usize, usize)> = None;
        let mut done = false;
        for line in text.lines() {
            if let Some(r) = line.strip_prefix("@@BEGIN ") {
                let mut it = r.split(' ');
                open = Some((it.next().unwrap().parse().unwrap(), it.next().unwrap().parse().unwrap()));
            } else if let Some(r) = line.strip_prefix("@@PAIR ") {
                let mut it = r.splitn(3, ' ');
                let g: usize = it.next().unwrap().parse().unwrap();
                let _k: usize = it.next().unwrap().parse().unwrap();
                acc.inc("find_all_weighted_paths.queries", 1);
                acc.inc("D.pairs_returned", 1);
                for v in serde_json::from_str::<Vec<Value>>(it.next().unwrap()).unwrap() {
                    out[g].push((v["sig"].as_str().unwrap().to_string(), v["msg"].as_str().unwrap().to_string(), v["query"].clone()));
                }
                open = None;
            } else if line.starts_with("@@DONE") {
                done = true;
            }
        }
        if done && o.status.success() {
            return out;
        }
        match open {
            Some((g, k)) => {
                let (from, to) = (k / n, k % n);
                acc.inc("find_all_weighted_paths.queries", 1);
                acc.inc("D.pairs_diverged", 1);
                out[g].push((
                    "c18:find_all_weighted_paths:diverges-on-zero-weight-cycle".to_string(),
                    format!("find_all_weighted_paths(n{from}, n{to}, \"weight\") does not return: the call allocated more than {} MiB and the child process was killed ({:?}); the graph has a zero-weight closed walk, so the equal-cost parent lists form a cycle that path enumeration follows forever", BUDGET >> 20, o.status),
                    json!({"call": "find_all_weighted_paths", "from": from, "to": to, "weight_property": "weight", "in_subprocess_with_allocation_budget_bytes": BUDGET}),
                ));
                skip = (g, k + 1);
            }
            None => panic!("child died outside a query: {:?}\n{text}", o.status),
        }
    }
}
fn part_d(n: usize, labels: &[EL], max_edges: usize) -> Acc {
    // every sequence of <= 2 edges and every multiset of 3.. edges that has a zero-weight closed walk
    let mut graphs: Vec<Vec<EL>> = vec![];
    fn rec(labels: &[EL], max: usize, cur: &mut Vec<usize>, n: usize, out: &mut Vec<Vec<EL>>) {
        let g: Vec<EL> = cur.iter().map(|i| labels[*i]).collect();
        if !g.is_empty() && zero_closed_walk(n, &g) {
            out.push(g);
        }
        if cur.len() >= max {
            return;
        }
        let sorted = cur.windows(2).all(|w| w[0] <= w[1]);
        for i in 0..labels.len() {
            if cur.len() >= 2 && (!sorted || i < *cur.last().unwrap()) {
                continue;
            }
            cur.push(i);
            rec(labels, max, cur, n, out);
            cur.pop();
        }
    }
    rec(labels, max_edges, &mut vec![], n, &mut graphs);
    let results: Vec<Acc> = pool().install(|| graphs
        .par_chunks(24)
        .map(|chunk| {
            let mut acc = Acc::default();
            acc.inc("graphs", chunk.len() as u64);
            let per_graph = run_child_batch(n, chunk, &mut acc);
            for (g, vs) in chunk.iter().zip(per_graph) {
                let mut gv = GV::default();
                for (s, m, q) in vs {
                    gv.add(&s, || (m, q));
                }
                for (sig, (cnt, msg, q)) in gv.m {
                    *acc.sig_cases.entry(sig.clone()).or_insert(0) += cnt;
                    *acc.sig_graphs.entry(sig.clone()).or_insert(0) += 1;
                    let readable: Vec<String> = g.iter().enumerate().map(|(i, l)| format!("e{}: {}", i + 1, l.show())).collect();
                    let rp = json!({"part": "D", "n": n, "edges": g.iter().map(EL::to_json).collect::<Vec<_>>(), "edges_readable": readable, "query": q});
                    let e = acc.arts.entry(sig).or_default();
                    e.push(Art { size: (g.len(), n), msg: format!("{msg}  [graph: {n} node(s); {}]", readable.join(", ")), replay: rp });
                    e.sort_by_key(|a| a.size);
                    e.truncate(3);
                }
            }
            acc
        })
        .collect());
    let mut total = Acc::default();
    for r in results {
        total.merge(r);
    }
    total
}

// ------------------------------------------------------------------ main
fn params(part: Part, n: usize, thorough: bool, types: bool, light: bool) -> Params {
    let hops = match part {
        Part::U => {
            if thorough && !light {
                (n + 1).min(4)
            } else {
                3
            }
        }
        _ => 0,
    };
    let ranges = if light {
        vec![(0, 0), (0, hops), (1, 2), (hops, hops)]
    } else if thorough {
        all_ranges(hops)
    } else {
        vec![(0, 0), (0, hops), (1, 1), (1, 2), (2, hops), (hops, hops)]
    };
    Params {
        hops,
        ranges,
        type_filters: if types { vec![None, Some(0)] } else { vec![None] },
        var_modes: if light { vec![Mode::Out, Mode::Both] } else { MODES.to_vec() },
        astar_modes: if light { vec![Mode::Out] } else { MODES.to_vec() },
        two_types: types,
        h_full: true,
        wrappers: false,
    }
}
fn spaces(thorough: bool) -> Vec<Space> {
    let mut v = vec![];
    let mk = |name: &str, part: Part, n: usize, labels: Vec<EL>, max_edges: usize, ordered: bool, types: bool, light: bool| Space { name: name.to_string(), part, n, labels, max_edges, ordered, params: params(part, n, thorough, types, light), builds: vec![Build::Step] };
    let t = thorough;
    let both = [true, false];
    // ---- U: unweighted queries. types A/B, directed/undirected, weight absent
    v.push(mk("U/n=2 sequences", Part::U, 2, labels(2, &[0, 1], &[2], &both), if t { 3 } else { 2 }, true, true, false));
    v.push(mk("U/n=2 multisets", Part::U, 2, labels(2, &[0, 1], &[2], &both), if t { 4 } else { 3 }, false, true, false));
    v.push(mk("U/n=3 sequences", Part::U, 3, labels(3, &[0, 1], &[2], &both), 2, true, true, false));
    if t {
        v.push(mk("U/n=3 two-type multisets", Part::U, 3, labels(3, &[0, 1], &[2], &both), 3, false, true, false));
    }
    v.push(mk("U/n=3 one-type multisets", Part::U, 3, labels(3, &[0], &[2], &both), if t { 4 } else { 3 }, false, false, false));
    // 4+ nodes: no self-loops, an undirected edge stored once (lower node first)
    let simple = |n: usize| -> Vec<EL> { labels(n, &[0], &[2], &both).into_iter().filter(|l| l.u != l.v && (l.dir || l.u < l.v)).collect() };
    v.push(mk("U/n=4 loop-free one-type multisets", Part::U, 4, simple(4), if t { 4 } else { 3 }, false, false, true));
    if t {
        v.push(mk("U/n=4 one-type multisets", Part::U, 4, labels(4, &[0], &[2], &both), 3, false, false, true));
        v.push(mk("U/n=5 loop-free one-type multisets", Part::U, 5, simple(5), 3, false, false, true));
    }
    // ---- W: weighted queries. weights {0,1,absent,5.0}
    v.push(mk("W/n=2 sequences 4 weights", Part::W, 2, labels(2, &[0], &[0, 1, 2, 3], &both), 3, true, false, false));
    v.push(mk("W/n=3 sequences", Part::W, 3, labels(3, &[0], &[0, 1, 3], &both), if t { 3 } else { 2 }, true, false, false));
    if !t {
        let mut w3 = mk("W/n=3 multisets", Part::W, 3, labels(3, &[0], &[0, 1, 3], &both), 3, false, false, false);
        w3.params.h_full = false;
        v.push(w3);
    }
    // directed loop-free graphs on 4 nodes: the smallest place where an admissible but inconsistent heuristic can mislead a closed-set A*
    let dag4: Vec<EL> = labels(4, &[0], &[1, 3], &[true]).into_iter().filter(|l| if t { l.u != l.v } else { l.u < l.v }).collect();
    v.push(mk(if t { "W/n=4 directed loop-free {1,5} multisets" } else { "W/n=4 DAG (u<v) {1,5} multisets" }, Part::W, 4, dag4, 4, false, false, true));
    if t {
        let mut w4 = mk("W/n=4 {1,5} multisets", Part::W, 4, labels(4, &[0], &[1, 3], &both), 3, false, false, false);
        w4.params.h_full = false;
        v.push(w4);
        v.push(mk("W/n=2 two-type sequences", Part::W, 2, labels(2, &[0, 1], &[0, 1, 3], &both), 3, true, true, false));
        v.push(mk("W/n=3 two-type multisets", Part::W, 3, labels(3, &[0, 1], &[1, 3], &both), 2, false, true, false));
    }
    // ---- S: whole-graph algorithms
    let s_combo = |n: usize, combos: &[(u8, u8)]| -> Vec<EL> {
        // (type, weight) combinations, directed and undirected, all ordered pairs incl. self-loops
        let mut l = vec![];
        for &(ty, w) in combos {
            l.extend(labels(n, &[ty], &[w], &both));
        }
        l
    };
    let combos3: &[(u8, u8)] = &[(0, 1), (1, 0), (0, 3)]; // (A,1) (B,0) (A,5.0)
    // quick: the third combination (A,5.0) only on 4 nodes and in the simple-graph families
    v.push(mk("S/n=3 multigraphs", Part::S, 3, s_combo(3, if t { combos3 } else { &combos3[..2] }), 3, false, true, false));
    let mut s4 = mk("S/n=4 multigraphs", Part::S, 4, s_combo(4, combos3), 2, false, true, false);
    s4.params.wrappers = t;
    v.push(s4);

    // ---- B: the same batteries on graphs put into the engine through the other construction paths
    // (batch_create_nodes/batch_create_edges; churn = batch + batch_update_nodes + update_edge + delete_edge + delete_node of decoys)
    let alt = |mut sp: Space, builds: &[Build]| -> Space {
        sp.builds = builds.to_vec();
        // every direction wherever the call takes one, also in the otherwise "light" grids
        sp.params.var_modes = MODES.to_vec();
        sp.params.astar_modes = MODES.to_vec();
        sp
    };
    let all = &ALT_BUILDS[..];
    let batch = &ALT_BUILDS[..1];
    v.push(alt(mk(if t { "B/U n=2 two-type sequences" } else { "B/U n=2 two-type multisets" }, Part::U, 2, labels(2, &[0, 1], &[2], &both), 2, t, true, false), all));
    v.push(alt(mk("B/U n=3 one-type multisets", Part::U, 3, labels(3, &[0], &[2], &both), 2, false, false, false), if t { all } else { batch }));
    if t {
        v.push(alt(mk("B/U n=4 loop-free one-type multisets", Part::U, 4, simple(4), 2, false, false, true), all));
    }
    v.push(alt(mk(if t { "B/W n=2 sequences 4 weights" } else { "B/W n=2 multisets 4 weights" }, Part::W, 2, labels(2, &[0], &[0, 1, 2, 3], &both), 2, t, false, false), all));
    let mut bw3 = mk(if t { "B/W n=3 {0,1,5} multisets" } else { "B/W n=3 {1,5} multisets" }, Part::W, 3, labels(3, &[0], if t { &[0, 1, 3] } else { &[1, 3] }, &both), 2, false, false, false);
    bw3.params.h_full = t;
    v.push(alt(bw3, if t { all } else { batch }));
    v.push(alt(mk("B/S n=3 multigraphs", Part::S, 3, s_combo(3, combos3), 2, false, true, false), if t { all } else { batch }));
    if t {
        v.push(alt(mk("B/S n=4 multigraphs", Part::S, 4, s_combo(4, combos3), 2, false, true, false), all));
    }
    v
}
/// S2: every simple graph on n nodes, each present edge {i,j} (i<j) taking one of `kinds` shapes
fn simple_graph_space(n: usize, kinds: &[(bool, bool, u8, u8)]) -> Vec<Vec<EL>> {
    let pairs: Vec<(u8, u8)> = (0..n as u8).flat_map(|i| (i + 1..n as u8).map(move |j| (i, j))).collect();
    let base = kinds.len() + 1;
    let total = base.pow(pairs.len() as u32);
    let mut out = Vec::with_capacity(total);
    for mut code in 0..total {
        let mut g = vec![];
        for &(i, j) in &pairs {
            let k = code % base;
            code /= base;
            if k > 0 {
                let (dir, flip, ty, w) = kinds[k - 1];
                g.push(if flip { EL { u: j, v: i, ty, w, dir } } else { EL { u: i, v: j, ty, w, dir } });
            }
        }
        out.push(g);
    }
    out
}
fn run_simple_graphs(name: &str, n: usize, kinds: &[(bool, bool, u8, u8)], types: bool, build: Build, wrappers: bool) -> Acc {
    let graphs = simple_graph_space(n, kinds);
    let mut p = params(Part::S, n, false, types, false);
    p.wrappers = wrappers;
    let chunks: Vec<&[Vec<EL>]> = graphs.chunks(64).collect();
    let results: Vec<Acc> = pool().install(|| chunks
        .par_iter()
        .map(|chunk| {
            std::thread::scope(|s| {
                std::thread::Builder::new()
                    .stack_size(32 << 20)
                    .spawn_scoped(s, || {
                        let mut acc = Acc::default();
                        let mut b = Bench::new(n, build, false);
                        for g in chunk.iter() {
                            for l in g {
                                b.push(*l);
                            }
                            check_graph(Part::S, &mut b, &p, &mut acc);
                            while b.len() > 0 {
                                b.pop();
                            }
                        }
                        acc.inc("engine_calls", b.calls());
                        acc
                    })
                    .expect("spawn")
                    .join()
                    .expect("chunk thread panicked")
            })
        })
        .collect());
    let mut total = Acc::default();
    for r in results {
        total.merge(r);
    }
    total.samples.push(json!({"space": name, "built_via": build.name(), "graph_checked": graphs[graphs.len() / 2].iter().map(EL::show).collect::<Vec<_>>()}));
    total
}

/// Part M: every sequence of <= max_m undirected edges over distinct node pairs of n nodes, the i-th edge
/// weighing i (= every edge set x every assignment of the distinct weights 1..m, i.e. every order in which
/// Kruskal can meet the edges), each edge in both storage orientations (from,to)/(to,from); node names are
/// canonical by first appearance (an edge's `from` before its `to`), and the whole family is run under two
/// name -> node-id maps (ascending, descending) so ids are not tied to the order of appearance.
fn run_mst_family(n: usize, max_m: usize, descending: bool, unit_depth: usize, build: Build) -> Acc {
    fn extend(n: usize, k: usize, used: &[(u8, u8)]) -> Vec<(u8, u8, usize)> {
        // (from, to, nodes in use afterwards)
        let mut out = vec![];
        for u in 0..(k + 1).min(n) {
            let ku = if u == k { k + 1 } else { k };
            for v in 0..(ku + 1).min(n) {
                if v == u {
                    continue;
                }
                let kv = if v == ku { ku + 1 } else { ku };
                let pr = (u.min(v) as u8, u.max(v) as u8);
                if !used.contains(&pr) {
                    out.push((u as u8, v as u8, kv));
                }
            }
        }
        out
    }
    fn prefixes(n: usize, depth: usize, k: usize, cur: &mut Vec<(u8, u8)>, used: &mut Vec<(u8, u8)>, out: &mut Vec<(Vec<(u8, u8)>, usize, bool)>) {
        // (prefix, nodes in use, descend below it?)
        out.push((cur.clone(), k, cur.len() == depth));
        if cur.len() == depth {
            return;
        }
        for (u, v, k2) in extend(n, k, used) {
            cur.push((u, v));
            used.push((u.min(v), u.max(v)));
            prefixes(n, depth, k2, cur, used, out);
            cur.pop();
            used.pop();
        }
    }
    fn rec(n: usize, max_m: usize, k: usize, used: &mut Vec<(u8, u8)>, b: &mut Bench, map: &dyn Fn(u8) -> u8, acc: &mut Acc) {
        check_graph(Part::M, b, &params(Part::M, n, false, false, false), acc);
        if b.len() >= max_m {
            return;
        }
        for (u, v, k2) in extend(n, k, used) {
            let wgt = 10 + b.len() as u8 + 1;
            b.push(EL { u: map(u), v: map(v), ty: 0, w: wgt, dir: false });
            used.push((u.min(v), u.max(v)));
            rec(n, max_m, k2, used, b, map, acc);
            used.pop();
            b.pop();
        }
    }
    let depth = unit_depth.min(max_m);
    let mut units = vec![];
    prefixes(n, depth, 0, &mut vec![], &mut vec![], &mut units);
    let results: Vec<Acc> = pool().install(|| units
        .par_iter()
        .map(|(pre, k, descend)| {
            std::thread::scope(|s| {
                std::thread::Builder::new()
                    .stack_size(32 << 20)
                    .spawn_scoped(s, || {
                        let map = |x: u8| if descending { n as u8 - 1 - x } else { x };
                        let mut acc = Acc::default();
                        let mut b = Bench::new(n, build, false);
                        let mut used = vec![];
                        for (i, (u, v)) in pre.iter().enumerate() {
                            b.push(EL { u: map(*u), v: map(*v), ty: 0, w: 10 + i as u8 + 1, dir: false });
                            used.push((*u.min(v), *u.max(v)));
                        }
                        if *descend {
                            rec(n, max_m, *k, &mut used, &mut b, &map, &mut acc);
                        } else {
                            check_graph(Part::M, &mut b, &params(Part::M, n, false, false, false), &mut acc);
                        }
                        acc.inc("engine_calls", b.calls());
                        acc
                    })
                    .expect("spawn")
                    .join()
                    .expect("M unit thread panicked")
            })
        })
        .collect());
    let mut total = Acc::default();
    for r in results {
        total.merge(r);
    }
    let mid = &units[units.len() / 2].0;
    total.samples.push(json!({"space": "M", "built_via": build.name(), "nodes": n, "a_graph_prefix_checked": mid.iter().enumerate().map(|(i, (u, v))| format!("n{u}--n{v} w={}", i + 1)).collect::<Vec<_>>()}));
    total
}

fn replay_graph(rep: &mut Report, v: &Value, thorough: bool) {
    let r = &v["replay"];
    let n = r["n"].as_u64().expect("replay n") as usize;
    let ls: Vec<EL> = r["edges"].as_array().expect("replay edges").iter().map(EL::from_json).collect();
    let part = r["part"].as_str().unwrap_or("U");
    let mut acc = Acc::default();
    if part == "D" {
        let vs = run_child_batch(n, &[ls.clone()], &mut acc).remove(0);
        for (s, m, q) in vs {
            rep.violation(s, m, json!({"part": "D", "n": n, "edges": r["edges"], "query": q}));
        }
    } else {
        let pt = match part {
            "W" => Part::W,
            "S" => Part::S,
            "M" => Part::M,
            _ => Part::U,
        };
        // the engine's hash iteration order depends on thread-local seeds: try the same offsets as the confirmation step
        let mut p = params(pt, n, thorough, true, false);
        p.wrappers = true;
        let mut seen = BTreeSet::new();
        for off in 0..32usize {
            let a = std::thread::scope(|s| {
                s.spawn(|| {
                    let warm: Vec<HashMap<u8, u8>> = (0..off).map(|_| HashMap::new()).collect();
                    std::hint::black_box(&warm);
                    // the graph through every construction path, each on fresh engines
                    let mut a = Acc::default();
                    for build in [Build::Step, Build::Batch, Build::Churn] {
                        let mut b = Bench::new(n, build, true);
                        for l in &ls {
                            b.push(*l);
                        }
                        check_graph(pt, &mut b, &p, &mut a);
                    }
                    a
                })
                .join()
                .expect("replay thread")
            });
            for (sig, arts) in &a.arts {
                if seen.insert(sig.clone()) {
                    rep.violation(sig.clone(), format!("{} [hash seed offset {off}]", arts[0].msg), arts[0].replay.clone());
                }
            }
            acc.merge(a);
        }
    }
    rep.add("states", 1);
    rep.add("evaluations", acc.c.values().sum());
    rep.sample(json!({"replayed_graph": r["edges_readable"]}));
}

fn main() {
    // child mode first (no Report, no evidence)
    let argv: Vec<String> = std::env::args().collect();
    if let Some(spec) = argv.iter().find_map(|a| a.strip_prefix("--c18-child=")) {
        let skip = argv.iter().find_map(|a| a.strip_prefix("--c18-skip=")).and_then(|s| s.split_once(':')).map(|(g, k)| (g.parse().unwrap(), k.parse().unwrap())).unwrap_or((0, 0));
        child_main(spec, skip);
    }
    let mut rep = Report::new("C18", "model_checking");
    let thorough = rep.thorough();
    if rep.args.rest.iter().any(|a| a == "--selftest") {
        SELFTEST.store(true, Ordering::SeqCst);
        eprintln!("[C18] SELFTEST: reference optima deliberately lowered — violations are expected");
    }
    rep.rule("graphs: DFS over edge sequences (ordered spaces) or edge multisets (others) of labelled edges (from,to incl. self-loops; type A|B; weight 0|1|absent|5.0; directed|undirected) on n fixed nodes, built in the real GraphEngine; per graph every query of the grid (all start/end pairs x filters x directions x hop ranges x admissible heuristics) is compared with brute force; non-trivial = the reference answer is a path of >=2 hops / a set of >=2 paths / a structure with >=2 classes");
    rep.rule("M (spanning trees): every sequence of <= m undirected edges over distinct node pairs of 6 (thorough also 7) nodes, the i-th edge weighing i — i.e. every edge set with every assignment of the distinct weights 1..m, hence every order in which Kruskal can meet the edges — each edge in both storage orientations; node names canonical by first appearance, run under an ascending and a descending name->id map");
    rep.rule("B (construction paths): the same batteries on graphs put into the engine (i) by batch_create_nodes + one batch_create_edges call per graph (emptied with batch_delete_edges) and (ii) by a 'churn' path: node batch with decoy nodes (>= 100 inputs once per space = the engine's parallel branch) whose idx is set afterwards by batch_update_nodes and whose decoys go through batch_delete_nodes; edge batch holding the real edges with a placeholder weight (corrected by update_edge, removal via Null), a decoy twin per real edge (removed by delete_edge) and decoy edges to a create_node_with_labels hub (removed by batch_delete_nodes -> delete_node). Every multiset (thorough: sequence) of <= 2 labelled edges on 2-3 (thorough 4) nodes for U, W and S, one spanning-tree family, and (thorough) the simple-graph families; all three directions wherever the call takes one. A finding that the create_edge build of the same graph shows too keeps its signature, one that only the other build shows is c18:built-via-<batch|churn>:<what>");
    rep.rule("entry points and options: find_path(filters) | find_all_paths(None, capped 1/1) | find_variable_paths(hops, Outgoing/Incoming/Both, edge_type, edge_types list, allow_cycles, filter, max_paths=1) | traverse(3 directions, depth 0..n, type, filter) | neighbors + neighbors_paginated(3 directions, type, filter) | match_pattern(*min..max, 3 directions, type) + fixed one-hop pattern, match_simple, count_pattern_matches, pattern_exists | find_weighted_path('weight', property no edge has) | find_all_weighted_paths(None, capped 1/1) | astar_path(3 directions, type, heuristics, unweighted, default_weight) + astar_path_euclidean/manhattan where admissible | connected_components(None, type) | strongly_connected_components(default, with_condensation, type), is_strongly_connected | minimum_spanning_tree(forest, tree, other weight property + default_weight), minimum_spanning_forest | kcore_decomposition, kcore_subgraph, degeneracy | count_triangles(undirected; default when all edges undirected), local/global_clustering_coefficient | biconnected_components, articulation_points, bridges, is_biconnected");
    rep.assume("not judged (no definition in the property statement or ambiguous): edges_of/degree counters (adjacency primitives, not path queries), the deprecated entity-edge API (string keys, invisible to node-id queries), multi-hop fixed patterns (edge re-use semantics undefined), CommunityConfig.direction for connected_components, TriangleConfig::default on graphs with directed edges, is_biconnected on graphs with <= 2 nodes, pagerank/centrality/community/similarity scores, with_store/open_durable/recover (durability properties)");
    rep.assume("after batch_delete_nodes of the hub/decoy nodes, delete_edge of the twins and update_edge of the weights the graph is exactly the labelled graph (documented behaviour of those calls)");
    rep.assume("M: minimum_spanning_tree does not depend on node ids beyond the two name->id maps tried (ascending/descending by first appearance in weight order)");
    rep.assume("filter predicate evaluation (TraversalFilter::matches_edge/matches_node) is trusted: the reference asks the engine's predicate which edges/nodes pass");
    rep.assume("an engine whose edges were deleted again behaves like a fresh one (every kept counterexample is re-confirmed on a fresh engine)");
    rep.assume("node filters exempt start and end node (as documented in the code); traverse with a node filter may either hide or block rejected nodes");
    rep.assume("k-core, triangles, articulation points and biconnected components are judged on the simple undirected projection (self-loops dropped, parallel edges merged); bridges on the multigraph");

    if let Some(path) = rep.args.replay.clone() {
        let v: Value = serde_json::from_str(&std::fs::read_to_string(&path).expect("read replay")).expect("parse replay");
        replay_graph(&mut rep, &v, thorough);
        rep.finish();
    }

    let mut total = Acc::default();
    let mut graphs_total = 0u64;
    // development aid: --only=<prefix> runs the spaces whose name starts with the prefix (never reported as exhaustive)
    let only = rep.args.flag("only");
    if only.is_some() {
        rep.capped("--only given: not all spaces were run");
    }
    let want = |name: &str| only.as_ref().map_or(true, |p| name.starts_with(p.as_str()));
    for sp in spaces(thorough) {
        if !want(&sp.name) {
            continue;
        }
        let t = std::time::Instant::now();
        let a = run_space(&sp);
        let g = a.c.get("graphs").copied().unwrap_or(0);
        graphs_total += g;
        eprintln!("[C18] {:<28} graphs={g:<8} calls={:<10} {:.1}s", sp.name, a.c.get("engine_calls").copied().unwrap_or(0), t.elapsed().as_secs_f64());
        rep.part(&sp.name, json!({"nodes": sp.n, "edge_alphabet": sp.labels.len(), "max_edges": sp.max_edges, "ordered_sequences": sp.ordered, "max_hops": sp.params.hops, "built_via": sp.builds.iter().map(|b| b.name()).collect::<Vec<_>>(), "graphs_x_builds": g, "counters": a.c, "violating_queries_by_signature": a.sig_cases}));
        total.merge(a);
    }
    // S2: all simple graphs
    {
        // shapes of a present edge {i<j}: undirected w=1 ; directed i->j w=0 type B ; directed j->i w=5
        let kinds3 = [(false, false, 0u8, 1u8), (true, false, 1, 0), (true, true, 0, 3)];
        let kinds1 = [(false, false, 0u8, 1u8)];
        let kinds2 = [(false, false, 0u8, 1u8), (true, false, 1, 3)];
        // last field: the construction paths through which the whole family is built (one run per path)
        let step: &[Build] = &[Build::Step];
        let step_batch: &[Build] = &[Build::Step, Build::Batch];
        let every: &[Build] = &[Build::Step, Build::Batch, Build::Churn];
        let mut s2: Vec<(&str, usize, &[(bool, bool, u8, u8)], bool, &[Build])> = vec![("S/all simple graphs n=4 x3 shapes", 4, &kinds3, true, if thorough { step_batch } else { step }), ("S/all simple undirected graphs n=5", 5, &kinds1, false, if thorough { every } else { step })];
        if thorough {
            s2.push(("S/all simple graphs n=5 x2 shapes", 5, &kinds2, true, step));
            s2.push(("S/all simple undirected graphs n=6", 6, &kinds1, false, step));
        }
        for (fam, n, kinds, types, builds) in s2 {
            for &build in builds {
                let name = if build == Build::Step { fam.to_string() } else { format!("B/{} via {}", &fam[2..], build.tag()) };
                let name = name.as_str();
                if !want(name) {
                    continue;
                }
                let t = std::time::Instant::now();
                // thin wrappers: quick on the undirected 5-node family, thorough also on the 4-node x3 family
                let a = run_simple_graphs(name, n, kinds, types, build, (n == 5 && kinds.len() == 1) || (thorough && n == 4));
                let g = a.c.get("graphs").copied().unwrap_or(0);
                graphs_total += g;
                eprintln!("[C18] {name:<28} graphs={g:<8} {:.1}s", t.elapsed().as_secs_f64());
                rep.part(name, json!({"nodes": n, "graphs": g, "built_via": build.name(), "counters": a.c, "violating_queries_by_signature": a.sig_cases}));
                total.merge(a);
            }
        }
    }
    // M: spanning trees on 6 (7) nodes, every Kruskal processing order
    {
        // (nodes, max edges, unit depth, descending ids, construction path)
        let fam: Vec<(usize, usize, usize, bool, Build)> = if thorough {
            vec![(6, 6, 4, false, Build::Step), (6, 6, 4, true, Build::Step), (7, 6, 4, false, Build::Step), (7, 6, 4, true, Build::Step), (6, 5, 3, false, Build::Batch), (6, 4, 3, true, Build::Churn)]
        } else {
            vec![(6, 5, 3, false, Build::Step), (6, 5, 3, true, Build::Step), (7, 5, 3, false, Build::Step), (7, 5, 3, true, Build::Step), (6, 4, 3, false, Build::Batch)]
        };
        for (n, m, depth, desc, build) in fam {
            let name = format!("{}/n={n} <={m} distinct-weight undirected edges, ids {}{}", if build == Build::Step { "M" } else { "B/M" }, if desc { "descending" } else { "ascending" }, if build == Build::Step { String::new() } else { format!(" via {}", build.tag()) });
            if !want(&name) {
                continue;
            }
            let t = std::time::Instant::now();
            let a = run_mst_family(n, m, desc, depth, build);
            let g = a.c.get("graphs").copied().unwrap_or(0);
            graphs_total += g;
            eprintln!("[C18] {name:<28} graphs={g:<8} {:.1}s", t.elapsed().as_secs_f64());
            rep.part(&name, json!({"nodes": n, "max_edges": m, "graphs": g, "built_via": build.name(), "counters": a.c, "violating_queries_by_signature": a.sig_cases}));
            total.merge(a);
        }
    }
    // D: zero-weight closed walks, in subprocesses
    if want("D/") {
        let t = std::time::Instant::now();
        let (n, k) = if thorough { (3, 3) } else { (3, 2) };
        let ls = labels(n, &[0], &[0, 1], &[true, false]);
        // an undirected edge is listed once (lower node first)
        let ls: Vec<EL> = ls.into_iter().filter(|l| l.dir || l.u <= l.v).collect();
        let a = part_d(n, &ls, k);
        let g = a.c.get("graphs").copied().unwrap_or(0);
        graphs_total += g;
        eprintln!("[C18] {:<28} graphs={g:<8} {:.1}s", "D/zero-weight closed walks", t.elapsed().as_secs_f64());
        rep.part("D/zero-weight closed walks (subprocess, allocation budget)", json!({"nodes": n, "edge_alphabet": ls.len(), "max_edges": k, "graphs_with_zero_weight_closed_walk": g, "counters": a.c, "violating_queries_by_signature": a.sig_cases}));
        total.merge(a);
    }

    // keep <=3 smallest artefacts per signature, each re-confirmed on a fresh engine
    for (sig, arts) in &total.arts {
        for a in arts {
            let part = a.replay["part"].as_str().unwrap_or("U");
            let mut replay = a.replay.clone();
            if part != "D" && !sig.starts_with("c18:harness") {
                let n = a.replay["n"].as_u64().unwrap() as usize;
                let ls: Vec<EL> = a.replay["edges"].as_array().unwrap().iter().map(EL::from_json).collect();
                let pt = match part {
                    "W" => Part::W,
                    "S" => Part::S,
                    "M" => Part::M,
                    _ => Part::U,
                };
                let build = Build::from_tag(a.replay["build"].as_str().unwrap_or("step"));
                let mut pp = params(pt, n, thorough, true, false);
                pp.wrappers = true;
                match confirm_fresh(sig, pt, n, &ls, &pp, build) {
                    Some(off) => replay["reproduced_on_fresh_engine_at_hash_seed_offset"] = json!(off),
                    None => rep.machinery(format!("violation {sig} found on a reused engine is not reproduced on a fresh engine: {}", a.replay)),
                }
            }
            rep.violation(sig.clone(), a.msg.clone(), replay);
        }
    }
    if total.sig_cases.keys().any(|s| s.starts_with("c18:harness")) {
        rep.machinery("reference oracle inconsistent with a walk it validated itself");
    }
    let queries: u64 = total.c.iter().filter(|(k, _)| k.ends_with(".queries") || k.ends_with(".calls")).map(|(_, v)| *v).sum();
    let calls = total.c.get("engine_calls").copied().unwrap_or(0) + total.c.get("D.pairs_returned").copied().unwrap_or(0) + total.c.get("D.pairs_diverged").copied().unwrap_or(0);
    rep.add("states", graphs_total);
    rep.add("transitions", calls);
    rep.add("traces_validated_against_impl", queries);
    rep.add("evaluations", queries);
    rep.add("distinct_nontrivial", total.c.get("nontrivial").copied().unwrap_or(0));
    rep.set("counters", json!(total.c));
    rep.set("violating_queries_by_signature", json!(total.sig_cases));
    rep.set("violating_graphs_by_signature", json!(total.sig_graphs));
    rep.set("explanation", json!("no separate model: every query runs the real GraphEngine; the reference is brute-force BFS / Bellman-Ford / walk enumeration / Floyd-Warshall / Prim + subset enumeration / cycle enumeration written in this file"));
    for s in total.samples.iter().take(4) {
        rep.sample(s.clone());
    }
    rep.sample(json!({"graph": ["e1: n0->n1 :A w=5.0", "e2: n0->n1 :A w=1"], "query": "astar_path(n0,n1,Outgoing,h=0)", "reference": "minimum weight 1 via e2"}));
    rep.sample(json!({"graph": ["e1: n0--n1 :A w absent"], "built_via": "batch_create_edges", "query": "traverse(n0, Incoming, depth 1)", "reference": "{n0, n1}"}));
    let no_path = total.c.get("find_path.no_path_answers").copied().unwrap_or(0);
    let alt_graphs = total.c.get("graphs_built_via_batch_create_edges").copied().unwrap_or(0) + total.c.get("graphs_built_via_churn(batch+update_edge+delete_edge+delete_node)").copied().unwrap_or(0);
    if only.is_none() && (alt_graphs < 1000 || total.c.get("graphs_built_via_churn(batch+update_edge+delete_edge+delete_node)").copied().unwrap_or(0) == 0 || total.c.get("alt_built_graphs_with_undirected_edge").copied().unwrap_or(0) < 100) {
        rep.machinery("vacuous exploration: too few graphs built through batch_create_edges / the churn path, or none of them with an undirected edge");
    }
    rep.add("graphs_built_through_alternative_construction_paths", alt_graphs);
    if graphs_total < 1000 || total.c.get("nontrivial").copied().unwrap_or(0) < 1000 || no_path == 0 || total.c.get("graphs_with_self_loop").copied().unwrap_or(0) == 0 || total.c.get("graphs_with_parallel_edges").copied().unwrap_or(0) == 0 {
        rep.machinery("vacuous exploration: too few graphs / non-trivial answers / no 'no path' answers / no self-loops or parallel edges");
    }
    rep.finish();
}
