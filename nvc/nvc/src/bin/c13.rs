//! C13 — a 2PC coordinator restarted from its WAL preserves every logged decision (DESIGN §3).
//! Real DistributedTxCoordinator + TxWal, every crash image, recovery continuations, 3 epochs.
use nvc::crashx::{seqs, Explorer, Stats, Subject};
use nvc::{env, par, Report};
use serde::{Deserialize, Serialize};
use serde_json::json;
use std::collections::BTreeSet;
use tensor_chain::block::Transaction;
use tensor_chain::consensus::{ConsensusConfig, ConsensusManager};
use tensor_chain::distributed_tx::{DistributedTxConfig, DistributedTxCoordinator, PrepareRequest, PrepareVote, TxPhase};
use tensor_chain::tx_wal::TxWal;
use tensor_store::SparseVector;

const SHARDS: [usize; 2] = [0, 1];

#[derive(Clone, Debug, PartialEq, Serialize, Deserialize)]
enum Op {
    Begin(u8),
    /// participant `shard` is asked to prepare (coordinator-side lock + vote) and its YES is recorded
    Yes(u8, usize),
    No(u8, usize),
    Commit(u8),
    Abort(u8),
    /// advance the clock by one hour and run the timeout sweeper
    Timeouts,
    /// in-memory recovery pass (`recover()`), then complete whatever it marks as decided
    RecoverAndComplete,
    /// log checkpoint (`truncate_wal()`), taken only at a quiescent moment (no transaction in flight)
    TruncateWal,
    /// a vote for transaction t arrives from a shard that is not one of its participants
    StrayVote(u8),
    /// the cluster run loop's tick: queued timeout aborts are logged as intents and sent (async path)
    ProcessAborts,
}

#[derive(Clone, Debug, PartialEq)]
enum St {
    /// never begun, or forgotten by a restart
    None,
    /// begun; yes/no votes recorded so far
    Preparing { yes: BTreeSet<usize>, no: BTreeSet<usize> },
    /// record_vote returned Prepared (all votes yes, logged)
    Prepared,
    /// commit() returned Ok: TxComplete{Committed} is in the log
    Committed,
    /// abort() returned Ok: TxComplete{Aborted} is in the log
    Aborted,
    /// restart found the commit decision logged without completion
    Committing,
    /// restart found the abort decision logged without completion
    Aborting,
    /// the coordinator moved on without logging (timeout sweep, unlogged abort decision, completion
    /// after recovery): nothing is promised about this transaction
    NoPromise,
    /// all votes were logged (Prepared), then the timeout sweep dropped the transaction in memory without
    /// logging an outcome: it had all votes and no outcome, so a restart must still know it
    PreparedTimedOut,
}

#[derive(Clone, Debug)]
struct Slot {
    id: Option<u64>,
    st: St,
}
type Model = Vec<Slot>;

struct Live {
    c: DistributedTxCoordinator,
}

fn block_on_ready<F: std::future::Future>(f: F) {
    use std::task::{Context, Poll, RawWaker, RawWakerVTable, Waker};
    fn noop(_: *const ()) {}
    fn clone(_: *const ()) -> RawWaker {
        RawWaker::new(std::ptr::null(), &VTABLE)
    }
    static VTABLE: RawWakerVTable = RawWakerVTable::new(clone, noop, noop, noop);
    let waker = unsafe { Waker::from_raw(RawWaker::new(std::ptr::null(), &VTABLE)) };
    let mut cx = Context::from_waker(&waker);
    let mut f = std::pin::pin!(f);
    // MemoryTransport sends complete immediately; a pending future would mean the tick did not finish
    if let Poll::Pending = f.as_mut().poll(&mut cx) {
        panic!("process_pending_aborts did not complete immediately");
    }
}

struct TxSubject {
    slots: usize,
    /// slot 1 writes the same key as slot 0 on shard 0 (lock conflict => Conflict vote)
    overlap: bool,
}

impl TxSubject {
    fn open_coord(dir: &str) -> Result<DistributedTxCoordinator, String> {
        // every (re)started coordinator begins at the base time: restored transactions get fresh start
        // times anyway, and the virtual clock must not accumulate hours over millions of images
        env::clock_reset();
        let wal = TxWal::open(format!("{dir}/tx.wal")).map_err(|e| format!("TxWal::open: {e}"))?;
        let mut cfg = DistributedTxConfig::default();
        cfg.prepare_timeout_ms = 60_000; // never fires by itself: the clock is frozen
        let c = DistributedTxCoordinator::new(ConsensusManager::new(ConsensusConfig::default()), cfg).with_wal(wal);
        c.recover_from_wal().map_err(|e| format!("recover_from_wal: {e}"))?;
        Ok(c)
    }
    fn key(&self, slot: u8, shard: usize) -> String {
        if self.overlap && shard == 0 {
            "shared_0".to_string()
        } else {
            format!("k{slot}_{shard}")
        }
    }
    fn sync_from_live(c: &DistributedTxCoordinator, s: &mut Slot) {
        // after a restart / recover(): what the coordinator holds decides what is promised next
        if let Some(id) = s.id {
            match (c.get(id).map(|t| t.phase), &s.st) {
                (_, St::Committed | St::Aborted) => {}
                (Some(TxPhase::Prepared), _) => s.st = St::Prepared,
                (Some(TxPhase::Committing), _) => s.st = St::Committing,
                (Some(TxPhase::Aborting), _) => s.st = St::Aborting,
                (Some(TxPhase::Preparing), St::Preparing { .. }) => {}
                (Some(_), _) => s.st = St::NoPromise,
                (None, _) => {
                    s.st = St::None;
                    s.id = None;
                }
            }
        }
    }
}

impl Subject for TxSubject {
    type Op = Op;
    type Model = Model;
    type Live = Live;
    fn tag(&self) -> &'static str {
        "c13"
    }
    fn open(&self, dir: &str, _epoch: usize) -> Result<Live, String> {
        Ok(Live { c: Self::open_coord(dir)? })
    }
    fn initial_model(&self) -> Model {
        vec![Slot { id: None, st: St::None }; self.slots]
    }
    fn step(&self, live: &mut Live, m: &Model, op: &Op) -> Model {
        let mut m = m.clone();
        let c = &live.c;
        match op {
            Op::Begin(t) => {
                let s = &mut m[*t as usize];
                if matches!(s.st, St::None | St::Committed | St::Aborted | St::NoPromise | St::PreparedTimedOut) {
                    if let Ok(tx) = c.begin(&"coord".to_string(), &SHARDS) {
                        *s = Slot { id: Some(tx.tx_id), st: St::Preparing { yes: BTreeSet::new(), no: BTreeSet::new() } };
                    }
                }
            }
            Op::Yes(t, shard) | Op::No(t, shard) => {
                let is_yes = matches!(op, Op::Yes(..));
                let key = self.key(*t, *shard);
                let s = &mut m[*t as usize];
                if let Some(id) = s.id {
                    let vote = if is_yes {
                        c.handle_prepare(&PrepareRequest { tx_id: id, coordinator: "coord".into(), operations: vec![Transaction::Put { key, data: vec![1] }], delta_embedding: SparseVector::new(0), timeout_ms: 60_000 })
                    } else {
                        PrepareVote::No { reason: "no".into() }
                    };
                    let voted_yes = matches!(vote, PrepareVote::Yes { .. });
                    let r = c.record_vote(id, *shard, vote);
                    if let St::Preparing { yes, no } = &mut s.st {
                        match r {
                            Ok(Some(TxPhase::Prepared)) => s.st = St::Prepared,
                            Ok(Some(_)) => s.st = St::NoPromise, // abort decided in memory only
                            Ok(None) => {
                                if voted_yes {
                                    yes.insert(*shard);
                                } else {
                                    no.insert(*shard);
                                }
                            }
                            Err(_) => {}
                        }
                    }
                }
            }
            Op::Commit(t) => {
                let s = &mut m[*t as usize];
                if let Some(id) = s.id {
                    if c.commit(id).is_ok() {
                        s.st = St::Committed;
                    }
                }
            }
            Op::Abort(t) => {
                let s = &mut m[*t as usize];
                if let Some(id) = s.id {
                    if c.abort(id, "client abort").is_ok() {
                        s.st = St::Aborted;
                    }
                }
            }
            Op::Timeouts => {
                env::clock_advance_ms(3_600_000);
                let timed = c.cleanup_timeouts();
                for s in m.iter_mut() {
                    if s.id.is_some_and(|id| timed.contains(&id)) && !matches!(s.st, St::Committed | St::Aborted) {
                        s.st = if s.st == St::Prepared { St::PreparedTimedOut } else { St::NoPromise };
                    }
                }
            }
            Op::TruncateWal => {
                if m.iter().all(|s| matches!(s.st, St::None | St::Committed | St::Aborted)) {
                    let _ = c.truncate_wal();
                }
            }
            Op::StrayVote(t) => {
                if let Some(id) = m[*t as usize].id {
                    // refused live (not a participant / wrong phase); it must not come back on replay either
                    let _ = c.record_vote(id, 7, PrepareVote::No { reason: "stray".into() });
                }
            }
            Op::ProcessAborts => {
                let transport = tensor_chain::network::MemoryTransport::new("coord".to_string());
                block_on_ready(c.process_pending_aborts(&transport));
            }
            Op::RecoverAndComplete => {
                let _ = c.recover();
                for (id, phase) in c.get_pending_decisions() {
                    let ok = match phase {
                        TxPhase::Committing => c.complete_commit(id).is_ok(),
                        _ => c.complete_abort(id).is_ok(),
                    };
                    if ok {
                        if let Some(s) = m.iter_mut().find(|s| s.id == Some(id)) {
                            if !matches!(s.st, St::Committed | St::Aborted) {
                                s.st = St::NoPromise; // completion after recovery is not logged
                            }
                        }
                    }
                }
                for s in m.iter_mut() {
                    if !matches!(s.st, St::NoPromise) {
                        Self::sync_from_live(c, s);
                    }
                }
            }
        }
        m
    }
    fn recover_and_check(&self, dir: &str, states: &[Model], lo: usize, hi: usize, _epoch: usize) -> Result<Model, (String, String)> {
        let c = Self::open_coord(dir).map_err(|e| ("recovery-fails".to_string(), e))?;
        let acked = &states[lo];
        let inprog = &states[hi];
        let mut next = acked.clone();
        for (t, (a, p)) in acked.iter().zip(inprog.iter()).enumerate() {
            let Some(id) = a.id.or(p.id) else { continue };
            if a.id.is_none() {
                // begin() had not returned: nothing promised about this transaction yet
                next[t] = Slot { id: Some(id), st: St::NoPromise };
                Self::sync_from_live(&c, &mut next[t]);
                continue;
            }
            let got = c.get(id);
            let phase = got.as_ref().map(|t| t.phase);
            let fail = |what: &str, msg: String| Err((what.to_string(), format!("tx slot {t} (acknowledged {:?}, in progress {:?}): {msg}", a.st, p.st)));
            match &a.st {
                St::Committed => {
                    if phase == Some(TxPhase::Aborting) || phase == Some(TxPhase::Aborted) {
                        return fail("committed-tx-comes-back-aborting", format!("restored in phase {phase:?}"));
                    }
                }
                St::Aborted => {
                    if matches!(phase, Some(TxPhase::Committing | TxPhase::Committed | TxPhase::Prepared)) {
                        return fail("aborted-tx-comes-back-committable", format!("restored in phase {phase:?}"));
                    }
                }
                St::Prepared => {
                    let decision_in_progress = matches!(p.st, St::Committed | St::Aborted | St::NoPromise);
                    match phase {
                        Some(TxPhase::Prepared) => {
                            let tx = got.as_ref().unwrap();
                            let all_yes = SHARDS.iter().all(|s| matches!(tx.votes.get(s), Some(PrepareVote::Yes { .. })));
                            if !all_yes {
                                return fail("prepared-tx-votes-lost", format!("restored votes {:?}", tx.votes.keys().collect::<Vec<_>>()));
                            }
                        }
                        Some(TxPhase::Committing) if matches!(p.st, St::Committed) => {}
                        Some(TxPhase::Aborting) if matches!(p.st, St::Aborted) => {}
                        None if decision_in_progress => {}
                        other => return fail("prepared-tx-not-restored", format!("coordinator holds {other:?}")),
                    }
                }
                St::Preparing { .. } => match (&p.st, phase) {
                    (_, None) => {}
                    (St::Prepared, Some(TxPhase::Prepared)) => {}
                    (St::Aborted, Some(TxPhase::Aborting)) => {}
                    (_, other) => return fail("vote-collecting-tx-restored", format!("coordinator holds {other:?} for a transaction that was still collecting votes")),
                },
                St::Committing => {
                    if !matches!(phase, Some(TxPhase::Committing) | None) && !matches!(p.st, St::Aborted) {
                        return fail("committing-tx-changed", format!("coordinator holds {phase:?}"));
                    }
                }
                St::Aborting => {
                    if matches!(phase, Some(TxPhase::Committing | TxPhase::Prepared)) {
                        return fail("aborting-tx-committable", format!("coordinator holds {phase:?}"));
                    }
                }
                St::PreparedTimedOut => {
                    if phase.is_none() && !matches!(p.st, St::None | St::Preparing { .. }) {
                        return fail("fully-voted-tx-without-outcome-forgotten", "all votes were logged and no outcome was: the coordinator must still know the transaction after a restart".to_string());
                    }
                }
                St::None | St::NoPromise => {}
            }
            if matches!(a.st, St::Committed | St::Aborted | St::Preparing { .. }) && matches!(p.st, St::Committed | St::Aborted | St::Preparing { .. }) && c.lock_manager().lock_count_for_transaction(id) != 0 {
                return fail("locks-left-behind", format!("{} locks held after restart", c.lock_manager().lock_count_for_transaction(id)));
            }
            Self::sync_from_live(&c, &mut next[t]);
        }
        // drive the recovered coordinator: nothing that was completed may be reversed
        let committed: Vec<u64> = acked.iter().filter(|s| s.st == St::Committed).filter_map(|s| s.id).collect();
        let aborted: Vec<u64> = acked.iter().filter(|s| s.st == St::Aborted).filter_map(|s| s.id).collect();
        let prepared: Vec<(usize, u64)> = acked.iter().zip(inprog.iter()).enumerate().filter(|(_, (a, p))| a.st == St::Prepared && p.st == St::Prepared).filter_map(|(t, (a, _))| a.id.map(|i| (t, i))).collect();
        for id in &aborted {
            if c.commit(*id).is_ok() || c.complete_commit(*id).is_ok() {
                return Err(("aborted-tx-committed-after-restart".into(), format!("commit({id}) succeeds after restart although abort had completed")));
            }
        }
        for id in &committed {
            if c.abort(*id, "probe").is_ok() || c.complete_abort(*id).is_ok() {
                return Err(("committed-tx-aborted-after-restart".into(), format!("abort({id}) succeeds after restart although commit had completed")));
            }
        }
        let _ = c.recover();
        let decisions = c.get_pending_decisions();
        // a second recovery pass after the prepare timeout has elapsed must not reverse a commit decision
        // the first pass has taken
        env::clock_advance_ms(3_600_000);
        let _ = c.recover();
        let decisions2 = c.get_pending_decisions();
        for (id, ph) in &decisions {
            if *ph == TxPhase::Committing && decisions2.iter().any(|(i, p2)| i == id && *p2 == TxPhase::Aborting) {
                return Err(("commit-decision-reversed-by-second-recovery".into(), format!("recover() decided commit for {id}; a second recover() after the timeout turns it into abort")));
            }
        }
        for id in &committed {
            if decisions.iter().any(|(i, ph)| i == id && *ph == TxPhase::Aborting) {
                return Err(("committed-tx-aborted-after-restart".into(), format!("recover() marks completed commit {id} as Aborting")));
            }
        }
        for (t, id) in &prepared {
            // all votes in, no outcome: must be drivable to completion
            let r = match c.get(*id).map(|x| x.phase) {
                Some(TxPhase::Prepared) => c.commit(*id).map_err(|e| e.to_string()),
                Some(TxPhase::Committing) => c.complete_commit(*id).map_err(|e| e.to_string()),
                other => Err(format!("phase {other:?}")),
            };
            if let Err(e) = r {
                return Err(("prepared-tx-cannot-complete".into(), format!("tx slot {t}: fully voted transaction cannot be committed after restart: {e}")));
            }
        }
        env::clock_advance_ms(3_600_000);
        let timed = c.cleanup_timeouts();
        let queued = c.take_pending_aborts();
        for id in &committed {
            if timed.contains(id) || queued.iter().any(|(i, _, _)| i == id) {
                return Err(("committed-tx-timed-out-after-restart".into(), format!("completed commit {id} is timed out / queued for abort after restart")));
            }
        }
        Ok(next)
    }
    fn describe(&self, m: &Model) -> String {
        m.iter().map(|s| format!("{:?}", s.st)).collect::<Vec<_>>().join("|")
    }
}

fn alphabet(level: u8) -> Vec<Op> {
    match level {
        // minimal: one transaction driven forward
        0 => vec![Op::Begin(0), Op::Yes(0, 0), Op::Yes(0, 1), Op::Commit(0)],
        // one transaction, all outcomes, plus recovery-side calls
        1 => vec![Op::Begin(0), Op::Yes(0, 0), Op::Yes(0, 1), Op::No(0, 0), Op::No(0, 1), Op::Commit(0), Op::Abort(0), Op::Timeouts, Op::RecoverAndComplete, Op::StrayVote(0), Op::TruncateWal, Op::ProcessAborts],
        // two transactions
        2 => vec![Op::Begin(0), Op::Yes(0, 0), Op::Yes(0, 1), Op::Commit(0), Op::Abort(0), Op::Begin(1), Op::Yes(1, 0), Op::Yes(1, 1), Op::Commit(1), Op::Timeouts],
        // continuation: recovery calls and a new transaction
        _ => vec![Op::RecoverAndComplete, Op::Commit(0), Op::Abort(0), Op::Timeouts, Op::Begin(1), Op::Yes(1, 0), Op::Yes(1, 1), Op::Commit(1)],
    }
}

/// scripted prefixes that reach the deep states (all reachable by construction)
fn prefixes() -> Vec<Vec<Op>> {
    vec![
        vec![],
        vec![Op::Begin(0), Op::Yes(0, 0)],
        vec![Op::Begin(0), Op::Yes(0, 0), Op::Yes(0, 1)],
        vec![Op::Begin(0), Op::Yes(0, 0), Op::Yes(0, 1), Op::Commit(0)],
        vec![Op::Begin(0), Op::Yes(0, 0), Op::Yes(0, 1), Op::Begin(1), Op::Yes(1, 0), Op::Yes(1, 1)],
        // a log checkpoint at a quiescent moment, then a new transaction on the checkpointed log
        vec![Op::Begin(0), Op::Yes(0, 0), Op::Yes(0, 1), Op::Commit(0), Op::TruncateWal],
        vec![Op::Begin(0), Op::Yes(0, 0), Op::Yes(0, 1), Op::Commit(0), Op::TruncateWal, Op::Begin(0), Op::Yes(0, 0)],
    ]
}

#[derive(Clone)]
struct Job {
    overlap: bool,
    first: Vec<Op>,
    cont: Vec<Vec<Vec<Op>>>,
}

fn jobs(thorough: bool) -> Vec<Job> {
    let mut v = vec![];
    // (prefix set, alphabet level, max extra length, continuation plan)
    let plans: Vec<(u8, usize, Vec<(u8, usize)>)> = if thorough {
        vec![(1, 3, vec![]), (2, 2, vec![(3, 1)]), (1, 1, vec![(3, 1), (3, 1)]), (0, 2, vec![(3, 1), (0, 1)])]
    } else {
        vec![(1, 2, vec![]), (2, 1, vec![(3, 1)]), (0, 1, vec![(3, 1), (0, 1)])]
    };
    for overlap in [false, true] {
        for (level, len, cont) in &plans {
            let cont: Vec<Vec<Vec<Op>>> = cont.iter().map(|(l, n)| seqs(&alphabet(*l), *n)).collect();
            for p in prefixes() {
                let mut exts = seqs(&alphabet(*level), *len);
                exts.push(vec![]);
                for e in exts {
                    let mut h = p.clone();
                    h.extend(e);
                    if h.is_empty() || (overlap && !h.iter().any(|o| matches!(o, Op::Begin(1)))) {
                        continue;
                    }
                    v.push(Job { overlap, first: h, cont: cont.clone() });
                }
            }
        }
    }
    v
}

fn worker(i: usize, n: usize, thorough: bool) {
    let dir = format!("{}/c13", env::scratch_root());
    let mut total = Stats::default();
    let mut seen = std::collections::HashSet::new();
    for (idx, job) in jobs(thorough).into_iter().enumerate() {
        if idx % n != i {
            continue;
        }
        env::clock_reset();
        let subject = TxSubject { slots: 2, overlap: job.overlap };
        let mut ex = Explorer::new(&subject, &dir);
        ex.cont_all_first = thorough;
        ex.cfg_label = json!({"overlapping_keys": job.overlap});
        ex.cont = job.cont.clone();
        ex.seen = std::mem::take(&mut seen);
        ex.run(&job.first);
        seen = std::mem::take(&mut ex.seen);
        total.merge(ex.stats.clone());
    }
    total.distinct_recovered = seen.len() as u64;
    env::scratch_cleanup();
    par::emit_result(&total);
}

fn main() {
    env::require();
    env::clock_freeze(1_750_000_000);
    let args = nvc::Args::parse();
    if let Some((i, n)) = args.worker {
        worker(i, n, args.thorough());
        return;
    }
    let mut rep = Report::new("C13", "fault_enumeration");
    let thorough = rep.thorough();
    rep.rule("histories: 7 scripted prefixes (reachable by construction, two of them with a log checkpoint at a quiescent moment) extended by every sequence (quick <=2, thorough <=3) of {begin, yes-vote(via handle_prepare), no-vote, commit, abort, timeout sweep (clock +1h), recover()+complete, a vote from a non-participant shard, truncate_wal() when no transaction is in flight, the async abort tick process_pending_aborts} over 1-2 transactions x 2 shards, disjoint and overlapping keys; crash images: every I/O-op boundary and every byte cut of every TxWal write; after every image: recover_from_wal, then commit/abort/complete/recover()/second recover() after the timeout/cleanup_timeouts probes; epochs 2-3 continue with recovery calls and new transactions. non-trivial = torn image");
    rep.assume("crash model: prefix persistence; TxWal fsyncs every record so acknowledged = call returned; frozen virtual clock (timeouts fire only when the harness advances it)");
    rep.assume("promises: commit()/abort() returning Ok (TxComplete logged), record_vote returning Prepared (logged); timeout sweeps, in-memory abort decisions and complete_* are not logged and promise nothing");
    let results: Vec<Stats> = par::spawn_workers(par::worker_count(), &[]);
    let mut t = Stats::default();
    for s in results {
        t.merge(s);
    }
    for v in &t.violations {
        rep.violation(v.signature.clone(), v.message.clone(), v.replay.clone());
    }
    rep.add("evaluations", t.recoveries);
    rep.add("distinct_nontrivial", t.torn_images);
    rep.add("states", t.images);
    rep.add("transitions", t.recoveries);
    rep.add("traces_validated_against_impl", t.histories);
    rep.part("totals", json!({"histories_run": t.histories, "crash_images": t.images, "torn_images": t.torn_images, "recoveries_executed": t.recoveries, "images_by_epoch": t.images_by_epoch, "distinct_recovered_states_max_per_worker": t.distinct_recovered, "first_epoch_jobs": jobs(thorough).len()}));
    if let Some(s) = t.sample {
        rep.sample(s);
    }
    if t.violations.is_empty() && (t.torn_images < 100 || t.distinct_recovered < 5) {
        rep.machinery("vacuous: too few torn images / recovered states");
    }
    rep.finish();
}
