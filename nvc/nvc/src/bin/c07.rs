//! C07 — snapshots reproduce the store exactly and replace files atomically (DESIGN §C07, §3).
//!
//! Round-trip half (E4): bounded-exhaustive store contents × snapshot formats, real code on both
//! sides, reference = observation of the original store taken before the save.
//!   P1  every value kind × every key class (single-entry stores) and every embedding shape × every
//!       embedding-slab dimension {4,255,256,257,384}
//!   P2  all subsets of a 6-entry pool (built directly, and built as "put all, delete the rest")
//!   P3  all subsets of the slabs that are not reachable through keys (relations, graph, blobs)
//!       populated through their own API, with and without keyed entries
//!   P4  all subsets of a 6-item pool created through the engines, compared by engine-level reads
//!   P5  two structured large stores (fixed instances)
//!   P6  every put/overwrite/delete sequence up to a depth over a 10-operation alphabet
//! Crash half (E2): real save over an existing snapshot with the file I/O logged by envshim → every
//! process-crash image (every op boundary, every byte cut of every write) → real load of the path →
//! must equal the old or the new snapshot; then a further save on the crashed directory.
use nvc::crash::{self, EnumCfg, Fs};
use nvc::{env, par, Report};
use rayon::prelude::*;
use serde::{Deserialize, Serialize};
use serde_json::{json, Value as J};
use std::collections::{BTreeMap, BTreeSet, HashMap};
use tensor_compress::CompressionConfig;
use tensor_store::{ScalarValue, SlabRouter, SlabRouterConfig, SparseVector, TensorData, TensorStore, TensorValue};

/// documented compression threshold of the embedding slab (embedding_slab.rs TT_MIN_DIMENSION)
const THRESHOLD: usize = 256;
/// documented reconstruction tolerance: "Achieves 10-20x compression with <1% error" (TensorMode::TensorTrain)
const TOL: f64 = 1e-2;

// ------------------------------------------------------------------------------------------------
// value kinds
// ------------------------------------------------------------------------------------------------
type Fields = Vec<(String, TensorValue)>;

fn ramp(n: usize) -> Vec<f32> {
    (0..n).map(|i| i as f32 * 0.25 - 3.0).collect()
}
/// geometric sequence: TT-rank 1 under every reshaping
fn geo(n: usize) -> Vec<f32> {
    (0..n).map(|i| 0.3 * 1.01f32.powi(i as i32)).collect()
}
fn sine(n: usize) -> Vec<f32> {
    (0..n).map(|i| (i as f32 * 0.1).sin() + 2.0).collect()
}
/// deterministic dense vector without low-rank structure (no tolerance verdict, measured only)
fn lcg(n: usize) -> Vec<f32> {
    let mut s = 12345u32;
    (0..n)
        .map(|_| {
            s = s.wrapping_mul(1664525).wrapping_add(1013904223);
            ((s >> 8) as f32 / (1u32 << 24) as f32) * 2.0 - 1.0
        })
        .collect()
}
/// two thirds zeros
fn third(n: usize) -> Vec<f32> {
    (0..n).map(|i| if i % 3 == 0 { 1.0 + i as f32 * 0.01 } else { 0.0 }).collect()
}
fn sc(s: ScalarValue) -> TensorValue {
    TensorValue::Scalar(s)
}
fn one(v: TensorValue) -> Fields {
    vec![("v".to_string(), v)]
}

/// generic kinds: field `v` (or the named fields) under any key
fn generic_kinds() -> Vec<(String, Fields)> {
    let mut k: Vec<(String, Fields)> = vec![];
    let mut add = |n: &str, f: Fields| k.push((n.to_string(), f));
    add("empty-entry", vec![]);
    add("null", one(sc(ScalarValue::Null)));
    add("bool-true", one(sc(ScalarValue::Bool(true))));
    add("bool-false", one(sc(ScalarValue::Bool(false))));
    add("int-min", one(sc(ScalarValue::Int(i64::MIN))));
    add("int-max", one(sc(ScalarValue::Int(i64::MAX))));
    add("int-0", one(sc(ScalarValue::Int(0))));
    add("int-neg1", one(sc(ScalarValue::Int(-1))));
    add("float-nan", one(sc(ScalarValue::Float(f64::NAN))));
    add("float-inf", one(sc(ScalarValue::Float(f64::INFINITY))));
    add("float-neginf", one(sc(ScalarValue::Float(f64::NEG_INFINITY))));
    add("float-negzero", one(sc(ScalarValue::Float(-0.0))));
    add("float-1.5", one(sc(ScalarValue::Float(1.5))));
    add("float-max", one(sc(ScalarValue::Float(f64::MAX))));
    add("float-subnormal", one(sc(ScalarValue::Float(5e-324))));
    add("string-empty", one(sc(ScalarValue::String(String::new()))));
    add("string-unicode", one(sc(ScalarValue::String("é漢🎉\n\0x".into()))));
    add("string-looks-like-bytes", one(sc(ScalarValue::String("bytes:3".into()))));
    add("bytes-empty", one(sc(ScalarValue::Bytes(vec![]))));
    add("bytes-3", one(sc(ScalarValue::Bytes(vec![0, 255, 7]))));
    add("bytes-300", one(sc(ScalarValue::Bytes((0..300u32).map(|i| (i * 7 % 256) as u8).collect()))));
    add("vec-empty", one(TensorValue::Vector(vec![])));
    add("vec-1", one(TensorValue::Vector(vec![1.5])));
    add("vec-3", one(TensorValue::Vector(vec![1.0, -2.0, 0.5])));
    add("vec-special", one(TensorValue::Vector(vec![f32::NAN, -0.0, f32::INFINITY, f32::MIN_POSITIVE])));
    add("vec-sorted-ints", one(TensorValue::Vector(vec![1.0, 2.0, 3.0, 70000.0])));
    add("vec-ids-unsorted", vec![("ids".to_string(), TensorValue::Vector(vec![3.0, 1.0, 2.0]))]);
    add("vec-255", one(TensorValue::Vector(ramp(255))));
    add("vec-256", one(TensorValue::Vector(ramp(256))));
    add("vec-257", one(TensorValue::Vector(ramp(257))));
    add("vec-384", one(TensorValue::Vector(geo(384))));
    // `_embedding` whose length differs from the slab dimension: stays a plain field
    add("embfield-3", vec![("_embedding".to_string(), TensorValue::Vector(vec![1.0, -2.0, 0.5]))]);
    add("vectorfield-3", vec![("vector".to_string(), TensorValue::Vector(vec![0.25, -2.0, 0.5]))]);
    add("sparse-small", one(TensorValue::Sparse(SparseVector::from_dense(&[0.0, 0.0, 1.5, 0.0, -2.0, 0.0, 0.0, 0.0]))));
    add("sparse-none", one(TensorValue::Sparse(SparseVector::new(8))));
    add("sparse-384", one(TensorValue::Sparse(SparseVector::from_dense(&third(384)))));
    add("vectorfield-sparse", vec![("vector".to_string(), TensorValue::Sparse(SparseVector::from_dense(&[0.0, 0.0, 1.5, 0.0, -2.0, 0.0, 0.0, 0.0])))]);
    add("pointer", one(TensorValue::Pointer("node:1".into())));
    add("pointer-empty", one(TensorValue::Pointer(String::new())));
    add("pointers-none", one(TensorValue::Pointers(vec![])));
    add("pointers-2", one(TensorValue::Pointers(vec!["edge:1".into(), "é".into()])));
    add(
        "mixed-6-fields",
        vec![
            ("a".to_string(), sc(ScalarValue::Int(7))),
            ("".to_string(), sc(ScalarValue::String("empty field name".into()))),
            ("é".to_string(), sc(ScalarValue::Float(-0.0))),
            ("b".to_string(), sc(ScalarValue::Bytes(vec![1, 2]))),
            ("p".to_string(), TensorValue::Pointers(vec!["x".into()])),
            ("w".to_string(), TensorValue::Vector(vec![0.5, 0.25])),
        ],
    );
    k
}

/// embedding shapes: `_embedding` of exactly the slab dimension under an `emb:` key, so that the
/// value is served from (and snapshotted by) the embedding slab. (name, vector, low_tt_rank)
fn embedding_kinds(dim: usize) -> Vec<(String, Vec<f32>)> {
    let mut k: Vec<(String, Vec<f32>)> = vec![];
    k.push(("dense-ramp".into(), ramp(dim)));
    k.push(("dense-geo".into(), geo(dim)));
    k.push(("dense-sine".into(), sine(dim)));
    k.push(("dense-const".into(), vec![0.5; dim]));
    k.push(("dense-lcg".into(), lcg(dim)));
    k.push(("zeros-2of3".into(), third(dim)));
    k.push(("all-zero".into(), vec![0.0; dim]));
    if dim >= 4 {
        let mut v = third(dim);
        v[1] = 1e-7;
        k.push(("zeros-2of3-with-1e-7".into(), v));
        let mut v = third(dim);
        v[1] = -0.0;
        k.push(("zeros-2of3-with-negzero".into(), v));
        let mut v = third(dim);
        v[2] = f32::NAN;
        k.push(("zeros-2of3-with-nan".into(), v));
        let mut v = ramp(dim);
        v[1] = -0.0;
        k.push(("dense-with-negzero".into(), v));
    }
    k
}

fn kind_fields(name: &str, dim: usize) -> Fields {
    if let Some(e) = name.strip_prefix("emb/") {
        let (shape, extra) = match e.strip_suffix("+tag") {
            Some(s) => (s, true),
            None => (e, false),
        };
        let v = embedding_kinds(dim).into_iter().find(|(n, _)| n == shape).unwrap_or_else(|| panic!("unknown embedding kind {name}")).1;
        let mut f = vec![("_embedding".to_string(), TensorValue::Vector(v))];
        if extra {
            f.push(("tag".to_string(), sc(ScalarValue::String(shape.to_string()))));
            f.push(("blob".to_string(), sc(ScalarValue::Bytes(vec![9, 8]))));
        }
        return f;
    }
    generic_kinds().into_iter().find(|(n, _)| n == name).unwrap_or_else(|| panic!("unknown kind {name}")).1
}
fn data_of(f: &Fields) -> TensorData {
    let mut d = TensorData::new();
    for (k, v) in f {
        d.set(k.clone(), v.clone());
    }
    d
}

/// pseudo-kind: the entry of `Spec::puts` is a delete of that key
const DELETE: &str = "<delete>";
const KEY_CLASSES: [&str; 10] = ["k", "", "ключ:é 🎉", "emb:e", "node:1", "edge:1", "table:t:1", "_cache:c", "_blob:meta:a", "_meta:table:t"];

// ------------------------------------------------------------------------------------------------
// store specification and construction
// ------------------------------------------------------------------------------------------------
#[derive(Clone, Debug, Serialize, Deserialize, PartialEq)]
struct Spec {
    /// embedding-slab dimension of the store
    dim: usize,
    /// (key, kind) in put order
    puts: Vec<(String, String)>,
    /// keys deleted afterwards
    deletes: Vec<String>,
    /// which key-less slabs are populated through their own API: subset of "relations","graph","blobs"
    slabs: Vec<String>,
}
impl Spec {
    fn single(dim: usize, key: &str, kind: &str) -> Spec {
        Spec { dim, puts: vec![(key.to_string(), kind.to_string())], deletes: vec![], slabs: vec![] }
    }
}

fn scratch_dir() -> String {
    let tid = rayon::current_thread_index().map_or("m".to_string(), |i| i.to_string());
    let d = format!("{}/rt-{tid}", env::scratch_root());
    std::fs::create_dir_all(&d).unwrap();
    d
}

/// A TensorStore whose embedding slab has dimension `dim`. TensorStore has no constructor taking a
/// router configuration, so for non-default dimensions the store is obtained by loading the
/// snapshot of an empty router of that dimension (checked below).
fn new_store(dim: usize) -> TensorStore {
    if dim == 384 {
        return TensorStore::new();
    }
    let r = SlabRouter::with_config(&SlabRouterConfig { embedding_dim: dim, ..SlabRouterConfig::default() });
    let p = format!("{}/boot-{dim}.snap", scratch_dir());
    r.save_to_file(&p).expect("bootstrap save");
    let s = TensorStore::load_snapshot(&p).expect("bootstrap load");
    assert_eq!(s.router().embeddings.dimension(), dim, "bootstrap store has the wrong embedding dimension");
    assert!(s.scan("").is_empty());
    s
}

fn populate_slabs(r: &SlabRouter, slabs: &[String]) {
    use tensor_store::relational_slab::{ColumnDef, ColumnType, ColumnValue, TableSchema};
    use tensor_store::EntityId;
    for s in slabs {
        match s.as_str() {
            "relations" => {
                let schema = TableSchema::new(vec![
                    ColumnDef::new("i", ColumnType::Int, true),
                    ColumnDef::new("f", ColumnType::Float, true),
                    ColumnDef::new("s", ColumnType::String, true),
                    ColumnDef::new("b", ColumnType::Bool, true),
                    ColumnDef::new("y", ColumnType::Bytes, true),
                    ColumnDef::new("j", ColumnType::Json, true),
                ])
                .with_primary_key("i");
                r.relations.create_table("t", schema).unwrap();
                r.relations.create_table("empty", TableSchema::new(vec![ColumnDef::new("x", ColumnType::Int, false)])).unwrap();
                let rows = vec![
                    vec![ColumnValue::Int(i64::MIN), ColumnValue::Float(f64::NAN), ColumnValue::String(String::new()), ColumnValue::Bool(true), ColumnValue::Bytes(vec![]), ColumnValue::Json("{}".into())],
                    vec![ColumnValue::Int(i64::MAX), ColumnValue::Float(-0.0), ColumnValue::String("é漢".into()), ColumnValue::Bool(false), ColumnValue::Bytes(vec![0, 255]), ColumnValue::Json("[1,\"x\"]".into())],
                    vec![ColumnValue::Null, ColumnValue::Null, ColumnValue::Null, ColumnValue::Null, ColumnValue::Null, ColumnValue::Null],
                    vec![ColumnValue::Int(0), ColumnValue::Float(f64::NEG_INFINITY), ColumnValue::String("x".into()), ColumnValue::Bool(true), ColumnValue::Bytes(vec![1]), ColumnValue::Json("null".into())],
                ];
                let ids = r.relations.batch_insert("t", rows).unwrap();
                r.relations.delete("t", ids[3]).unwrap();
                r.relations.create_index("t", "i").unwrap();
            }
            "graph" => {
                let e1 = r.graph.add_edge(EntityId::new(1), EntityId::new(2), "knows", true);
                let _e2 = r.graph.add_edge(EntityId::new(2), EntityId::new(3), "likes", false);
                let e3 = r.graph.add_edge(EntityId::new(1), EntityId::new(3), "knows", true);
                r.graph.set_edge_data(e1, data_of(&kind_fields("mixed-6-fields", 384)));
                r.graph.merge();
                let e4 = r.graph.add_edge(EntityId::new(3), EntityId::new(1), "é", true);
                r.graph.set_edge_data(e4, data_of(&kind_fields("int-max", 384)));
                r.graph.delete_edge(e3);
            }
            "blobs" => {
                r.blobs.append(b"");
                r.blobs.append(&[0u8, 255, 7]);
                let big: Vec<u8> = (0..5000u32).map(|i| (i % 251) as u8).collect();
                let h = r.blobs.append(&big);
                r.blobs.append(b"garbage");
                let _ = h;
            }
            other => panic!("unknown slab {other}"),
        }
    }
}

fn build(spec: &Spec) -> TensorStore {
    let s = new_store(spec.dim);
    for (k, kind) in &spec.puts {
        if kind == DELETE {
            let _ = s.delete(k); // deleting an absent key is a no-op of the history
        } else {
            s.put(k.clone(), data_of(&kind_fields(kind, spec.dim))).expect("put");
        }
    }
    for k in &spec.deletes {
        s.delete(k).expect("delete");
    }
    populate_slabs(s.router(), &spec.slabs);
    s
}

// ------------------------------------------------------------------------------------------------
// observation
// ------------------------------------------------------------------------------------------------
#[derive(Clone, Debug, Default)]
struct Obs {
    /// scan("") + get of every key
    keys: BTreeMap<String, BTreeMap<String, TensorValue>>,
    /// canonical renderings of state that is not reachable through keys
    slabs: BTreeMap<String, String>,
}

fn hex32(v: &[f32]) -> String {
    let mut s = String::with_capacity(v.len() * 9);
    for x in v {
        s.push_str(&format!("{:08x}.", x.to_bits()));
    }
    s
}
fn canon_scalar(s: &ScalarValue) -> String {
    match s {
        ScalarValue::Null => "Null".into(),
        ScalarValue::Bool(b) => format!("Bool({b})"),
        ScalarValue::Int(i) => format!("Int({i})"),
        ScalarValue::Float(f) => format!("Float(bits {:016x} = {f:?})", f.to_bits()),
        ScalarValue::String(s) => format!("String({s:?})"),
        ScalarValue::Bytes(b) => format!("Bytes({b:?})"),
    }
}
fn canon_value(v: &TensorValue) -> String {
    match v {
        TensorValue::Scalar(s) => canon_scalar(s),
        TensorValue::Vector(x) => format!("Vector[{}]({})", x.len(), hex32(x)),
        TensorValue::Sparse(s) => format!("Sparse[dim {}]({:?} {})", s.dimension(), s.positions(), hex32(s.values())),
        TensorValue::Pointer(p) => format!("Pointer({p:?})"),
        TensorValue::Pointers(p) => format!("Pointers({p:?})"),
    }
}
fn short(s: &str) -> String {
    if s.chars().count() > 160 {
        format!("{}…({} chars)", s.chars().take(150).collect::<String>(), s.chars().count())
    } else {
        s.to_string()
    }
}
fn kind_of(v: &TensorValue) -> &'static str {
    match v {
        TensorValue::Scalar(ScalarValue::Null) => "scalar-null",
        TensorValue::Scalar(ScalarValue::Bool(_)) => "scalar-bool",
        TensorValue::Scalar(ScalarValue::Int(_)) => "scalar-int",
        TensorValue::Scalar(ScalarValue::Float(_)) => "scalar-float",
        TensorValue::Scalar(ScalarValue::String(_)) => "scalar-string",
        TensorValue::Scalar(ScalarValue::Bytes(_)) => "scalar-bytes",
        TensorValue::Vector(_) => "vector",
        TensorValue::Sparse(_) => "sparse",
        TensorValue::Pointer(_) => "pointer",
        TensorValue::Pointers(_) => "pointers",
    }
}

fn fields_of(d: &TensorData) -> BTreeMap<String, TensorValue> {
    d.iter().map(|(k, v)| (k.clone(), v.clone())).collect()
}

fn canon_colval(v: &tensor_store::relational_slab::ColumnValue) -> String {
    use tensor_store::relational_slab::ColumnValue as C;
    match v {
        C::Float(f) => format!("Float(bits {:016x})", f.to_bits()),
        other => format!("{other:?}"),
    }
}

fn observe_router_slabs(r: &SlabRouter, out: &mut BTreeMap<String, String>) {
    use tensor_store::EntityId;
    // entity index: key set (ids are internal) and which keys own a slab vector
    let idx = r.index.scan_prefix("");
    let mut keys: Vec<String> = idx.iter().map(|(k, _)| k.clone()).collect();
    keys.sort();
    out.insert("index.keys".into(), format!("{keys:?}"));
    let mut with_vec: Vec<String> = idx.iter().filter(|(_, id)| r.embeddings.contains(*id)).map(|(k, _)| k.clone()).collect();
    with_vec.sort();
    out.insert("embeddings.keys".into(), format!("{with_vec:?}"));
    out.insert("embeddings.len".into(), r.embeddings.len().to_string());
    out.insert("embeddings.dimension".into(), r.embeddings.dimension().to_string());
    // relational slab
    let mut tables = r.relations.table_names();
    tables.sort();
    out.insert("relations.tables".into(), format!("{tables:?}"));
    for t in &tables {
        out.insert(format!("relations.{t}.schema"), format!("{:?}", r.relations.get_schema(t)));
        let rows = r.relations.scan_all(t).unwrap_or_default();
        let mut rs: Vec<String> = rows.iter().map(|(id, row)| format!("{}:[{}]", id.as_u64(), row.iter().map(canon_colval).collect::<Vec<_>>().join(","))).collect();
        rs.sort();
        out.insert(format!("relations.{t}.rows"), format!("{rs:?}"));
        out.insert(format!("relations.{t}.row_count"), format!("{:?}", r.relations.row_count(t).ok()));
        if t == "t" {
            out.insert("relations.t.index_lookup(i=MAX)".into(), format!("{:?}", r.relations.index_lookup("t", "i", i64::MAX).ok()));
        }
    }
    // graph slab
    out.insert("graph.edge_count".into(), r.graph.edge_count().to_string());
    for n in 0..5u64 {
        let mut o: Vec<(u64, u64)> = r.graph.outgoing(EntityId::new(n)).iter().map(|(e, id)| (e.as_u64(), id.as_u64())).collect();
        o.sort();
        let mut i: Vec<(u64, u64)> = r.graph.incoming(EntityId::new(n)).iter().map(|(e, id)| (e.as_u64(), id.as_u64())).collect();
        i.sort();
        out.insert(format!("graph.node{n}"), format!("out={o:?} in={i:?}"));
    }
    for e in 0..5u64 {
        let d = r.graph.get_edge_data(tensor_store::EdgeId::new(e)).map(|d| fields_of(&d).iter().map(|(k, v)| format!("{k}={}", canon_value(v))).collect::<Vec<_>>());
        out.insert(format!("graph.edge{e}.data"), format!("{d:?}"));
    }
    out.insert("graph.knows(1,2)".into(), r.graph.edge_exists(EntityId::new(1), EntityId::new(2), Some("knows")).to_string());
    out.insert("graph.é(3,1)".into(), r.graph.edge_exists(EntityId::new(3), EntityId::new(1), Some("é")).to_string());
    // blob slab
    out.insert("blobs.chunk_count".into(), r.blobs.chunk_count().to_string());
    out.insert("blobs.total_bytes".into(), r.blobs.total_bytes().to_string());
    let big: Vec<u8> = (0..5000u32).map(|i| (i % 251) as u8).collect();
    for (n, data) in [("empty", &b""[..]), ("3", &[0u8, 255, 7][..]), ("big", &big[..]), ("garbage", &b"garbage"[..])] {
        let h = tensor_store::ChunkHash::from_data(data);
        let got = r.blobs.get(&h);
        out.insert(format!("blobs.get({n})"), format!("{:?}", got.map(|g| (g.len(), g == data))));
    }
    out.insert("cache.len".into(), r.cache.len().to_string());
    out.insert("metadata.len".into(), r.metadata.len().to_string());
}

fn observe_store(s: &TensorStore) -> Obs {
    let mut o = Obs::default();
    for k in s.scan("") {
        match s.get(&k) {
            Ok(d) => {
                let mut f = fields_of(&d);
                if !s.exists(&k) {
                    f.insert("<exists() is false for a listed key>".to_string(), TensorValue::Pointer(String::new()));
                }
                o.keys.insert(k, f);
            }
            Err(e) => {
                o.keys.insert(k, BTreeMap::from([("<get failed>".to_string(), TensorValue::Pointer(format!("{e}")))]));
            }
        }
    }
    o.slabs.insert("store.len".into(), s.len().to_string());
    observe_router_slabs(s.router(), &mut o.slabs);
    o
}
fn observe_router(r: &SlabRouter) -> Obs {
    let mut o = Obs::default();
    for k in r.scan("") {
        match r.get(&k) {
            Ok(d) => {
                o.keys.insert(k, fields_of(&d));
            }
            Err(e) => {
                o.keys.insert(k, BTreeMap::from([("<get failed>".to_string(), TensorValue::Pointer(format!("{e}")))]));
            }
        }
    }
    o.slabs.insert("store.len".into(), r.len().to_string());
    observe_router_slabs(r, &mut o.slabs);
    o
}

// ------------------------------------------------------------------------------------------------
// formats
// ------------------------------------------------------------------------------------------------
#[derive(Clone, Copy, Debug, Serialize, Deserialize, PartialEq)]
enum QCfg {
    /// CompressionConfig::default(): no tensor mode, no delta, no rle
    Plain,
    /// delta + rle, no tensor mode
    DeltaRle,
    /// CompressionConfig::balanced(dim) (tensor-train for embedding fields)
    Balanced(usize),
    /// CompressionConfig::high_accuracy(dim)
    HighAccuracy(usize),
}
impl QCfg {
    fn cfg(&self) -> CompressionConfig {
        match self {
            QCfg::Plain => CompressionConfig::default(),
            QCfg::DeltaRle => CompressionConfig { tensor_mode: None, delta_encoding: true, rle_encoding: true },
            QCfg::Balanced(d) => CompressionConfig::balanced(*d),
            QCfg::HighAccuracy(d) => CompressionConfig::high_accuracy(*d),
        }
    }
    fn tt(&self) -> bool {
        matches!(self, QCfg::Balanced(_) | QCfg::HighAccuracy(_))
    }
}

#[derive(Clone, Copy, Debug, Serialize, Deserialize, PartialEq)]
enum Fmt {
    /// TensorStore::save_snapshot → TensorStore::load_snapshot (v3, zstd)
    File,
    /// snapshot::save_v3_uncompressed(store.router()) → TensorStore::load_snapshot (v3, no zstd)
    FilePlain,
    /// SlabRouter::save_to_file → SlabRouter::load_from_file
    RouterFile,
    /// SlabRouter::to_bytes → SlabRouter::from_bytes
    RouterBytes,
    /// TensorStore::snapshot_bytes → restore_from_bytes on a fresh store of the same dimension
    Bytes,
    /// … on a store that already holds other data and has stored and deleted embeddings before
    /// (restore must replace, not merge, and must not reuse state of the old content)
    BytesIntoDirty,
    /// save_snapshot → load_snapshot_with_bloom_filter (the loaded store answers get/exists through its filter)
    FileBloom,
    /// snapshot_bytes → restore_from_bytes on a fresh store that was built with a Bloom filter
    BytesIntoBloom,
    /// TensorStore::save_snapshot_compressed(cfg) → load_snapshot_compressed
    Quant(QCfg),
}
impl Fmt {
    fn family(&self) -> &'static str {
        match self {
            Fmt::File | Fmt::FilePlain | Fmt::RouterFile | Fmt::RouterBytes | Fmt::FileBloom => "v3",
            Fmt::Bytes | Fmt::BytesIntoDirty | Fmt::BytesIntoBloom => "restore_from_bytes",
            Fmt::Quant(_) => "quantising",
        }
    }
}

/// lengths of the vectors the quantising format would hand to the tensor-train coder
fn tt_lengths(o: &Obs) -> BTreeSet<usize> {
    let mut s = BTreeSet::new();
    for (k, f) in &o.keys {
        for (name, v) in f {
            if k.starts_with("emb:") || name == "_embedding" || name == "vector" {
                match v {
                    TensorValue::Vector(x) => {
                        s.insert(x.len());
                    }
                    TensorValue::Sparse(x) => {
                        s.insert(x.dimension());
                    }
                    _ => {}
                }
            }
        }
    }
    s
}

/// the formats applicable to a store; tensor-train configurations of the quantising format are used
/// only when every vector the coder will see has one common length (the configuration carries one
/// shape), so that a failing save is never provoked by the harness
fn formats_for(orig: &Obs, level: Level) -> Vec<Fmt> {
    let mut f = match level {
        // RouterFile is the same code path as File (TensorStore::save_snapshot = router.save_to_file)
        Level::Lean => vec![Fmt::File, Fmt::FilePlain, Fmt::FileBloom, Fmt::RouterBytes, Fmt::Bytes, Fmt::BytesIntoDirty, Fmt::BytesIntoBloom, Fmt::Quant(QCfg::Plain), Fmt::Quant(QCfg::DeltaRle)],
        Level::Full => vec![Fmt::File, Fmt::FilePlain, Fmt::FileBloom, Fmt::RouterFile, Fmt::RouterBytes, Fmt::Bytes, Fmt::BytesIntoDirty, Fmt::BytesIntoBloom, Fmt::Quant(QCfg::Plain), Fmt::Quant(QCfg::DeltaRle)],
    };
    let l = tt_lengths(orig);
    if l.len() == 1 {
        let d = *l.iter().next().unwrap();
        if d >= 2 {
            f.push(Fmt::Quant(QCfg::Balanced(d)));
            if level == Level::Full {
                f.push(Fmt::Quant(QCfg::HighAccuracy(d)));
            }
        }
    }
    f
}
#[derive(Clone, Copy, PartialEq, Debug)]
enum Level {
    Lean,
    Full,
}

enum Loaded {
    Store(TensorStore),
    Router(SlabRouter),
}
impl Loaded {
    fn observe(&self) -> Obs {
        match self {
            Loaded::Store(s) => observe_store(s),
            Loaded::Router(r) => observe_router(r),
        }
    }
}

fn catch<T>(stage: &str, f: impl FnOnce() -> Result<T, String>) -> Result<T, (String, String)> {
    match std::panic::catch_unwind(std::panic::AssertUnwindSafe(f)) {
        Ok(Ok(v)) => Ok(v),
        Ok(Err(e)) => Err((format!("{stage}-error"), e)),
        Err(p) => Err((format!("{stage}-panic"), p.downcast_ref::<String>().cloned().or_else(|| p.downcast_ref::<&str>().map(|s| s.to_string())).unwrap_or_default())),
    }
}

fn round_trip(s: &TensorStore, fmt: Fmt, dim: usize) -> Result<Loaded, (String, String)> {
    let dir = scratch_dir();
    let path = format!("{dir}/rt.snap");
    let _ = std::fs::remove_file(&path);
    match fmt {
        Fmt::File => {
            catch("save", || s.save_snapshot(&path).map_err(|e| e.to_string()))?;
            catch("load", || TensorStore::load_snapshot(&path).map(Loaded::Store).map_err(|e| e.to_string()))
        }
        Fmt::FilePlain => {
            catch("save", || tensor_store::snapshot::save_v3_uncompressed(s.router(), &path).map_err(|e| e.to_string()))?;
            catch("load", || TensorStore::load_snapshot(&path).map(Loaded::Store).map_err(|e| e.to_string()))
        }
        Fmt::FileBloom => {
            catch("save", || s.save_snapshot(&path).map_err(|e| e.to_string()))?;
            catch("load", || TensorStore::load_snapshot_with_bloom_filter(&path, 1000, 0.01).map(Loaded::Store).map_err(|e| e.to_string()))
        }
        Fmt::BytesIntoBloom => {
            let b = catch("save", || s.snapshot_bytes().map_err(|e| e.to_string()))?;
            // (a Bloom-filtered store always has the default slab dimension)
            let t = TensorStore::with_bloom_filter(1000, 0.01);
            catch("load", || t.restore_from_bytes(&b).map_err(|e| e.to_string()))?;
            Ok(Loaded::Store(t))
        }
        Fmt::RouterFile => {
            catch("save", || s.router().save_to_file(&path).map_err(|e| e.to_string()))?;
            catch("load", || SlabRouter::load_from_file(&path).map(Loaded::Router).map_err(|e| e.to_string()))
        }
        Fmt::RouterBytes => {
            let b = catch("save", || s.router().to_bytes().map_err(|e| e.to_string()))?;
            catch("load", || SlabRouter::from_bytes(&b).map(Loaded::Router).map_err(|e| e.to_string()))
        }
        Fmt::Bytes | Fmt::BytesIntoDirty => {
            let b = catch("save", || s.snapshot_bytes().map_err(|e| e.to_string()))?;
            let t = new_store(dim);
            if fmt == Fmt::BytesIntoDirty {
                // a target with a history: its first embedding was stored and deleted again, so the
                // lowest slab slot is free when the restore starts
                t.put("emb:gone", data_of(&kind_fields("emb/dense-geo+tag", dim))).unwrap();
                t.put("stale", data_of(&kind_fields("int-0", dim))).unwrap();
                t.put("emb:stale", data_of(&kind_fields("emb/dense-ramp", dim))).unwrap();
                t.put("_cache:stale", data_of(&kind_fields("int-0", dim))).unwrap();
                t.put("k", data_of(&kind_fields("string-unicode", dim))).unwrap();
                t.delete("emb:gone").unwrap();
            }
            catch("load", || t.restore_from_bytes(&b).map_err(|e| e.to_string()))?;
            Ok(Loaded::Store(t))
        }
        Fmt::Quant(q) => {
            catch("save", || s.save_snapshot_compressed(&path, q.cfg()).map_err(|e| e.to_string()))?;
            catch("load", || TensorStore::load_snapshot_compressed(&path).map(Loaded::Store).map_err(|e| e.to_string()))
        }
    }
}

// ------------------------------------------------------------------------------------------------
// oracle
// ------------------------------------------------------------------------------------------------
#[derive(Clone, Debug, Serialize, Deserialize)]
struct Diff {
    sig: String,
    msg: String,
}

fn key_class(k: &str) -> &'static str {
    if k.starts_with("emb:") {
        "emb"
    } else if k.starts_with("node:") || k.starts_with("edge:") {
        "graph"
    } else if k.starts_with("table:") {
        "table"
    } else if k.starts_with("_cache:") {
        "cache"
    } else {
        "metadata"
    }
}

fn dense(v: &TensorValue) -> Option<Vec<f32>> {
    match v {
        TensorValue::Vector(x) => Some(x.clone()),
        TensorValue::Sparse(s) => Some(s.to_dense()),
        _ => None,
    }
}
/// which branch of CompressedEmbedding::from_dense a slab vector takes (recomputed from its text)
fn slab_path(v: &[f32]) -> &'static str {
    if v.is_empty() {
        return "dense";
    }
    let nnz = v.iter().filter(|x| x.abs() > 1e-6).count();
    if nnz * 2 <= v.len() {
        "sparse-path"
    } else if v.len() >= THRESHOLD {
        "tensor-train-path"
    } else {
        "dense-path"
    }
}
fn rel_l2(a: &[f32], b: &[f32]) -> f64 {
    let mut num = 0f64;
    let mut den = 0f64;
    for (x, y) in a.iter().zip(b) {
        num += ((*x as f64) - (*y as f64)).powi(2);
        den += (*x as f64).powi(2);
    }
    if den == 0.0 {
        if num == 0.0 {
            0.0
        } else {
            f64::INFINITY
        }
    } else {
        (num / den).sqrt()
    }
}
/// numeric equality: NaN equals NaN, −0.0 equals 0.0
fn num_eq(a: &[f32], b: &[f32]) -> bool {
    a.len() == b.len() && a.iter().zip(b).all(|(x, y)| (x.is_nan() && y.is_nan()) || x == y)
}

#[derive(Default, Clone, Serialize, Deserialize)]
struct Info {
    /// vectors above the threshold whose reconstruction was measured but not judged (no low-rank
    /// structure or non-finite components): (what, relative L2 error)
    unjudged: Vec<(String, f64)>,
    /// largest relative error among judged above-threshold vectors
    max_judged_rel_err: f64,
    judged_tolerance: u64,
    judged_bit_identical: u64,
}

struct Mode<'a> {
    fmt: Fmt,
    /// embedding-slab dimension of the original store
    dim: usize,
    /// names of the embedding kinds with low tensor-train rank (tolerance is judged for these)
    info: &'a mut Info,
    /// observation of the original right after the save
    after_save: Option<&'a Obs>,
}

/// vectors for which the documented tolerance is a meaningful promise: all components finite and
/// tensor-train rank ≤ 2 under any reshaping (ramp, geometric, constant, one sinusoid) or sparse
fn judged_shape(v: &[f32]) -> bool {
    if v.iter().any(|x| !x.is_finite()) {
        return false;
    }
    slab_path(v) != "tensor-train-path" || low_rank(v)
}
/// finite and of tensor-train rank ≤ 3 under any reshaping: one of the structured shapes used by
/// this harness, possibly with one component replaced (`dense-with-negzero`)
fn low_rank(v: &[f32]) -> bool {
    if v.iter().any(|x| !x.is_finite()) {
        return false;
    }
    let n = v.len();
    let cands = [ramp(n), geo(n), sine(n), vec![0.5; n], vec![0.0; n]];
    cands.iter().any(|c| c.iter().zip(v).filter(|(a, b)| a.to_bits() != b.to_bits()).count() <= 1)
}
/// engine-level vector reads: same rules as the store-level comparison
fn vec_equiv(fmt: Fmt, slab_served: bool, a: &[f32], b: &[f32]) -> bool {
    if a.len() != b.len() {
        return false;
    }
    match fmt {
        Fmt::Quant(q) => {
            if q.tt() {
                !low_rank(a) || rel_l2(a, b) <= TOL
            } else {
                num_eq(a, b)
            }
        }
        _ => {
            if slab_served && a.len() >= THRESHOLD {
                !judged_shape(a) || rel_l2(a, b) <= TOL
            } else {
                hex32(a) == hex32(b)
            }
        }
    }
}

fn compare(exp: &Obs, got: &Obs, m: &mut Mode) -> Vec<Diff> {
    let fam = m.fmt.family();
    let mut d: Vec<Diff> = vec![];
    let mut push = |sig: String, msg: String| d.push(Diff { sig, msg });
    for (k, ef) in &exp.keys {
        let Some(gf) = got.keys.get(k) else {
            push(format!("c07:{fam}:key-lost:{}", key_class(k)), format!("key {k:?} is missing after the round trip"));
            continue;
        };
        for (name, ev) in ef {
            let Some(gv) = gf.get(name) else {
                push(format!("c07:{fam}:field-lost:{}", kind_of(ev)), format!("key {k:?}: field {name:?} ({}) is missing after the round trip", short(&canon_value(ev))));
                continue;
            };
            let slab_served = k.starts_with("emb:") && name == "_embedding" && matches!(ev, TensorValue::Vector(x) if x.len() == m.dim);
            let is_vec = ev.is_vector();
            let exact = canon_value(ev) == canon_value(gv);
            if fam != "quantising" {
                if slab_served {
                    let (TensorValue::Vector(a), Some(b)) = (ev, dense(gv)) else { unreachable!() };
                    let path = slab_path(a);
                    let fam = "v3"; // restore_from_bytes decodes the same SlabRouter snapshot
                    if a.len() < THRESHOLD {
                        m.info.judged_bit_identical += 1;
                        if !exact {
                            let idx = a.iter().zip(&b).position(|(x, y)| x.to_bits() != y.to_bits());
                            push(
                                format!("c07:{fam}:emb-slab-{path}-not-bit-identical-below-threshold"),
                                format!("key {k:?}: `_embedding` of length {} (< {THRESHOLD}) is not bit-identical after the round trip: first difference at component {idx:?}: {:?} -> {:?} (lengths {} -> {})", a.len(), idx.map(|i| a[i]), idx.and_then(|i| b.get(i)), a.len(), b.len()),
                            );
                        }
                    } else if b.len() != a.len() || !matches!(gv, TensorValue::Vector(_)) {
                        push(format!("c07:{fam}:emb-slab-{path}-shape-changed"), format!("key {k:?}: `_embedding` of length {} came back as {}", a.len(), short(&canon_value(gv))));
                    } else if judged_shape(a) {
                        let e = rel_l2(a, &b);
                        m.info.judged_tolerance += 1;
                        m.info.max_judged_rel_err = m.info.max_judged_rel_err.max(e);
                        if !(e <= TOL) || b.iter().any(|x| !x.is_finite()) {
                            push(format!("c07:{fam}:emb-slab-{path}-outside-tolerance"), format!("key {k:?}: `_embedding` of length {} reconstructed with relative L2 error {e:e} > {TOL:e}", a.len()));
                        }
                    } else {
                        let fin: Vec<(f32, f32)> = a.iter().zip(&b).filter(|(x, _)| x.is_finite()).map(|(x, y)| (*x, *y)).collect();
                        let (fa, fb): (Vec<f32>, Vec<f32>) = fin.into_iter().unzip();
                        m.info.unjudged.push((format!("{fam} dim {} {path}", a.len()), rel_l2(&fa, &fb)));
                    }
                } else if !exact {
                    push(format!("c07:{fam}:value-changed:{}", kind_of(ev)), format!("key {k:?} field {name:?}: {} -> {}", short(&canon_value(ev)), short(&canon_value(gv))));
                }
            } else if is_vec {
                // quantising format: vector payloads are held to the configured quantisation error
                let Fmt::Quant(q) = m.fmt else { unreachable!() };
                let a = dense(ev).unwrap();
                let Some(b) = dense(gv) else {
                    push(format!("c07:{fam}:value-changed:{}", kind_of(ev)), format!("key {k:?} field {name:?}: vector became {}", short(&canon_value(gv))));
                    continue;
                };
                let tt = q.tt() && (k.starts_with("emb:") || name == "_embedding" || name == "vector");
                if b.len() != a.len() {
                    push(format!("c07:{fam}:vector-length-changed"), format!("key {k:?} field {name:?}: length {} -> {} ({q:?})", a.len(), b.len()));
                } else if !tt {
                    if !num_eq(&a, &b) {
                        let idx = a.iter().zip(&b).position(|(x, y)| !((x.is_nan() && y.is_nan()) || x == y));
                        push(format!("c07:{fam}:vector-payload-changed-without-tensor-mode"), format!("key {k:?} field {name:?} ({q:?}): component {idx:?}: {:?} -> {:?}", idx.map(|i| a[i]), idx.map(|i| b[i])));
                    }
                } else if low_rank(&a) {
                    let e = rel_l2(&a, &b);
                    m.info.judged_tolerance += 1;
                    m.info.max_judged_rel_err = m.info.max_judged_rel_err.max(e);
                    if a.iter().all(|x| x.is_finite()) && !(e <= TOL) {
                        push(format!("c07:{fam}:tensor-train-outside-tolerance"), format!("key {k:?} field {name:?} ({q:?}): relative L2 error {e:e} > {TOL:e}"));
                    }
                } else {
                    m.info.unjudged.push((format!("{fam} {q:?} len {}", a.len()), rel_l2(&a, &b)));
                }
            } else if !exact {
                push(format!("c07:{fam}:value-changed:{}", kind_of(ev)), format!("key {k:?} field {name:?}: {} -> {}", short(&canon_value(ev)), short(&canon_value(gv))));
            }
        }
        for name in gf.keys() {
            if !ef.contains_key(name) {
                push(format!("c07:{fam}:field-appeared"), format!("key {k:?}: field {name:?} = {} exists only after the round trip", short(&canon_value(&gf[name]))));
            }
        }
    }
    for k in got.keys.keys() {
        if !exp.keys.contains_key(k) {
            let why = if m.fmt == Fmt::BytesIntoDirty { "stale-key-survives-restore" } else { "key-appeared" };
            push(format!("c07:{fam}:{why}:{}", key_class(k)), format!("key {k:?} exists only after the round trip"));
        }
    }
    // state not reachable through keys
    let mut groups: BTreeMap<&str, Vec<String>> = BTreeMap::new();
    for (name, ev) in &exp.slabs {
        let gv = got.slabs.get(name);
        // the snapshot call may itself reorganise the original (GraphTensor::snapshot forces a
        // merge): the state of the original right after the save is an equally valid reference
        if gv != Some(ev) && (m.after_save.is_none() || gv != m.after_save.and_then(|a| a.slabs.get(name))) {
            let group = name.split('.').next().unwrap();
            // the quantising format and restore_from_bytes rebuild a default-dimension store
            if name == "embeddings.dimension" && fam != "v3" {
                continue;
            }
            groups.entry(match group {
                "relations" => "relations",
                "graph" => "graph",
                "blobs" => "blobs",
                "index" => "index",
                "embeddings" => "embeddings",
                "cache" => "cache",
                "metadata" => "metadata",
                _ => "store",
            })
            .or_default()
            .push(format!("{name}: {} -> {}", short(ev), short(gv.map_or("<absent>", |s| s.as_str()))));
        }
    }
    let key_diffs = !d.is_empty();
    let mut dropped: Vec<String> = vec![];
    for (g, items) in groups {
        // counts follow from key-level differences already reported
        if matches!(g, "store" | "metadata" | "cache" | "index" | "embeddings") && key_diffs {
            continue;
        }
        // where a vector is kept (slab or metadata) is not observable through get: the quantising
        // loader always builds a default-dimension store
        if fam == "quantising" && matches!(g, "index" | "embeddings") {
            continue;
        }
        if fam != "v3" && matches!(g, "relations" | "graph" | "blobs") {
            // one root cause: these paths copy only what scan("") lists
            dropped.push(format!("{g}: {} ({} differences)", items[0], items.len()));
            continue;
        }
        d.push(Diff { sig: format!("c07:{fam}:{g}-slab-not-restored"), msg: format!("{} ({} differences)", items[0], items.len()) });
    }
    if !dropped.is_empty() {
        d.push(Diff { sig: format!("c07:{fam}:keyless-slabs-dropped"), msg: format!("state held outside scan-able keys is lost: {}", dropped.join("; ")) });
    }
    d
}

// ------------------------------------------------------------------------------------------------
// case runner (parts P1–P3, P5)
// ------------------------------------------------------------------------------------------------
#[derive(Default, Clone, Serialize, Deserialize)]
struct Tally {
    /// signature → (violating cases, up to 16 distinct case labels)
    by_sig: BTreeMap<String, (u64, BTreeSet<String>)>,
    saves_that_changed_the_original: u64,
    stores: u64,
    round_trips: u64,
    comparisons: u64,
    distinct_stores: BTreeSet<String>,
    violations: Vec<(String, String, J)>,
    violation_total: u64,
    info: Info,
    sample: Option<J>,
}
impl Tally {
    fn violation(&mut self, sig: String, msg: String, replay: J) {
        self.violation_total += 1;
        let label = match replay["spec"]["puts"].as_array() {
            Some(p) if p.len() == 1 => format!("{} under {:?} (dim {}) via {}", p[0][1].as_str().unwrap_or("?"), p[0][0].as_str().unwrap_or("?"), replay["spec"]["dim"], replay["format"]),
            Some(p) => format!("{}-entry store, slabs {} via {}", p.len(), replay["spec"]["slabs"], replay["format"]),
            None => format!("{} via {}", replay["items"], replay["format"]),
        };
        let e = self.by_sig.entry(sig.clone()).or_default();
        e.0 += 1;
        if e.1.len() < 16 {
            e.1.insert(label);
        }
        if self.violations.iter().filter(|v| v.0 == sig).count() < 3 {
            self.violations.push((sig, msg, replay));
        }
    }
    fn merge(&mut self, o: Tally) {
        for (k, (n, l)) in o.by_sig {
            let e = self.by_sig.entry(k).or_default();
            e.0 += n;
            for x in l {
                if e.1.len() < 16 {
                    e.1.insert(x);
                }
            }
        }
        self.stores += o.stores;
        self.saves_that_changed_the_original += o.saves_that_changed_the_original;
        self.round_trips += o.round_trips;
        self.comparisons += o.comparisons;
        self.distinct_stores.extend(o.distinct_stores);
        self.violation_total += o.violation_total;
        for (s, m, r) in o.violations {
            if self.violations.iter().filter(|v| v.0 == s).count() < 3 {
                self.violations.push((s, m, r));
            }
        }
        self.info.unjudged.extend(o.info.unjudged);
        self.info.max_judged_rel_err = self.info.max_judged_rel_err.max(o.info.max_judged_rel_err);
        self.info.judged_tolerance += o.info.judged_tolerance;
        self.info.judged_bit_identical += o.info.judged_bit_identical;
        if self.sample.is_none() {
            self.sample = o.sample;
        }
    }
}

fn obs_digest(o: &Obs) -> String {
    let mut s = String::new();
    for (k, f) in &o.keys {
        s.push_str(k);
        for (n, v) in f {
            s.push_str(n);
            s.push_str(&canon_value(v));
        }
    }
    for (k, v) in &o.slabs {
        s.push_str(k);
        s.push_str(v);
    }
    use std::hash::{Hash, Hasher};
    let mut h = std::collections::hash_map::DefaultHasher::new();
    s.hash(&mut h);
    format!("{:016x}", h.finish())
}

/// corrupt the reference (selftest): flip one scalar / drop one key
fn corrupt(o: &mut Obs) {
    if let Some((_, f)) = o.keys.iter_mut().next() {
        f.insert("selftest-extra-field".into(), sc(ScalarValue::Int(1)));
    } else {
        o.keys.insert("selftest-extra-key".into(), BTreeMap::new());
    }
}

fn run_spec(spec: &Spec, only: Option<Fmt>, level: Level, selftest: bool, t: &mut Tally) {
    let s = build(spec);
    let orig = observe_store(&s);
    run_built(spec, &s, &orig, only, level, selftest, t);
}
fn run_built(spec: &Spec, s: &TensorStore, orig: &Obs, only: Option<Fmt>, level: Level, selftest: bool, t: &mut Tally) {
    // the reference must itself contain what was put (otherwise nothing is being compared)
    let mut expect_keys: BTreeSet<&String> = BTreeSet::new();
    for (k, kind) in &spec.puts {
        if kind == DELETE {
            expect_keys.remove(k);
        } else {
            expect_keys.insert(k);
        }
    }
    expect_keys.retain(|k| !spec.deletes.contains(k));
    assert_eq!(orig.keys.len(), expect_keys.len(), "live store does not list the keys that were put: {spec:?}");
    t.stores += 1;
    t.distinct_stores.insert(obs_digest(orig));
    let fmts = match only {
        Some(f) => vec![f],
        // a Bloom-filtered store has the default slab dimension: only stores of that dimension go there
        None => formats_for(orig, level).into_iter().filter(|f| *f != Fmt::BytesIntoBloom || spec.dim == 384).collect(),
    };
    for fmt in fmts {
        t.round_trips += 1;
        let replay = json!({"part": "round-trip", "spec": spec, "format": fmt});
        let loaded = round_trip(s, fmt, spec.dim);
        let fam = fmt.family();
        let got = match loaded {
            Ok(l) => l.observe(),
            Err((stage, e)) => {
                t.violation(format!("c07:{fam}:{stage}"), format!("{fmt:?} of {spec:?}: {stage}: {e}"), replay);
                continue;
            }
        };
        let mut reference = orig.clone();
        if selftest {
            corrupt(&mut reference);
        }
        let after = observe_store(s);
        let mut mode = Mode { fmt, dim: spec.dim, info: &mut t.info, after_save: Some(&after) };
        let diffs = compare(&reference, &got, &mut mode);
        t.comparisons += reference.keys.values().map(|f| f.len() as u64 + 1).sum::<u64>() + reference.slabs.len() as u64;
        for d in diffs {
            let sig = if selftest { format!("{}:SELFTEST", d.sig) } else { d.sig };
            t.violation(sig, format!("{fmt:?}: {}  [store: dim {} puts {:?} deletes {:?} slabs {:?}]", d.msg, spec.dim, spec.puts, spec.deletes, spec.slabs), replay.clone());
        }
        if obs_digest(&after) != obs_digest(orig) {
            t.saves_that_changed_the_original += 1;
        }
        if t.sample.is_none() && spec.puts.len() >= 3 {
            t.sample = Some(json!({"part": "round-trip", "spec": spec, "format": fmt, "keys_compared": reference.keys.len(), "slab_observations_compared": reference.slabs.len()}));
        }
    }
}

/// large stores: built once, one task per format on the shared store
fn run_specs_per_format(specs: Vec<Spec>, level: Level, selftest: bool) -> Tally {
    let mut total = Tally::default();
    for spec in &specs {
        let s = build(spec);
        let orig = observe_store(&s);
        // GraphTensor::snapshot reorganises the original on the first save; do it before sharing
        let _ = s.snapshot_bytes();
        let fmts: Vec<Fmt> = formats_for(&orig, level).into_iter().filter(|f| *f != Fmt::BytesIntoBloom || spec.dim == 384).collect();
        let t = fmts
            .par_iter()
            .map(|f| {
                let mut t = Tally::default();
                run_built(spec, &s, &orig, Some(*f), level, selftest, &mut t);
                t
            })
            .reduce(Tally::default, |mut a, b| {
                a.merge(b);
                a
            });
        total.merge(t);
    }
    total.stores = specs.len() as u64;
    total
}

fn run_specs(specs: Vec<Spec>, level: Level, selftest: bool) -> Tally {
    specs
        .par_chunks(4)
        .map(|chunk| {
            let mut t = Tally::default();
            for s in chunk {
                run_spec(s, None, level, selftest, &mut t);
            }
            t
        })
        .reduce(Tally::default, |mut a, b| {
            a.merge(b);
            a
        })
}

fn p1_specs(thorough: bool) -> Vec<Spec> {
    let mut v = vec![];
    // empty store
    v.push(Spec { dim: 384, puts: vec![], deletes: vec![], slabs: vec![] });
    let dims: &[usize] = if thorough { &[384, 4, 255, 256, 257] } else { &[384] };
    for &dim in dims {
        for (kind, _) in generic_kinds() {
            for key in KEY_CLASSES {
                v.push(Spec::single(dim, key, &kind));
            }
        }
    }
    for dim in [4usize, 255, 256, 257, 384] {
        for (shape, _) in embedding_kinds(dim) {
            v.push(Spec::single(dim, "emb:e", &format!("emb/{shape}")));
            v.push(Spec::single(dim, "emb:e", &format!("emb/{shape}+tag")));
        }
        // the same field under a key that is not routed to the embedding slab
        v.push(Spec::single(dim, "k", "emb/dense-ramp"));
        v.push(Spec::single(dim, "node:1", "emb/zeros-2of3-with-1e-7"));
    }
    v
}

fn pool(dim: usize) -> Vec<(String, String)> {
    vec![
        ("k".into(), "mixed-6-fields".into()),
        ("emb:a".into(), "emb/dense-geo+tag".into()),
        ("emb:b".into(), "emb/zeros-2of3".into()),
        ("node:1".into(), "pointers-2".into()),
        ("table:t:1".into(), if dim == 4 { "float-nan".into() } else { "int-min".into() }),
        ("_cache:c".into(), "string-unicode".into()),
    ]
}
fn p2_specs() -> Vec<Spec> {
    let mut v = vec![];
    for dim in [4usize, 384] {
        let p = pool(dim);
        for mask in 0..64u32 {
            let chosen: Vec<(String, String)> = p.iter().enumerate().filter(|(i, _)| mask & (1 << i) != 0).map(|(_, e)| e.clone()).collect();
            v.push(Spec { dim, puts: chosen.clone(), deletes: vec![], slabs: vec![] });
            let deletes: Vec<String> = p.iter().enumerate().filter(|(i, _)| mask & (1 << i) == 0).map(|(_, e)| e.0.clone()).collect();
            if !deletes.is_empty() {
                v.push(Spec { dim, puts: p.clone(), deletes, slabs: vec![] });
            }
        }
    }
    v
}
fn p3_specs() -> Vec<Spec> {
    let mut v = vec![];
    let names = ["relations", "graph", "blobs"];
    for mask in 1..8u32 {
        let slabs: Vec<String> = names.iter().enumerate().filter(|(i, _)| mask & (1 << i) != 0).map(|(_, n)| n.to_string()).collect();
        for with_keys in [false, true] {
            let puts = if with_keys { pool(384) } else { vec![] };
            v.push(Spec { dim: 384, puts, deletes: vec![], slabs: slabs.clone() });
        }
    }
    v
}
/// P6: every operation sequence up to `depth` over a collision-forcing alphabet (two values per
/// key, deletes, a slab-served embedding replaced by one that takes the other snapshot path)
fn p6_specs(depth: usize) -> Vec<Spec> {
    let alpha: Vec<(String, String)> = vec![
        ("k".into(), "int-0".into()),
        ("k".into(), "bytes-3".into()),
        ("k".into(), DELETE.into()),
        ("emb:e".into(), "emb/dense-geo+tag".into()),
        ("emb:e".into(), "emb/zeros-2of3".into()),
        ("emb:e".into(), "embfield-3".into()),
        ("emb:e".into(), DELETE.into()),
        ("emb:f".into(), "emb/dense-ramp".into()),
        ("_cache:c".into(), "float-nan".into()),
        ("_cache:c".into(), DELETE.into()),
    ];
    let mut out = vec![];
    let mut frontier: Vec<Vec<(String, String)>> = vec![vec![]];
    for _ in 0..depth {
        let mut next = vec![];
        for s in &frontier {
            for a in &alpha {
                // a delete of a key that is absent does nothing: skip (same store as without it)
                if a.1 == DELETE {
                    let present = s.iter().rev().find(|(k, _)| *k == a.0).is_some_and(|(_, kind)| kind != DELETE);
                    if !present {
                        continue;
                    }
                }
                let mut t = s.clone();
                t.push(a.clone());
                next.push(t);
            }
        }
        for dim in [4usize, 384] {
            out.extend(next.iter().map(|p| Spec { dim, puts: p.clone(), deletes: vec![], slabs: vec![] }));
        }
        frontier = next;
    }
    out
}

/// Keep the first (shortest) history per reachable state. The state key is the full observation
/// plus the internal bookkeeping a snapshot serialises (entity ids, tombstones, slab occupancy), so
/// histories that differ only there are still all round-tripped.
fn dedup_states(specs: Vec<Spec>) -> Vec<Spec> {
    let keys: Vec<String> = specs
        .par_iter()
        .map(|spec| {
            let s = build(spec);
            let r = s.router();
            let mut ids: Vec<(String, u64)> = r.index.scan_prefix("").into_iter().map(|(k, id)| (k, id.as_u64())).collect();
            ids.sort();
            format!("{} dim{} ids{ids:?} total{} emb{} cap{}", obs_digest(&observe_store(&s)), spec.dim, r.index.total_entries(), r.embeddings.len(), r.embeddings.capacity())
        })
        .collect();
    let mut seen = BTreeSet::new();
    specs.into_iter().zip(keys).filter(|(_, k)| seen.insert(k.clone())).map(|(s, _)| s).collect()
}

/// structured large stores: `n` entries, every generic kind and key class round-robin, plus
/// embeddings of the slab dimension every 50th entry
fn p5_spec(dim: usize, n: usize) -> Spec {
    let kinds = generic_kinds();
    let mut puts = vec![];
    let prefixes = ["k", "emb:", "node:", "edge:", "table:t:", "_blob:meta:", "u:é"];
    for i in 0..n {
        let kind = &kinds[i % kinds.len()].0;
        // large vectors only now and then to keep the instance small
        let kind = if (kind.starts_with("vec-2") || kind.starts_with("vec-3") || kind.starts_with("sparse-384") || kind == "bytes-300") && i % 7 != 0 { "int-max".to_string() } else { kind.clone() };
        let p = prefixes[i % prefixes.len()];
        if i % 50 == 1 {
            let shapes = ["dense-geo", "zeros-2of3", "dense-ramp+tag", "dense-const"];
            puts.push((format!("emb:v{i}"), format!("emb/{}", shapes[(i / 50) % shapes.len()])));
        } else {
            puts.push((format!("{p}{i}"), kind));
        }
    }
    for i in 0..200 {
        puts.push((format!("_cache:{i}"), "float-negzero".to_string()));
    }
    let deletes = (0..n).filter(|i| i % 97 == 5 && i % 50 != 1).map(|i| format!("{}{i}", prefixes[i % prefixes.len()])).collect();
    Spec { dim, puts, deletes, slabs: vec!["relations".into(), "graph".into(), "blobs".into()] }
}


// ------------------------------------------------------------------------------------------------
// P4: data created through the engines, compared by engine-level reads
// ------------------------------------------------------------------------------------------------
const ENGINE_POOL: [&str; 6] = ["table", "graph", "vectors-small", "vector-384", "blob", "unified-embedding"];

struct Engines {
    store: TensorStore,
    rel: relational_engine::RelationalEngine,
    graph: graph_engine::GraphEngine,
    vec: vector_engine::VectorEngine,
    blob: tensor_blob::BlobStore,
    ents: tensor_store::EntityStore,
}
fn runtime() -> tokio::runtime::Runtime {
    tokio::runtime::Builder::new_current_thread().enable_all().build().expect("tokio runtime")
}
fn engines_on(store: &TensorStore, rt: &tokio::runtime::Runtime) -> Result<Engines, String> {
    Ok(Engines {
        store: store.clone(),
        rel: relational_engine::RelationalEngine::with_store(store.clone()),
        graph: graph_engine::GraphEngine::with_store(store.clone()),
        vec: vector_engine::VectorEngine::with_store(store.clone()),
        blob: rt.block_on(tensor_blob::BlobStore::new(store.clone(), tensor_blob::BlobConfig { chunk_size: 16, ..tensor_blob::BlobConfig::default() })).map_err(|e| e.to_string())?,
        ents: tensor_store::EntityStore::with_store(store.clone()),
    })
}

fn create_items(e: &Engines, rt: &tokio::runtime::Runtime, items: &[&str]) -> Vec<String> {
    use graph_engine::PropertyValue as P;
    use relational_engine::{Column, ColumnType, Schema, Value};
    let mut blob_ids = vec![];
    for it in items {
        match *it {
            "table" => {
                let schema = Schema::new(vec![
                    Column::new("i", ColumnType::Int),
                    Column::new("f", ColumnType::Float).nullable(),
                    Column::new("s", ColumnType::String).nullable(),
                    Column::new("b", ColumnType::Bool).nullable(),
                    Column::new("y", ColumnType::Bytes).nullable(),
                ]);
                e.rel.create_table("t", schema).expect("create_table");
                e.rel.create_table("empty", Schema::new(vec![Column::new("x", ColumnType::Int)])).expect("create_table");
                let rows: Vec<Vec<(&str, Value)>> = vec![
                    vec![("i", Value::Int(i64::MIN)), ("f", Value::Float(f64::NEG_INFINITY)), ("s", Value::String(String::new())), ("b", Value::Bool(true)), ("y", Value::Bytes(vec![]))],
                    vec![("i", Value::Int(i64::MAX)), ("f", Value::Float(-0.0)), ("s", Value::String("é漢🎉".into())), ("b", Value::Bool(false)), ("y", Value::Bytes(vec![0, 255, 7]))],
                    vec![("i", Value::Int(0)), ("f", Value::Null), ("s", Value::Null), ("b", Value::Null), ("y", Value::Null)],
                    vec![("i", Value::Int(3)), ("f", Value::Float(1.5)), ("s", Value::String("gone".into())), ("b", Value::Bool(true)), ("y", Value::Bytes(vec![1]))],
                ];
                for r in rows {
                    e.rel.insert("t", r.into_iter().map(|(k, v)| (k.to_string(), v)).collect::<HashMap<_, _>>()).expect("insert");
                }
                e.rel.delete_rows("t", relational_engine::Condition::Eq("i".into(), Value::Int(3))).expect("delete");
            }
            "graph" => {
                let a = e.graph.create_node("Person", HashMap::from([("name".to_string(), P::String("é".into())), ("age".to_string(), P::Int(i64::MAX)), ("w".to_string(), P::Float(-0.0)), ("raw".to_string(), P::Bytes(vec![0, 255]))])).expect("node");
                let b = e.graph.create_node("Person", HashMap::from([("name".to_string(), P::String(String::new())), ("ok".to_string(), P::Bool(false)), ("n".to_string(), P::Null)])).expect("node");
                let c = e.graph.create_node("Thing", HashMap::new()).expect("node");
                e.graph.create_edge(a, b, "KNOWS", HashMap::from([("since".to_string(), P::Int(-1))]), true).expect("edge");
                e.graph.create_edge(b, c, "HAS", HashMap::new(), false).expect("edge");
                e.graph.create_edge(a, a, "SELF", HashMap::from([("f".to_string(), P::Float(f64::INFINITY))]), true).expect("edge");
            }
            "vectors-small" => {
                e.vec.store_embedding("s1", vec![1.0, -2.0, 0.5]).expect("store_embedding");
                e.vec.store_embedding("s2", vec![0.0, 0.0, 0.0, 0.0, 0.0, 0.0, 0.0, 3.5]).expect("store_embedding");
                e.vec.store_embedding("s3", vec![f32::MIN_POSITIVE, -0.0, 7.0]).expect("store_embedding");
            }
            "vector-384" => {
                e.vec.store_embedding("big", geo(384)).expect("store_embedding");
            }
            "blob" => {
                let data: Vec<u8> = (0..100u32).map(|i| (i * 37 % 256) as u8).collect();
                blob_ids.push(rt.block_on(e.blob.put("a.bin", &data, tensor_blob::PutOptions::default())).expect("blob put"));
                blob_ids.push(rt.block_on(e.blob.put("one-byte", b"x", tensor_blob::PutOptions::default())).expect("blob put"));
            }
            "unified-embedding" => {
                // what tensor_unified / EntityStore write: `_embedding` under an emb: key
                e.ents.set_embedding("emb:u1", geo(384)).expect("set_embedding");
                e.ents.set_embedding("emb:u2", vec![0.5, 0.25]).expect("set_embedding");
            }
            other => panic!("unknown item {other}"),
        }
    }
    blob_ids
}

#[derive(Default, Clone)]
struct EngObs {
    /// engine → observation name → canonical text
    text: BTreeMap<&'static str, BTreeMap<String, String>>,
    /// vector reads: name → (served from the embedding slab, value)
    vectors: BTreeMap<String, (bool, Option<Vec<f32>>)>,
}
fn canon_relvalue(v: &relational_engine::Value) -> String {
    match v {
        relational_engine::Value::Float(f) => format!("Float(bits {:016x})", f.to_bits()),
        other => format!("{other:?}"),
    }
}
fn canon_props(p: &HashMap<String, graph_engine::PropertyValue>) -> String {
    let m: BTreeMap<&String, String> = p
        .iter()
        .map(|(k, v)| {
            (
                k,
                match v {
                    graph_engine::PropertyValue::Float(f) => format!("Float(bits {:016x})", f.to_bits()),
                    other => format!("{other:?}"),
                },
            )
        })
        .collect();
    format!("{m:?}")
}
fn observe_engines(e: &Engines, rt: &tokio::runtime::Runtime, blob_ids: &[String]) -> EngObs {
    use graph_engine::Direction;
    let mut o = EngObs::default();
    let r = o.text.entry("relational").or_default();
    let mut tables = e.rel.list_tables();
    tables.sort();
    r.insert("list_tables".into(), format!("{tables:?}"));
    for t in ["t", "empty"] {
        r.insert(format!("get_schema({t})"), format!("{:?}", e.rel.get_schema(t).map_err(|e| e.to_string())));
        let rows = e.rel.select(t, relational_engine::Condition::True).map(|mut rows| {
            rows.sort_by_key(|r| r.id);
            rows.iter().map(|r| format!("{}:{:?}", r.id, r.values.iter().map(|(c, v)| format!("{c}={}", canon_relvalue(v))).collect::<Vec<_>>())).collect::<Vec<_>>()
        });
        r.insert(format!("select({t},True)"), format!("{:?}", rows.map_err(|e| e.to_string())));
        r.insert(format!("row_count({t})"), format!("{:?}", e.rel.row_count(t).map_err(|e| e.to_string())));
        r.insert(format!("select({t}, i = MAX)"), format!("{:?}", e.rel.select(t, relational_engine::Condition::Eq("i".into(), relational_engine::Value::Int(i64::MAX))).map(|r| r.iter().map(|r| r.id).collect::<Vec<_>>()).map_err(|e| e.to_string())));
    }
    let g = o.text.entry("graph").or_default();
    let mut nodes = e.graph.all_nodes();
    nodes.sort_by_key(|n| n.id);
    g.insert("all_nodes".into(), format!("{:?}", nodes.iter().map(|n| format!("{} {:?} {} created={:?} updated={:?}", n.id, n.labels, canon_props(&n.properties), n.created_at, n.updated_at)).collect::<Vec<_>>()));
    let mut edges = e.graph.all_edges();
    edges.sort_by_key(|x| x.id);
    g.insert("all_edges".into(), format!("{:?}", edges.iter().map(|x| format!("{} {}->{} {} directed={} {} created={:?}", x.id, x.from, x.to, x.edge_type, x.directed, canon_props(&x.properties), x.created_at)).collect::<Vec<_>>()));
    for id in 1..=4u64 {
        g.insert(format!("get_node({id})"), format!("{:?}", e.graph.get_node(id).map(|n| format!("{:?} {}", n.labels, canon_props(&n.properties))).map_err(|e| e.to_string())));
        for (dn, d) in [("out", Direction::Outgoing), ("in", Direction::Incoming), ("both", Direction::Both)] {
            let mut nb = e.graph.neighbors(id, None, d, None).map(|v| v.iter().map(|n| n.id).collect::<Vec<_>>()).map_err(|e| e.to_string());
            if let Ok(v) = nb.as_mut() {
                v.sort();
            }
            g.insert(format!("neighbors({id},{dn})"), format!("{nb:?}"));
        }
        let mut eo = e.graph.edges_of(id, Direction::Both).map(|v| v.iter().map(|x| x.id).collect::<Vec<_>>()).map_err(|e| e.to_string());
        if let Ok(v) = eo.as_mut() {
            v.sort();
        }
        g.insert(format!("edges_of({id},both)"), format!("{eo:?}"));
    }
    g.insert("find_nodes_by_label(Person)".into(), format!("{:?}", e.graph.find_nodes_by_label("Person").map(|v| { let mut i: Vec<u64> = v.iter().map(|n| n.id).collect(); i.sort(); i }).map_err(|e| e.to_string())));
    let v = o.text.entry("vector").or_default();
    let mut keys = e.vec.list_keys();
    keys.sort();
    v.insert("list_keys".into(), format!("{keys:?}"));
    for k in ["s1", "s2", "s3", "big"] {
        o.vectors.insert(format!("VectorEngine::get_embedding({k})"), (false, e.vec.get_embedding(k).ok()));
    }
    let b = o.text.entry("blob").or_default();
    let mut list = rt.block_on(e.blob.list(None)).map_err(|e| e.to_string());
    if let Ok(l) = list.as_mut() {
        l.sort();
    }
    b.insert("list".into(), format!("{list:?}"));
    for id in blob_ids {
        b.insert(format!("get({id})"), format!("{:?}", rt.block_on(e.blob.get(id)).map_err(|e| e.to_string())));
        b.insert(format!("metadata({id})"), format!("{:?}", rt.block_on(e.blob.metadata(id)).map(|m| (m.filename, m.size, m.checksum, m.chunk_count, m.content_type, m.created)).map_err(|e| e.to_string())));
        b.insert(format!("verify({id})"), format!("{:?}", e.blob.verify(id).map_err(|e| e.to_string())));
    }
    for k in ["emb:u1", "emb:u2"] {
        o.vectors.insert(format!("EntityStore::get_embedding({k})"), (true, e.ents.get_embedding(k)));
    }
    let _ = &e.store;
    o
}

#[derive(Clone, Debug, Serialize, Deserialize)]
struct EngCase {
    mask: u32,
}
impl EngCase {
    fn items(&self) -> Vec<&'static str> {
        ENGINE_POOL.iter().enumerate().filter(|(i, _)| self.mask & (1 << i) != 0).map(|(_, n)| *n).collect()
    }
}

#[derive(Default, Clone)]
struct EngTally {
    t: Tally,
    engine_reads_compared: u64,
    engine_diffs_explained_by_store_diff: u64,
}

fn run_engine_case(c: &EngCase, only: Option<Fmt>, level: Level, selftest: bool, et: &mut EngTally) {
    let rt = runtime();
    let store = TensorStore::new();
    let eng = engines_on(&store, &rt).expect("engines");
    let items = c.items();
    let blob_ids = create_items(&eng, &rt, &items);
    let orig = observe_store(&store);
    let mut eorig = observe_engines(&eng, &rt, &blob_ids);
    if selftest {
        eorig.text.entry("relational").or_default().insert("list_tables".into(), "[\"selftest\"]".into());
    }
    et.t.stores += 1;
    et.t.distinct_stores.insert(obs_digest(&orig));
    let fmts: Vec<Fmt> = match only {
        Some(f) => vec![f],
        None => formats_for(&orig, level).into_iter().filter(|f| !matches!(f, Fmt::RouterFile | Fmt::RouterBytes)).collect(),
    };
    for fmt in fmts {
        let fam = fmt.family();
        et.t.round_trips += 1;
        let replay = json!({"part": "engines", "case": c, "items": items, "format": fmt});
        let s2 = match round_trip(&store, fmt, 384) {
            Ok(Loaded::Store(s)) => s,
            Ok(Loaded::Router(_)) => unreachable!(),
            Err((stage, e)) => {
                et.t.violation(format!("c07:{fam}:{stage}"), format!("{fmt:?} of engine-created store {items:?}: {stage}: {e}"), replay);
                continue;
            }
        };
        let got = observe_store(&s2);
        let mut mode = Mode { fmt, dim: 384, info: &mut et.t.info, after_save: None };
        let diffs = compare(&orig, &got, &mut mode);
        et.t.comparisons += orig.keys.values().map(|f| f.len() as u64 + 1).sum::<u64>() + orig.slabs.len() as u64;
        let store_level_clean = diffs.is_empty();
        for d in diffs {
            et.t.violation(d.sig, format!("{fmt:?}: {}  [store created through engines: {items:?}]", d.msg), replay.clone());
        }
        // engine-level reads on the reloaded store
        let e2 = match engines_on(&s2, &rt) {
            Ok(e) => e,
            Err(e) => {
                et.t.violation(format!("c07:{fam}:engine-open-fails-on-reloaded-store"), format!("{fmt:?} {items:?}: {e}"), replay);
                continue;
            }
        };
        let egot = observe_engines(&e2, &rt, &blob_ids);
        for (engine, m) in &eorig.text {
            for (name, ev) in m {
                et.engine_reads_compared += 1;
                let gv = egot.text.get(engine).and_then(|x| x.get(name));
                if gv != Some(ev) {
                    if store_level_clean {
                        let sig = format!("c07:{fam}:engine-read-differs:{engine}{}", if selftest { ":SELFTEST" } else { "" });
                        et.t.violation(sig, format!("{fmt:?} {items:?}: {engine} {name}: {} -> {}", short(ev), short(gv.map_or("<absent>", |s| s.as_str()))), replay.clone());
                    } else {
                        et.engine_diffs_explained_by_store_diff += 1;
                        if std::env::var("VERIF_DEBUG").is_ok() {
                            eprintln!("[explained] {fmt:?} {engine} {name}: {} -> {}", short(ev), short(gv.map_or("<absent>", |s| s.as_str())));
                        }
                    }
                }
            }
        }
        for (k, (slab_served, ev)) in &eorig.vectors {
            et.engine_reads_compared += 1;
            let gv = egot.vectors.get(k).and_then(|x| x.1.clone());
            let ok = match (ev, &gv) {
                (None, None) => true,
                (Some(a), Some(b)) => vec_equiv(fmt, *slab_served, a, b),
                _ => false,
            };
            if !ok {
                if store_level_clean {
                    et.t.violation(format!("c07:{fam}:engine-read-differs:vector"), format!("{fmt:?} {items:?}: {k}: {:?} -> {:?}", ev.as_ref().map(|v| short(&hex32(v))), gv.as_ref().map(|v| short(&hex32(v)))), replay.clone());
                } else {
                    et.engine_diffs_explained_by_store_diff += 1;
                }
            }
        }
        if et.t.sample.is_none() && items.len() == 6 && fmt == Fmt::File {
            et.t.sample = Some(json!({"part": "engines", "items": items, "format": fmt, "store_keys": orig.keys.len(), "engine_reads": eorig.text.values().map(|m| m.len()).sum::<usize>(), "example_read": eorig.text["relational"].get("select(t,True)")}));
        }
    }
}

fn run_engine_part(level: Level, selftest: bool) -> EngTally {
    (0..64u32)
        .collect::<Vec<_>>()
        .par_iter()
        .map(|&mask| {
            let mut et = EngTally::default();
            run_engine_case(&EngCase { mask }, None, level, selftest, &mut et);
            et
        })
        .reduce(EngTally::default, |mut a, b| {
            a.t.merge(b.t);
            a.engine_reads_compared += b.engine_reads_compared;
            a.engine_diffs_explained_by_store_diff += b.engine_diffs_explained_by_store_diff;
            a
        })
}

// ------------------------------------------------------------------------------------------------
// crash half
// ------------------------------------------------------------------------------------------------
#[derive(Clone, Copy, Debug, Serialize, Deserialize, PartialEq)]
enum SaveFn {
    /// TensorStore::save_snapshot
    Zstd,
    /// snapshot::save_v3_uncompressed
    Plain,
    /// SlabRouter::save_to_file
    RouterFile,
    /// TensorStore::save_snapshot_compressed(CompressionConfig::default())
    Quant,
}
impl SaveFn {
    fn save(&self, s: &TensorStore, path: &str) -> Result<(), String> {
        match self {
            SaveFn::Zstd => s.save_snapshot(path).map_err(|e| e.to_string()),
            SaveFn::Plain => tensor_store::snapshot::save_v3_uncompressed(s.router(), path).map_err(|e| e.to_string()),
            SaveFn::RouterFile => s.router().save_to_file(path).map_err(|e| e.to_string()),
            SaveFn::Quant => s.save_snapshot_compressed(path, CompressionConfig::default()).map_err(|e| e.to_string()),
        }
    }
    fn load(&self, path: &str) -> Result<TensorStore, String> {
        match std::panic::catch_unwind(|| match self {
            SaveFn::Quant => TensorStore::load_snapshot_compressed(path).map_err(|e| e.to_string()),
            _ => TensorStore::load_snapshot(path).map_err(|e| e.to_string()),
        }) {
            Ok(r) => r,
            Err(_) => Err("panic while loading".into()),
        }
    }
    fn name(&self) -> &'static str {
        match self {
            SaveFn::Zstd => "save_snapshot",
            SaveFn::Plain => "save_v3_uncompressed",
            SaveFn::RouterFile => "SlabRouter::save_to_file",
            SaveFn::Quant => "save_snapshot_compressed",
        }
    }
}

#[derive(Clone, Debug, Serialize, Deserialize)]
struct CrashJob {
    old: Option<(String, SaveFn)>,
    new: (String, SaveFn),
    file: String,
    /// 0 = every byte of every write
    dense_limit: usize,
}

fn crash_content(name: &str) -> Spec {
    match name {
        "empty" => Spec { dim: 384, puts: vec![], deletes: vec![], slabs: vec![] },
        "one" => Spec::single(384, "k", "int-0"),
        "one'" => Spec::single(384, "k", "int-neg1"),
        "pool" => Spec { dim: 384, puts: pool(384), deletes: vec![], slabs: vec![] },
        "slabs" => Spec { dim: 384, puts: vec![("k".into(), "bytes-300".into()), ("emb:e".into(), "emb/dense-ramp+tag".into())], deletes: vec![], slabs: vec!["relations".into(), "graph".into()] },
        "medium" => p5_spec(384, 300),
        other => panic!("unknown content {other}"),
    }
}

fn crash_jobs(thorough: bool) -> Vec<CrashJob> {
    let mut v = vec![];
    // quick: every byte only for the small contents; thorough: every byte of every write
    let dl = |new: &str| if thorough || new == "empty" || new.starts_with("one") { 0 } else { 160 };
    let contents: &[&str] = if thorough { &["empty", "one", "one'", "pool", "slabs"] } else { &["empty", "one", "pool"] };
    let v3 = [SaveFn::Zstd, SaveFn::Plain, SaveFn::RouterFile];
    let mut fn_pairs: Vec<(SaveFn, SaveFn)> = vec![(SaveFn::Quant, SaveFn::Quant)];
    for a in v3 {
        for b in v3 {
            if thorough || a == b || (a, b) == (SaveFn::Zstd, SaveFn::Plain) || (a, b) == (SaveFn::Plain, SaveFn::Zstd) {
                fn_pairs.push((a, b));
            }
        }
    }
    for (fo, fnew) in &fn_pairs {
        for new in contents {
            // first snapshot ever (no previous file)
            if fo == fnew {
                v.push(CrashJob { old: None, new: (new.to_string(), *fnew), file: "store.snap".into(), dense_limit: dl(new) });
            }
            for old in contents {
                if old == new {
                    continue;
                }
                v.push(CrashJob { old: Some((old.to_string(), *fo)), new: (new.to_string(), *fnew), file: "store.snap".into(), dense_limit: dl(new) });
            }
        }
    }
    // file names: no extension, dotted stem, and a path whose extension is already "tmp"
    for file in ["store", "a.b.snap", "store.tmp"] {
        for f in [SaveFn::Zstd, SaveFn::Quant] {
            v.push(CrashJob { old: Some(("one".into(), f)), new: ("pool".into(), f), file: file.into(), dense_limit: dl("pool") });
        }
    }
    if !thorough {
        v.push(CrashJob { old: Some(("pool".into(), SaveFn::Zstd)), new: ("slabs".into(), SaveFn::Zstd), file: "store.snap".into(), dense_limit: 160 });
        v.push(CrashJob { old: Some(("slabs".into(), SaveFn::Plain)), new: ("one".into(), SaveFn::Plain), file: "store.snap".into(), dense_limit: 0 });
    }
    // larger instance: writes are cut at the first/last 24 bytes and every 61st byte in between
    v.push(CrashJob { old: Some(("pool".into(), SaveFn::Zstd)), new: ("medium".into(), SaveFn::Zstd), file: "store.snap".into(), dense_limit: 160 });
    v.push(CrashJob { old: Some(("medium".into(), SaveFn::Plain)), new: ("pool".into(), SaveFn::Plain), file: "store.snap".into(), dense_limit: 160 });
    if thorough {
        v.push(CrashJob { old: Some(("medium".into(), SaveFn::Quant)), new: ("pool".into(), SaveFn::Quant), file: "store.snap".into(), dense_limit: 160 });
        v.push(CrashJob { old: Some(("pool".into(), SaveFn::Plain)), new: ("medium".into(), SaveFn::Plain), file: "store.snap".into(), dense_limit: 160 });
    }
    v
}

#[derive(Default, Serialize, Deserialize)]
struct CrashStats {
    jobs: u64,
    images: u64,
    torn_images: u64,
    loads: u64,
    loaded_as_old: u64,
    loaded_as_new: u64,
    loaded_as_no_snapshot: u64,
    resaves: u64,
    io_ops: u64,
    max_file_bytes: u64,
    violations: Vec<(String, String, J)>,
    violation_total: u64,
    sample: Option<J>,
}
impl CrashStats {
    fn violation(&mut self, sig: String, msg: String, replay: J) {
        self.violation_total += 1;
        if self.violations.iter().filter(|v| v.0 == sig).count() < 3 {
            self.violations.push((sig, msg, replay));
        }
    }
}

/// what loading the path gives: canonical text of the whole observation, or the error
fn load_result(f: SaveFn, path: &str) -> Result<String, String> {
    f.load(path).map(|s| {
        let o = observe_store(&s);
        let mut t = String::new();
        for (k, fl) in &o.keys {
            t.push_str(&format!("{k:?}{{"));
            for (n, v) in fl {
                t.push_str(&format!("{n:?}={};", canon_value(v)));
            }
            t.push('}');
        }
        for (k, v) in &o.slabs {
            t.push_str(&format!("|{k}={v}"));
        }
        t
    })
}

fn run_crash_job(job: &CrashJob, dir: &str, disk: &mut crash::Disk, st: &mut CrashStats, selftest: bool) {
    let path = format!("{dir}/{}", job.file);
    let (new_name, new_fn) = &job.new;
    let replay = json!({"part": "crash", "job": job});
    // previous snapshot, written normally
    disk.set(&Fs::default(), true);
    let mut old_result: Result<String, String> = Err("no snapshot".into());
    if let Some((old_name, old_fn)) = &job.old {
        let s = build(&crash_content(old_name));
        old_fn.save(&s, &path).expect("saving the previous snapshot");
        old_result = load_result(*new_fn, &path);
        assert!(old_result.is_ok(), "the previous snapshot does not load: {old_result:?}");
    }
    let base = Fs::from_dir(dir);
    // the interrupted save, with the file I/O logged
    let s = build(&crash_content(new_name));
    env::io_begin(dir);
    let r = new_fn.save(&s, &path);
    env::io_end();
    r.expect("the save under test failed");
    let ops = crash::parse_log(&env::io_log());
    st.io_ops += ops.len() as u64;
    let mut new_result = load_result(*new_fn, &path);
    assert!(new_result.is_ok(), "the new snapshot does not load");
    assert_ne!(old_result, new_result, "old and new snapshot are indistinguishable: {job:?}");
    if selftest {
        new_result = Ok("selftest: corrupted reference".into());
    }
    st.max_file_bytes = st.max_file_bytes.max(std::fs::metadata(&path).map(|m| m.len()).unwrap_or(0));
    st.jobs += 1;
    let cfg = EnumCfg { power_loss: false, every_byte: true, dense_limit: job.dense_limit };
    let mut images: Vec<crash::Image> = vec![];
    crash::enumerate(&base, &ops, &cfg, |img| images.push(img.clone()));
    if st.sample.is_none() && job.old.is_some() {
        st.sample = Some(json!({"part": "crash", "job": job, "io_ops": ops.iter().map(|o| match o { crash::Op::Write { path, off, data } => format!("write {}@{off}+{}", path.rsplit('/').next().unwrap(), data.len()), other => format!("{other:?}").replace(dir, "") }).collect::<Vec<_>>(), "images": images.len()}));
    }
    let fname = new_fn.name();
    let in_place = if selftest { ":SELFTEST" } else if job.file.ends_with(".tmp") { ":path-has-tmp-extension" } else { "" };
    for img in &images {
        st.images += 1;
        if img.torn {
            st.torn_images += 1;
        }
        disk.set(&img.fs, true);
        st.loads += 1;
        let got = load_result(*new_fn, &path);
        let file_present = img.fs.files.contains_key(&path);
        let r = json!({"part": "crash", "job": job, "image": img.label});
        if got == new_result {
            st.loaded_as_new += 1;
        } else if got == old_result && job.old.is_some() {
            st.loaded_as_old += 1;
        } else if job.old.is_none() && got.is_err() && !file_present {
            st.loaded_as_no_snapshot += 1;
        } else {
            match &got {
                Err(e) => st.violation(format!("c07:crash:{fname}:path-unreadable-after-crash{in_place}"), format!("{job:?}: crash image {}: loading {} fails: {e} (file present: {file_present}, {} bytes)", img.label, job.file, img.fs.files.get(&path).map_or(0, |f| f.data.len())), r),
                Ok(t) => st.violation(format!("c07:crash:{fname}:neither-old-nor-new{in_place}"), format!("{job:?}: crash image {}: loaded content is neither the previous nor the new snapshot: {}", img.label, short(t)), r),
            }
            continue;
        }
        // a later save on the crashed directory must produce the new snapshot
        if img.landmark {
            st.resaves += 1;
            let again = new_fn.save(&s, &path);
            let after = load_result(*new_fn, &path);
            if again.is_err() || after != new_result {
                st.violation(format!("c07:crash:{fname}:save-after-crash-does-not-produce-the-snapshot{in_place}"), format!("{job:?}: after crash image {} a further save gives {again:?} and the path loads as {}", img.label, short(&format!("{after:?}"))), json!({"part": "crash", "job": job, "image": img.label, "then": "save again"}));
            }
            // ... and so must a later save of the *other* (previous) content: whatever the crash
            // left behind (e.g. a longer temporary file) must not leak into it
            if let Some((old_name, old_fn)) = &job.old {
                disk.set(&img.fs, true);
                st.resaves += 1;
                let so = build(&crash_content(old_name));
                let again = old_fn.save(&so, &path);
                let after = load_result(*new_fn, &path);
                if again.is_err() || after != old_result {
                    st.violation(format!("c07:crash:{}:save-after-crash-does-not-produce-the-snapshot{in_place}", old_fn.name()), format!("{job:?}: after crash image {} saving the previous content again gives {again:?} and the path loads as {}", img.label, short(&format!("{after:?}"))), json!({"part": "crash", "job": job, "image": img.label, "then": "save the previous content"}));
                }
            }
        }
    }
    let _ = replay;
}

fn crash_worker(i: usize, n: usize, thorough: bool, selftest: bool) {
    let dir = format!("{}/c07-crash", env::scratch_root());
    let mut disk = crash::Disk::new(&dir);
    let mut st = CrashStats::default();
    for (idx, job) in crash_jobs(thorough).into_iter().enumerate() {
        if idx % n != i {
            continue;
        }
        let t0 = env::real_now_s();
        run_crash_job(&job, &dir, &mut disk, &mut st, selftest);
        if std::env::var("VERIF_DEBUG").is_ok() {
            eprintln!("crash job {idx} {job:?}: images so far {} ({:.2}s)", st.images, env::real_now_s() - t0);
        }
    }
    env::scratch_cleanup();
    par::emit_result(&st);
}

// ------------------------------------------------------------------------------------------------
fn emit_tally(rep: &mut Report, t: &Tally) {
    for (s, m, r) in &t.violations {
        rep.violation(s.clone(), m.clone(), r.clone());
    }
}

fn main() {
    env::require();
    // panics inside catch_unwind are verdicts or handled; keep the log quiet
    let args = nvc::Args::parse();
    let selftest = args.rest.iter().any(|a| a == "--selftest");
    if let Some((i, n)) = args.worker {
        crash_worker(i, n, args.thorough(), selftest);
        return;
    }
    env::clock_freeze(1_700_000_000);
    let mut rep = Report::new("C07", "model_checking");
    let thorough = rep.thorough();
    rep.rule("round trip: P1 every value kind x every key class as single-entry stores, every embedding shape x slab dimension {4,255,256,257,384}; P2 all 64 subsets of a 6-entry pool, built directly and built as put-all-then-delete, at slab dimension 4 and 384; P3 all non-empty subsets of the key-less slabs {relations, graph, blobs} with and without keys; P4 all 64 subsets of 6 items created through RelationalEngine/GraphEngine/VectorEngine/BlobStore/EntityStore; P5 two fixed large stores; P6 every put/overwrite/delete sequence up to length 2 (quick) / 4 (thorough) over a 10-operation collision-forcing alphabet at slab dimension 4 and 384, one (the shortest) history per distinct state where state = observation + entity ids + tombstone count + slab occupancy; each x formats {save_snapshot/load_snapshot, save_v3_uncompressed, SlabRouter::save_to_file, SlabRouter::to_bytes/from_bytes, snapshot_bytes/restore_from_bytes into a fresh and into a non-empty store, save_snapshot_compressed with default / delta+rle / balanced / high-accuracy configuration}; reference = observation (scan+get of every key, every slab read, engine reads) of the original store before the save; distinct = canonical observation of the original store");
    rep.rule("crash: (previous content, previous save fn) x (new content, new save fn) x file name; every process-crash image of the logged save (every I/O op boundary and every byte cut of every write); load of the path must equal the previous or the new snapshot; non-trivial = image with a torn write");
    rep.assume("tolerance for slab-served `_embedding` vectors of length >= 256 and for tensor-train configurations of the quantising format: relative L2 error <= 1e-2 (the documented '<1% error'), judged only for finite vectors of tensor-train rank <= 3 (ramp, geometric, sinusoid, constant) and for the sparse path; other shapes are measured and listed, not judged");
    rep.assume("quantising format: scalars, pointers, key and field sets exact; vector payloads compared numerically after densification (Sparse may come back as Vector; -0.0 = 0.0, NaN = NaN), exactly when no tensor mode is configured; tensor-train configurations are only used when every vector handed to the coder has the configured length");
    rep.assume("crash model: process crash (no power-loss cuts), renames atomic and ordered; 'no previous snapshot' counts as the previous state when the file is absent");

    if let Some(path) = args.replay.clone() {
        let body: J = serde_json::from_str(&std::fs::read_to_string(&path).expect("replay file")).expect("replay json");
        let r = body.get("replay").cloned().unwrap_or(body);
        match r["part"].as_str() {
            Some("round-trip") => {
                let spec: Spec = serde_json::from_value(r["spec"].clone()).expect("spec");
                let fmt: Fmt = serde_json::from_value(r["format"].clone()).expect("format");
                let mut t = Tally::default();
                run_spec(&spec, Some(fmt), Level::Full, false, &mut t);
                emit_tally(&mut rep, &t);
                rep.sample(json!({"replayed": r}));
            }
            Some("engines") => {
                let c: EngCase = serde_json::from_value(r["case"].clone()).expect("case");
                let fmt: Fmt = serde_json::from_value(r["format"].clone()).expect("format");
                let mut et = EngTally::default();
                run_engine_case(&c, Some(fmt), Level::Full, false, &mut et);
                emit_tally(&mut rep, &et.t);
                rep.sample(json!({"replayed": r}));
            }
            Some("crash") => {
                let job: CrashJob = serde_json::from_value(r["job"].clone()).expect("job");
                let dir = format!("{}/c07-crash", env::scratch_root());
                let mut disk = crash::Disk::new(&dir);
                let mut st = CrashStats::default();
                run_crash_job(&job, &dir, &mut disk, &mut st, false);
                for (s, m, r) in st.violations {
                    rep.violation(s, m, r);
                }
                rep.sample(json!({"replayed": r, "images": st.images}));
            }
            _ => rep.machinery("replay file has no known part"),
        }
        rep.finish();
    }

    let prev_hook = std::panic::take_hook();
    std::panic::set_hook(Box::new(move |info| {
        // harness assertion failures must stay visible; panics of the code under test are caught
        let msg = info.to_string();
        if msg.contains("c07.rs") {
            prev_hook(info);
        }
    }));

    // ---- round trip
    let mut lap = env::real_now_s();
    let mut secs = move || {
        let now = env::real_now_s();
        let d = now - lap;
        lap = now;
        (d * 10.0).round() / 10.0
    };
    let full = if thorough { Level::Full } else { Level::Lean };
    let t1 = run_specs(p1_specs(thorough), full, selftest);
    rep.part("P1_kinds_x_key_classes", json!({"wall_s": secs(), "stores": t1.stores, "distinct_stores": t1.distinct_stores.len(), "round_trips": t1.round_trips, "value_kinds": generic_kinds().len(), "key_classes": KEY_CLASSES.len(), "embedding_shapes_per_dimension": embedding_kinds(384).len(), "slab_dimensions": [4, 255, 256, 257, 384], "saves_that_changed_the_original_observation": t1.saves_that_changed_the_original, "violating_cases": t1.violation_total}));
    let t2 = run_specs(p2_specs(), full, selftest);
    rep.part("P2_pool_subsets", json!({"wall_s": secs(), "stores": t2.stores, "distinct_stores": t2.distinct_stores.len(), "round_trips": t2.round_trips, "violating_cases": t2.violation_total}));
    let t3 = run_specs(p3_specs(), Level::Full, selftest);
    rep.part("P3_keyless_slabs", json!({"wall_s": secs(), "stores": t3.stores, "distinct_stores": t3.distinct_stores.len(), "round_trips": t3.round_trips, "saves_that_changed_the_original_observation": t3.saves_that_changed_the_original, "violating_cases": t3.violation_total}));
    let depth6 = if thorough { 4 } else { 2 };
    let all6 = p6_specs(depth6);
    let histories6 = all6.len();
    let t6 = run_specs(dedup_states(all6), full, selftest);
    rep.part("P6_op_sequences", json!({"wall_s": secs(), "max_length": depth6, "alphabet": 10, "histories_enumerated": histories6, "distinct_states_round_tripped": t6.stores, "distinct_stores": t6.distinct_stores.len(), "round_trips": t6.round_trips, "violating_cases": t6.violation_total}));
    let e4 = run_engine_part(Level::Full, selftest);
    rep.part("P4_engines", json!({"wall_s": secs(), "stores": e4.t.stores, "distinct_stores": e4.t.distinct_stores.len(), "round_trips": e4.t.round_trips, "engine_reads_compared": e4.engine_reads_compared, "engine_read_differences_explained_by_a_reported_store_difference": e4.engine_diffs_explained_by_store_diff, "violating_cases": e4.t.violation_total}));
    let n5 = if thorough { 30_000 } else { 10_000 };
    let t5 = run_specs_per_format(vec![p5_spec(384, n5), p5_spec(4, n5)], full, selftest);
    rep.part("P5_large_stores", json!({"wall_s": secs(), "stores": t5.stores, "entries_each": n5, "round_trips": t5.round_trips, "comparisons": t5.comparisons, "violating_cases": t5.violation_total, "note": "fixed instances, not an enumeration"}));

    let mut all = Tally::default();
    for t in [t1, t2, t3, t6, e4.t.clone(), t5] {
        all.merge(t);
    }
    emit_tally(&mut rep, &all);
    if let Some(s) = all.sample.clone() {
        rep.sample(s);
    }
    if let Some(s) = e4.t.sample.clone() {
        rep.sample(s);
    }
    let mut unj: BTreeMap<String, (u64, f64)> = BTreeMap::new();
    for (k, e) in &all.info.unjudged {
        let x = unj.entry(k.clone()).or_insert((0, 0.0));
        x.0 += 1;
        x.1 = x.1.max(*e);
    }
    rep.part("violation_breakdown", json!(all.by_sig.iter().map(|(k, (n, l))| (k.clone(), json!({"violating_cases": n, "examples": l}))).collect::<BTreeMap<_, _>>()));
    rep.part("vector_tolerance", json!({"judged_bit_identical_below_threshold": all.info.judged_bit_identical, "judged_within_tolerance_at_or_above_threshold": all.info.judged_tolerance, "max_relative_l2_error_among_judged": all.info.max_judged_rel_err, "measured_not_judged(count,max_rel_l2)": unj}));

    // ---- crash
    let n = par::worker_count();
    let extra: Vec<String> = vec![];
    let results: Vec<CrashStats> = par::spawn_workers(n, &extra);
    let mut c = CrashStats::default();
    for s in results {
        c.jobs += s.jobs;
        c.images += s.images;
        c.torn_images += s.torn_images;
        c.loads += s.loads;
        c.loaded_as_old += s.loaded_as_old;
        c.loaded_as_new += s.loaded_as_new;
        c.loaded_as_no_snapshot += s.loaded_as_no_snapshot;
        c.resaves += s.resaves;
        c.io_ops += s.io_ops;
        c.max_file_bytes = c.max_file_bytes.max(s.max_file_bytes);
        for (sig, m, r) in s.violations {
            rep.violation(sig, m, r);
        }
        if c.sample.is_none() {
            c.sample = s.sample;
        }
    }
    rep.part("crash", json!({"wall_s": secs(), "save_histories": c.jobs, "crash_images": c.images, "torn_write_images": c.torn_images, "loads": c.loads, "loaded_as_previous": c.loaded_as_old, "loaded_as_new": c.loaded_as_new, "loaded_as_no_snapshot_yet": c.loaded_as_no_snapshot, "saves_repeated_on_crashed_directory": c.resaves, "logged_io_ops": c.io_ops, "largest_snapshot_file_bytes": c.max_file_bytes}));
    if let Some(s) = c.sample {
        rep.sample(s);
    }

    rep.add("states", all.distinct_stores.len() as u64 + c.images);
    rep.add("transitions", all.round_trips + c.loads + c.resaves);
    rep.add("traces_validated_against_impl", all.round_trips + c.jobs);
    rep.add("evaluations", all.comparisons + e4.engine_reads_compared + c.loads + c.resaves);
    rep.add("distinct_nontrivial", all.distinct_stores.len() as u64 + c.torn_images);
    rep.set("explanation", json!("no separate model: both sides of every comparison are observations of real stores; the reference is the original store (round trip) or the cleanly written previous/new snapshot (crash)"));
    if !selftest && (all.distinct_stores.len() < 300 || c.torn_images < 500 || c.loaded_as_old == 0 || c.loaded_as_new == 0 || all.info.judged_tolerance == 0 || all.info.judged_bit_identical == 0) {
        rep.machinery(format!("vacuous: distinct stores {}, torn images {}, loaded-as-old {}, loaded-as-new {}, judged {} / {}", all.distinct_stores.len(), c.torn_images, c.loaded_as_old, c.loaded_as_new, all.info.judged_tolerance, all.info.judged_bit_identical));
    }
    rep.finish();
}
