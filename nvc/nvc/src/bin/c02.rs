//! C02 — durable TensorStore: acknowledged writes survive any crash, in order (DESIGN §3, C02).
//!
//! history (real put_durable/delete_durable/checkpoint/sync on a real TensorStore, file I/O logged
//! by envshim) → every crash image (every op boundary, every byte-torn write, every unsynced tail)
//! → real TensorStore::recover → compare with the reference map after *some* prefix of the issued
//! operations that contains every acknowledged one → continue on the recovered store (epochs 2, 3).
use nvc::crash::{self, EnumCfg, Fs, Op as IoOp};
use nvc::{env, par, Report};
use serde::{Deserialize, Serialize};
use serde_json::json;
use std::collections::BTreeMap;
use tensor_store::{ScalarValue, SyncMode, TensorData, TensorStore, TensorValue, WalConfig};

#[derive(Clone, Debug, PartialEq, Serialize, Deserialize)]
enum Op {
    Put(String, u8),
    Del(String),
    Checkpoint,
    Sync,
}

fn value(kind: u8) -> TensorData {
    let mut d = TensorData::new();
    match kind {
        0 => d.set("v", TensorValue::Scalar(ScalarValue::Int(1))),
        1 => d.set("v", TensorValue::Scalar(ScalarValue::String("two".into()))),
        2 => d.set("v", TensorValue::Scalar(ScalarValue::Bytes(vec![0, 255, 7]))),
        3 => d.set("_embedding", TensorValue::Vector(vec![1.0, -2.0, 0.5])),
        4 => d.set("_embedding", TensorValue::Vector(vec![0.0, 3.0, 0.25])),
        5 => d.set("p", TensorValue::Pointer("node:n".into())),
        6 => {
            // full-dimension embedding: reaches the embedding slab (default dimension 384)
            d.set("_embedding", TensorValue::Vector((0..384).map(|i| (i as f32) * 0.5 - 7.0).collect()));
            d.set("tag", TensorValue::Scalar(ScalarValue::Int(6)));
        }
        7 => d.set("_embedding", TensorValue::Vector((0..384).map(|i| 1.0 - (i as f32) * 0.25).collect())),
        8 => d.set("v", TensorValue::Scalar(ScalarValue::Float(f64::NEG_INFINITY))),
        _ => d.set("v", TensorValue::Scalar(ScalarValue::Null)),
    }
    d
}

fn alphabet(level: u8) -> Vec<Op> {
    let p = |k: &str, v: u8| Op::Put(k.to_string(), v);
    let d = |k: &str| Op::Del(k.to_string());
    match level {
        // minimal: deep continuation epochs
        3 => vec![p("p", 1), p("emb:e", 4)],
        // continuation that starts with a checkpoint right after the recovery
        5 => vec![Op::Checkpoint, p("p", 1)],
        // tiny: continuation epochs
        0 => vec![p("p", 1), p("emb:e", 4), d("p"), Op::Sync],
        // small first-epoch alphabet for length-3 histories in the quick tier
        4 => vec![p("p", 0), p("emb:e", 3), d("p"), Op::Checkpoint, Op::Sync],
        // quick first epoch
        1 => vec![p("p", 0), p("p", 1), p("emb:e", 3), p("emb:e", 6), p("node:n", 5), p("_cache:c", 0), p("_cachex", 1), d("p"), d("emb:e"), Op::Checkpoint, Op::Sync],
        // thorough first epoch: two keys per class, all value kinds, full-dimension embeddings
        _ => vec![
            p("p", 0), p("p", 2), p("q", 1), p("emb:e", 3), p("emb:e", 6), p("emb:f", 7), p("node:n", 5), p("table:t:1", 8), p("table:t:2", 9), p("_cache:c", 0), p("_cachex", 1), p("_cache", 2),
            d("p"), d("q"), d("emb:e"), d("node:n"), d("table:t:1"), Op::Checkpoint, Op::Sync,
        ],
    }
}

type Model = BTreeMap<String, TensorData>;

/// equality of two store observations, except that a slab-served embedding (length >= 256, the documented
/// compression threshold) may come back from a checkpoint snapshot within the documented reconstruction
/// tolerance (relative L2 error <= 1e-2, "<1% error") instead of bit-identical — the same allowance C07 makes
fn model_matches(want: &Model, got: &Model) -> bool {
    if want.len() != got.len() {
        return false;
    }
    want.iter().zip(got.iter()).all(|((ka, a), (kb, b))| {
        if ka != kb {
            return false;
        }
        if a == b {
            return true;
        }
        let (fa, fb): (BTreeMap<String, TensorValue>, BTreeMap<String, TensorValue>) = (a.fields_iter().map(|(k, v)| (k.clone(), v.clone())).collect(), b.fields_iter().map(|(k, v)| (k.clone(), v.clone())).collect());
        fa.len() == fb.len()
            && fa.iter().zip(fb.iter()).all(|((na, va), (nb, vb))| {
                na == nb
                    && match (va, vb) {
                        (TensorValue::Vector(x), TensorValue::Vector(y)) if x.len() >= 256 && x.len() == y.len() => {
                            let num: f64 = x.iter().zip(y).map(|(p, q)| (f64::from(*p) - f64::from(*q)).powi(2)).sum();
                            let den: f64 = x.iter().map(|p| f64::from(*p).powi(2)).sum();
                            num.sqrt() <= 1e-2 * den.sqrt().max(f64::MIN_POSITIVE)
                        }
                        _ => va == vb,
                    }
            })
    })
}

fn apply_model(m: &Model, op: &Op) -> Model {
    let mut n = m.clone();
    match op {
        Op::Put(k, v) if !k.starts_with("_cache:") => {
            n.insert(k.clone(), value(*v));
        }
        Op::Del(k) => {
            n.remove(k);
        }
        _ => {}
    }
    n
}

/// durable observation: every non-cache key with its value as returned by get
fn observe(s: &TensorStore) -> Model {
    let mut m = Model::new();
    for k in s.scan("") {
        if k.starts_with("_cache:") {
            continue;
        }
        if let Ok(v) = s.get(&k) {
            m.insert(k, v);
        } else {
            m.insert(k, TensorData::new());
        }
    }
    m
}
fn show_model(m: &Model) -> String {
    let mut s = String::new();
    for (k, v) in m {
        let mut f: Vec<String> = v.keys().map(|f| {
            let val = v.get(f).unwrap();
            match val {
                TensorValue::Vector(x) if x.len() > 4 => format!("{f}=vec[{}]({},{}..)", x.len(), x[0], x[1]),
                other => format!("{f}={other:?}"),
            }
        }).collect();
        f.sort();
        s.push_str(&format!("{k}:{{{}}} ", f.join(",")));
    }
    s
}

#[derive(Clone, Copy, Debug, PartialEq, Serialize, Deserialize)]
enum Mode {
    Immediate,
    Batched2,
    Manual,
}
#[derive(Clone, Copy, Debug, Serialize, Deserialize)]
struct Cfg {
    mode: Mode,
    /// small max_size_bytes so that rotation happens inside short histories
    rotate: bool,
}
impl Cfg {
    fn wal(&self) -> WalConfig {
        let mut c = WalConfig::default();
        c.sync_mode = match self.mode {
            Mode::Immediate => SyncMode::Immediate,
            Mode::Batched2 => SyncMode::Batched { max_entries: 2 },
            Mode::Manual => SyncMode::Manual,
        };
        if self.rotate {
            c.max_size_bytes = 120;
        }
        c
    }
}

#[derive(Default, Serialize, Deserialize)]
struct Stats {
    histories: u64,
    images: u64,
    torn_images: u64,
    recoveries: u64,
    images_by_epoch: Vec<u64>,
    distinct_recovered_states: u64,
    violations: Vec<nvc::report::ViolationRec>,
    violation_total: u64,
    sample: Option<serde_json::Value>,
    max_image_label: String,
}

struct Ctx {
    dir: String,
    disk: crash::Disk,
    cfg: Cfg,
    stats: Stats,
    seen_states: std::collections::HashSet<String>,
    every_byte: bool,
    /// (alphabet level, maximum history length) of each continuation epoch
    cont: Vec<(u8, usize)>,
    /// every crash image on the path so far was a landmark image
    path_landmark: bool,
    /// epoch 1 -> 2 continues from every distinct image (thorough) instead of landmark images only
    cont_all_first: bool,
}

impl Ctx {
    fn wal_path(&self) -> String {
        format!("{}/store.wal", self.dir)
    }
    fn snap_path(&self) -> String {
        format!("{}/store.snap", self.dir)
    }
    fn violation(&mut self, sig: &str, msg: String, replay: serde_json::Value) {
        self.stats.violation_total += 1;
        if self.stats.violations.iter().filter(|v| v.signature == sig).count() < 3 {
            self.stats.violations.push(nvc::report::ViolationRec { signature: sig.into(), message: msg, replay });
        }
    }
}

/// Run `hist` on `store`, marking the I/O log after every returned call. Returns the model states
/// states[0..=n] (states[k] = after k ops).
fn run_history(store: &TensorStore, snap: &str, m0: &Model, hist: &[Op]) -> Vec<Model> {
    let mut states = vec![m0.clone()];
    for (k, op) in hist.iter().enumerate() {
        match op {
            Op::Put(key, v) => {
                let _ = store.put_durable(key.clone(), value(*v));
            }
            Op::Del(key) => {
                let _ = store.delete_durable(key);
            }
            Op::Checkpoint => {
                let _ = store.checkpoint(snap);
            }
            Op::Sync => {
                let _ = store.sync();
            }
        }
        env::io_mark(1, k as u64);
        let next = apply_model(states.last().unwrap(), op);
        states.push(next);
    }
    states
}

/// number of ops of `hist` acknowledged when `returned` ops have returned
fn acked(cfg: &Cfg, hist: &[Op], returned: usize) -> usize {
    match cfg.mode {
        Mode::Immediate => returned,
        // acknowledged = covered by a later successful explicit sync (checkpoint also makes state durable)
        _ => (0..returned).rev().find(|&k| matches!(hist[k], Op::Sync | Op::Checkpoint)).map_or(0, |k| k + 1),
    }
}

/// One epoch: `base` is the on-disk image the epoch starts from, `m0` the state recovered from it,
/// `trail` describes how we got here (for replay artefacts).
fn epoch(ctx: &mut Ctx, base: &Fs, m0: &Model, hist: &[Op], epoch_no: usize, trail: &serde_json::Value) {
    let dir = ctx.dir.clone();
    // whatever survived the previous crash is on disk: it is durable from now on
    let mut base = base.clone();
    for f in base.files.values_mut() {
        f.synced = f.data.len();
    }
    let base = &base;
    ctx.disk.set(base, true);
    env::io_begin(&dir);
    let wal_cfg = ctx.cfg.wal();
    let (wal, snap) = (ctx.wal_path(), ctx.snap_path());
    let store = if epoch_no == 1 {
        TensorStore::open_durable(&wal, wal_cfg.clone()).expect("open_durable")
    } else {
        match TensorStore::recover(&wal, &wal_cfg, Some(std::path::Path::new(&snap))) {
            Ok(s) => s,
            Err(_) => {
                env::io_end();
                return; // already reported by the caller's oracle
            }
        }
    };
    let states = run_history(&store, &snap, m0, hist);
    // sanity: the live store agrees with the model (otherwise the reference itself is wrong)
    let live = observe(&store);
    drop(store);
    env::io_end();
    if !model_matches(states.last().unwrap(), &live) {
        ctx.violation(
            "c02:live-store-differs-from-model",
            format!("after {hist:?} live store shows [{}] but reference says [{}]", show_model(&live), show_model(states.last().unwrap())),
            json!({"trail": trail, "history": hist, "cfg": ctx.cfg}),
        );
        return;
    }
    let ops = crash::parse_log(&env::io_log());
    ctx.stats.histories += 1;
    if ctx.stats.sample.is_none() && hist.len() >= 2 && epoch_no == 1 {
        ctx.stats.sample = Some(json!({"cfg": ctx.cfg, "history": hist, "io_ops": ops.iter().map(|o| match o { IoOp::Write{path,off,data} => format!("write {}@{off}+{}", path.rsplit('/').next().unwrap(), data.len()), IoOp::Mark{value,..} => format!("ack op {value}"), other => format!("{other:?}").replace(&dir, "") }).collect::<Vec<_>>() }));
    }
    // enumerate images; the WAL is subject to power loss (unsynced tail), snapshot files only to
    // process-crash semantics (quantifier: truncation of the log; step boundaries of checkpoint)
    let ecfg = EnumCfg { power_loss: true, every_byte: ctx.every_byte, dense_limit: 160 };
    let mut images: Vec<crash::Image> = vec![];
    crash::enumerate(base, &ops, &ecfg, |img| {
        if img.label.contains("powerloss") && !img.label.contains("store.wal") {
            return; // power-loss cuts apply to the log only
        }
        images.push(img.clone());
    });
    while ctx.stats.images_by_epoch.len() < epoch_no {
        ctx.stats.images_by_epoch.push(0);
    }
    let n = hist.len();
    let mut continuations: Vec<(Fs, Model, String, bool)> = vec![];
    let mut cont_seen: std::collections::HashSet<Vec<(String, Vec<u8>)>> = std::collections::HashSet::new();
    // recovery depends on the file contents only: recover each distinct image once
    let mut cache: std::collections::HashMap<Vec<(String, Vec<u8>)>, Result<Model, String>> = std::collections::HashMap::new();
    for img in &images {
        ctx.stats.images += 1;
        ctx.stats.images_by_epoch[epoch_no - 1] += 1;
        if img.torn {
            ctx.stats.torn_images += 1;
        }
        let returned = ops[..img.ops_applied].iter().filter(|o| matches!(o, IoOp::Mark { tag: 1, .. })).count();
        let lo = acked(&ctx.cfg, hist, returned);
        let hi = (returned + 1).min(n);
        let key: Vec<(String, Vec<u8>)> = img.fs.files.iter().map(|(p, f)| (p.clone(), f.data.clone())).collect();
        let replay = json!({"trail": trail, "epoch": epoch_no, "cfg": ctx.cfg, "history": hist, "image": img.label, "ops_returned": returned});
        if !cache.contains_key(&key) {
            ctx.disk.set(&img.fs, true);
            ctx.stats.recoveries += 1;
            let rec = std::panic::catch_unwind(|| TensorStore::recover(&wal, &wal_cfg, Some(std::path::Path::new(&snap))));
            let r = match rec {
                Ok(Ok(store)) => {
                    let obs = observe(&store);
                    drop(store);
                    Ok(obs)
                }
                Ok(Err(e)) => Err(format!("error: {e}")),
                Err(_) => Err("panic".to_string()),
            };
            cache.insert(key.clone(), r);
        }
        let obs = match cache.get(&key).unwrap() {
            Ok(o) => o.clone(),
            Err(e) => {
                let after_torn = if epoch_no > 1 { "after-earlier-crash" } else { "first-crash" };
                let kind = if img.label.contains("store.snap") || img.label.contains("store.tmp") { "snapshot" } else { "wal" };
                let e = e.clone();
                ctx.violation(&format!("c02:recover-fails:{after_torn}:{kind}"), format!("recover fails on crash image {} of {hist:?} (epoch {epoch_no}): {e}", img.label), replay);
                continue;
            }
        };
        ctx.seen_states.insert(show_model(&obs));
        let matched = (lo..=hi).find(|&j| model_matches(&states[j], &obs));
        match matched {
            Some(j) => {
                // continue from this image in the next epoch (torn images and op boundaries)
                // epoch 1 -> 2: from every distinct image; later: from landmark images only
                // epoch 1 -> 2: from every distinct image; deeper: only along landmark-only paths
                let eligible = if epoch_no == 1 && ctx.cont_all_first { true } else { img.landmark && ctx.path_landmark };
                if epoch_no <= ctx.cont.len() && eligible && cont_seen.insert(key) {
                    continuations.push((img.fs.clone(), states[j].clone(), img.label.clone(), img.landmark));
                }
            }
            None => {
                // a rotated log segment exists: acknowledged records may sit in it
                // (or existed: rotation also deletes the oldest segment — the log ops up to this image tell)
                let rotated = img.fs.files.keys().any(|p| p.ends_with("store.wal.1"))
                    || ops[..img.ops_applied].iter().any(|o| matches!(o, IoOp::Rename { to, .. } if to.contains("store.wal.")) || matches!(o, IoOp::Unlink { path } if path.contains("store.wal")));
                let earlier = (0..lo).find(|&j| model_matches(&states[j], &obs));
                let sig = if earlier.is_some() {
                    let why = if rotated { "with-rotation" } else if epoch_no > 1 { "after-earlier-crash" } else if hist[..returned].iter().any(|o| *o == Op::Checkpoint) { "with-checkpoint" } else { "plain" };
                    format!("c02:acknowledged-write-lost:{why}")
                } else {
                    let why = if rotated { "with-rotation" } else if hist.iter().any(|o| *o == Op::Checkpoint) { "with-checkpoint" } else { "plain" };
                    format!("c02:recovered-state-is-no-prefix:{why}")
                };
                ctx.violation(
                    &sig,
                    format!(
                        "epoch {epoch_no} image {} of {hist:?} ({:?}): {returned} ops returned, {lo} acknowledged; recovered [{}] matches no prefix in {lo}..={hi} (expected e.g. [{}]){}",
                        img.label,
                        ctx.cfg,
                        show_model(&obs),
                        show_model(&states[lo]),
                        earlier.map_or(String::new(), |j| format!("; it equals the state after only {j} ops"))
                    ),
                    replay,
                );
            }
        }
    }
    if img_label_longer(&ctx.stats.max_image_label, images.last().map(|i| i.label.as_str()).unwrap_or("")) {
        ctx.stats.max_image_label = images.last().unwrap().label.clone();
    }
    // next epoch
    if epoch_no <= ctx.cont.len() {
        let (level, len) = ctx.cont[epoch_no - 1];
        let hists = seqs(&alphabet(level), len);
        let saved = ctx.path_landmark;
        for (fs, m, label, landmark) in continuations {
            ctx.path_landmark = saved && landmark;
            let t = json!({"prev": trail, "epoch": epoch_no, "history": hist, "crashed_at": label});
            for h in &hists {
                if h.is_empty() {
                    continue;
                }
                epoch(ctx, &fs, &m, h, epoch_no + 1, &t);
            }
        }
        ctx.path_landmark = saved;
    }
}
fn img_label_longer(a: &str, b: &str) -> bool {
    b.len() > a.len()
}

fn seqs(alpha: &[Op], max_len: usize) -> Vec<Vec<Op>> {
    let mut out = vec![vec![]];
    let mut frontier: Vec<Vec<Op>> = vec![vec![]];
    for _ in 0..max_len {
        let mut next = vec![];
        for s in &frontier {
            for a in alpha {
                let mut t = s.clone();
                t.push(a.clone());
                next.push(t);
            }
        }
        out.extend(next.iter().cloned());
        frontier = next;
    }
    out
}

#[derive(Clone, Serialize, Deserialize)]
struct Job {
    cfg: Cfg,
    hist: Vec<Op>,
    cont: Vec<(u8, usize)>,
    every_byte: bool,
}

fn jobs(thorough: bool) -> Vec<Job> {
    let mut v = vec![];
    let cfgs = [
        Cfg { mode: Mode::Immediate, rotate: false },
        Cfg { mode: Mode::Batched2, rotate: false },
        Cfg { mode: Mode::Manual, rotate: false },
        Cfg { mode: Mode::Immediate, rotate: true },
    ];
    for cfg in cfgs {
        let main_cfg = cfg.mode == Mode::Immediate && (!thorough || !cfg.rotate);
        // (a) single-epoch breadth: all histories up to L over the first-epoch alphabet
        let mut plans: Vec<(u8, usize, Vec<(u8, usize)>)> = if thorough {
            vec![(2, if main_cfg { 3 } else { 2 }, vec![])]
        } else {
            vec![(1, 2, vec![]), (4, if main_cfg { 3 } else { 2 }, vec![])]
        };
        // (b) multi-epoch depth: short first histories, continued after every distinct crash image
        if thorough {
            plans.extend([(1, 2, vec![(0, 1)]), (0, 2, vec![(0, 2)]), (0, 1, vec![(0, 1), (0, 1)]), (3, 2, vec![(3, 2), (3, 1)]), (4, 2, vec![(5, 2)])]);
        } else {
            plans.extend([(0, 2, vec![(3, 1)]), (3, 1, vec![(3, 1), (3, 1)])]);
            if cfg.mode == Mode::Immediate && !cfg.rotate {
                plans.push((4, 2, vec![(5, 1)]));
            }
        }
        for (level, len, cont) in plans {
            for h in seqs(&alphabet(level), len) {
                if !h.is_empty() {
                    v.push(Job { cfg, hist: h, cont: cont.clone(), every_byte: true });
                }
            }
        }
    }
    v
}

fn worker(i: usize, n: usize, thorough: bool) {
    let dir = format!("{}/c02", env::scratch_root());
    std::fs::create_dir_all(&dir).unwrap();
    let mut total = Stats::default();
    let mut seen = std::collections::HashSet::new();
    for (idx, job) in jobs(thorough).into_iter().enumerate() {
        if idx % n != i {
            continue;
        }
        let mut ctx = Ctx { dir: dir.clone(), disk: crash::Disk::new(&dir), cfg: job.cfg, stats: Stats::default(), seen_states: std::mem::take(&mut seen), every_byte: job.every_byte, cont: job.cont.clone(), path_landmark: true, cont_all_first: thorough };
        let trail = json!(null);
        let t0 = std::time::Instant::now();
        epoch(&mut ctx, &Fs::default(), &Model::new(), &job.hist, 1, &trail);
        if std::env::var("VERIF_DEBUG").is_ok() {
            eprintln!("job {idx} {:?} {:?} cont={:?}: histories={} images={} {:?}", job.cfg, job.hist, job.cont, ctx.stats.histories, ctx.stats.images, t0.elapsed());
        }
        seen = ctx.seen_states;
        let s = ctx.stats;
        total.histories += s.histories;
        total.images += s.images;
        total.torn_images += s.torn_images;
        total.recoveries += s.recoveries;
        for (k, c) in s.images_by_epoch.iter().enumerate() {
            while total.images_by_epoch.len() <= k {
                total.images_by_epoch.push(0);
            }
            total.images_by_epoch[k] += c;
        }
        total.violation_total += s.violation_total;
        for v in s.violations {
            if total.violations.iter().filter(|x| x.signature == v.signature).count() < 3 {
                total.violations.push(v);
            }
        }
        if total.sample.is_none() {
            total.sample = s.sample;
        }
    }
    total.distinct_recovered_states = seen.len() as u64;
    env::scratch_cleanup();
    par::emit_result(&total);
}

fn main() {
    env::require();
    let args = nvc::Args::parse();
    if let Some((i, n)) = args.worker {
        worker(i, n, args.thorough());
        return;
    }
    let mut rep = Report::new("C02", "fault_enumeration");
    let thorough = rep.thorough();
    rep.rule("histories: all sequences of put_durable/delete_durable/checkpoint/sync over one or two keys per key class (plain, emb:, node:, table:, _cache:, and ordinary keys that merely start with the letters _cache) and all value kinds, x sync modes {Immediate, Batched(2), Manual} x {rotation off, on}; crash images: every I/O-op boundary, every byte cut of every write (writes >160 B: first/last 24 bytes + every 61st), every length of the log's unsynced tail; epochs 2-3 continue on the store recovered from every distinct image. non-trivial = image with a torn or unsynced tail");
    rep.assume("crash model: prefix persistence per file; renames/unlinks/truncations atomic and ordered; snapshot files subject to process-crash only (no power-loss cut after rename); directory fsync not modelled");
    rep.assume("states are compared exactly, except that an embedding of length >= 256 may differ within the documented snapshot reconstruction tolerance (relative L2 <= 1e-2) — checkpoints write the compressed snapshot format");
    rep.assume("acknowledged = call returned (Immediate) / covered by a later returned sync() or checkpoint() (Batched, Manual); _cache: keys are ignored in the comparison");
    let n = par::worker_count();
    let results: Vec<Stats> = par::spawn_workers(n, &[]);
    let mut t = Stats::default();
    for s in results {
        t.histories += s.histories;
        t.images += s.images;
        t.torn_images += s.torn_images;
        t.recoveries += s.recoveries;
        t.distinct_recovered_states = t.distinct_recovered_states.max(s.distinct_recovered_states);
        for (k, c) in s.images_by_epoch.iter().enumerate() {
            while t.images_by_epoch.len() <= k {
                t.images_by_epoch.push(0);
            }
            t.images_by_epoch[k] += c;
        }
        for v in s.violations {
            rep.violation(v.signature, v.message, v.replay);
        }
        if t.sample.is_none() {
            t.sample = s.sample;
        }
    }
    rep.add("evaluations", t.recoveries);
    rep.add("distinct_nontrivial", t.torn_images);
    rep.add("states", t.images);
    rep.add("transitions", t.recoveries);
    rep.add("traces_validated_against_impl", t.histories);
    rep.part("totals", json!({"histories_run": t.histories, "crash_images": t.images, "torn_or_unsynced_images": t.torn_images, "images_by_epoch": t.images_by_epoch, "distinct_recovered_states_max_per_worker": t.distinct_recovered_states, "first_epoch_jobs": jobs(thorough).len()}));
    if let Some(s) = t.sample {
        rep.sample(s);
    }
    if t.violations.is_empty() && (t.torn_images < 100 || t.distinct_recovered_states < 5) {
        rep.machinery("vacuous: too few torn images / recovered states");
    }
    rep.finish();
}
