//! C01 — Raft safety on real RaftNodes (DESIGN §2, C01): explicit-state BFS (stateright) in which
//! every transition rebuilds one real `RaftNode` from its snapshot (verif_import), runs one real
//! handler / production sender on it, and reads the successor back (verif_export).
use async_trait::async_trait;
use nvc::{env, Report};
use serde_json::json;
use stateright::{Checker, Model, Property};
use std::collections::{BTreeMap, BTreeSet};
use std::sync::Arc;
use tensor_chain::block::{Block, BlockHeader};
use tensor_chain::error::Result as ChainResult;
use tensor_chain::network::{AppendEntries, AppendEntriesResponse, LogEntry, Message, PeerConfig, PreVote, PreVoteResponse, RequestVote, RequestVoteResponse, Transport};
use tensor_chain::raft::{RaftConfig, RaftNode, RaftState, VerifRaftState};
use tensor_chain::raft_wal::{RaftRecoveryState, RaftWal, RaftWalEntry};
use tensor_store::SparseVector;

// ---------------------------------------------------------------- recording transport
struct RecTransport {
    id: String,
    peers: Vec<String>,
    out: parking_lot::Mutex<Vec<(String, Message)>>,
}
#[async_trait]
impl Transport for RecTransport {
    async fn send(&self, to: &String, msg: Message) -> ChainResult<()> {
        self.out.lock().push((to.clone(), msg));
        Ok(())
    }
    async fn broadcast(&self, msg: Message) -> ChainResult<()> {
        for p in &self.peers {
            self.out.lock().push((p.clone(), msg.clone()));
        }
        Ok(())
    }
    async fn recv(&self) -> ChainResult<(String, Message)> {
        std::future::pending().await
    }
    async fn connect(&self, _peer: &PeerConfig) -> ChainResult<()> {
        Ok(())
    }
    async fn disconnect(&self, _peer_id: &String) -> ChainResult<()> {
        Ok(())
    }
    fn peers(&self) -> Vec<String> {
        self.peers.clone()
    }
    fn local_id(&self) -> &String {
        &self.id
    }
}

/// poll a future that never really waits (the transport is always ready)
fn block_on<F: std::future::Future>(f: F) -> F::Output {
    use std::task::{Context, Poll, RawWaker, RawWakerVTable, Waker};
    fn noop(_: *const ()) {}
    fn clone(_: *const ()) -> RawWaker {
        RawWaker::new(std::ptr::null(), &VTABLE)
    }
    static VTABLE: RawWakerVTable = RawWakerVTable::new(clone, noop, noop, noop);
    let waker = unsafe { Waker::from_raw(RawWaker::new(std::ptr::null(), &VTABLE)) };
    let mut cx = Context::from_waker(&waker);
    let mut f = std::pin::pin!(f);
    match f.as_mut().poll(&mut cx) {
        Poll::Ready(v) => v,
        Poll::Pending => panic!("harness future was not ready immediately"),
    }
}

// ---------------------------------------------------------------- state
#[derive(Clone, Debug, Hash, PartialEq, Eq, PartialOrd, Ord)]
struct NodeSt {
    term: u64,
    voted_for: Option<u8>,
    /// (term, tag) per index
    log: Vec<(u64, u64)>,
    commit: u64,
    last_applied: u64,
    role: u8, // 0 follower 1 candidate 2 leader
    leader: Option<u8>,
    lead: Option<(Vec<(u8, u64)>, Vec<(u8, u64)>, Vec<(u8, u32)>)>,
    votes: Vec<u8>,
    prevotes: Vec<u8>,
    in_pre_vote: bool,
    stale: bool,
    responded: Vec<(u8, bool)>,
    failures: Vec<(u8, u32)>,
    /// fast path: embeddings recorded per leader, oldest first (0 = the default embedding of a harness block,
    /// which a leader records for its own proposals; 1 = the fixed embedding the harness attaches to AppendEntries) and blocks accepted on the fast path since the last full validation
    fp_hist: Vec<(u8, Vec<u8>)>,
    fp_since: u8,
    /// what the node's write-ahead log would recover (term, vote): read back from a real RaftWal
    /// with RaftRecoveryState after every transition; a crash restarts from this, not from memory
    dur: (u64, Option<u8>),
}

#[derive(Clone, Debug, Hash, PartialEq, Eq, PartialOrd, Ord)]
enum Msg {
    RV { term: u64, lli: u64, llt: u64 },
    RVR { term: u64, granted: bool },
    PV { term: u64, lli: u64, llt: u64 },
    PVR { term: u64, granted: bool },
    AE { term: u64, prev_idx: u64, prev_term: u64, entries: Vec<(u64, u64, u64)>, commit: u64 },
    AER { term: u64, success: bool, match_index: u64 },
}
#[derive(Clone, Debug, Hash, PartialEq, Eq, PartialOrd, Ord)]
struct Env {
    from: u8,
    to: u8,
    msg: Msg,
}

#[derive(Clone, Debug, Hash, PartialEq, Eq)]
struct Sys {
    nodes: Vec<NodeSt>,
    net: BTreeSet<Env>,
    // history variables
    leaders: BTreeMap<u64, u8>,
    /// index -> (term, tag, current term of the node that first reported it committed)
    committed: BTreeMap<u64, (u64, u64, u64)>,
    dups_left: u8,
    crashes_left: u8,
    /// a leader was deposed after committing (for the non-vacuity witness)
    second_leader_committed: bool,
    /// number of explored transitions since the initial/seed state. Part of the state on purpose: the
    /// parallel breadth-first search is not level-synchronous, and without it a state first met at the depth
    /// bound through a longer path would never be expanded although a shorter path reaches it
    depth: u8,
    violation: Option<String>,
}

#[derive(Clone, Debug, Hash, PartialEq, Eq)]
enum Act {
    Deliver(Env),
    Duplicate(Env),
    /// election timer of node i expires (its heartbeat goes stale and it starts a (pre-)election)
    Lapse(u8),
    /// time passes at node i without a heartbeat (matters for pre-vote grants)
    Stale(u8),
    Heartbeat(u8),
    Propose(u8),
    Crash(u8),
}

#[derive(Clone, Debug)]
struct Cfg {
    n: u8,
    pre_vote: bool,
    fast_path: bool,
    tiebreak: bool,
    max_term: u64,
    max_log: usize,
    dups: u8,
    crashes: u8,
    seeds: bool,
    /// nodes run on a real RaftWal and crashes restart from what it recovers
    wal: bool,
    /// start only from the scripted 'two rival candidates of one term' state (5 voters, pre-vote)
    rivals: bool,
    /// start only from the scripted state in which a follower with a stale suffix is about to be repaired by
    /// the leader of a later term (fast path on: the repair traffic carries block embeddings)
    repair: bool,
}

fn name(i: u8) -> String {
    format!("n{i}")
}
fn idx(s: &str) -> u8 {
    s[1..].parse().unwrap()
}
fn block(tag: u64) -> Block {
    Block::new(BlockHeader::new(tag, [0u8; 32], [0u8; 32], [0u8; 32], "p".to_string()), vec![])
}
/// the block embedding every AppendEntries with entries carries when the fast path is on
fn fp_embedding() -> SparseVector {
    SparseVector::from_dense(&[1.0, 0.5])
}
fn embedding(cfg: &Cfg, i: u8) -> SparseVector {
    if !cfg.tiebreak {
        return SparseVector::new(0);
    }
    // n0,n1 similar to each other (bias 1.0 >= threshold), the others opposite (bias 0.0 < threshold)
    let v = if i < 2 { vec![1.0f32, 0.0] } else { vec![-1.0f32, 0.0] };
    SparseVector::from_dense(&v)
}

impl NodeSt {
    fn initial() -> NodeSt {
        NodeSt { term: 0, voted_for: None, log: vec![], commit: 0, last_applied: 0, role: 0, leader: None, lead: None, votes: vec![], prevotes: vec![], in_pre_vote: false, stale: false, responded: vec![], failures: vec![], fp_hist: vec![], fp_since: 0, dur: (0, None) }
    }
    fn to_verif(&self) -> VerifRaftState {
        VerifRaftState {
            current_term: self.term,
            voted_for: self.voted_for.map(name),
            log: self.log.iter().enumerate().map(|(k, (t, tag))| LogEntry::new(*t, k as u64 + 1, block(*tag))).collect(),
            log_base_index: 0,
            commit_index: self.commit,
            last_applied: self.last_applied,
            role: match self.role {
                0 => RaftState::Follower,
                1 => RaftState::Candidate,
                _ => RaftState::Leader,
            },
            current_leader: self.leader.map(name),
            leader: self.lead.as_ref().map(|(n, m, b)| (n.iter().map(|(k, v)| (name(*k), *v)).collect(), m.iter().map(|(k, v)| (name(*k), *v)).collect(), b.iter().map(|(k, v)| (name(*k), *v)).collect())),
            votes_received: self.votes.iter().map(|v| name(*v)).collect(),
            pre_votes_received: self.prevotes.iter().map(|v| name(*v)).collect(),
            in_pre_vote: self.in_pre_vote,
            heartbeat_stale: self.stale,
            responded: self.responded.iter().map(|(k, v)| (name(*k), *v)).collect(),
            failures: self.failures.iter().map(|(k, v)| (name(*k), *v)).collect(),
            fast_path_history: self.fp_hist.iter().map(|(k, h)| (name(*k), h.iter().map(|e| if *e == 1 { fp_embedding() } else { block(0).header.delta_embedding }).collect())).collect(),
            fast_path_since_full: self.fp_since as usize,
        }
    }
    fn from_verif(v: &VerifRaftState) -> NodeSt {
        let mut votes: Vec<u8> = v.votes_received.iter().map(|s| idx(s)).collect();
        votes.sort_unstable();
        let mut prevotes: Vec<u8> = v.pre_votes_received.iter().map(|s| idx(s)).collect();
        prevotes.sort_unstable();
        NodeSt {
            term: v.current_term,
            voted_for: v.voted_for.as_deref().map(idx),
            log: v.log.iter().map(|e| (e.term, e.block.header.height)).collect(),
            commit: v.commit_index,
            last_applied: v.last_applied,
            role: match v.role {
                RaftState::Follower => 0,
                RaftState::Candidate => 1,
                _ => 2,
            },
            leader: v.current_leader.as_deref().map(idx),
            lead: v.leader.as_ref().map(|(n, m, b)| (n.iter().map(|(k, v)| (idx(k), *v)).collect(), m.iter().map(|(k, v)| (idx(k), *v)).collect(), b.iter().map(|(k, v)| (idx(k), *v)).collect())),
            votes,
            prevotes,
            in_pre_vote: v.in_pre_vote,
            stale: v.heartbeat_stale,
            responded: v.responded.iter().map(|(k, v)| (idx(k), *v)).collect(),
            failures: v.failures.iter().map(|(k, v)| (idx(k), *v)).collect(),
            fp_hist: v
                .fast_path_history
                .iter()
                .map(|(k, h)| {
                    let kinds = h
                        .iter()
                        .map(|e| {
                            if *e == fp_embedding() {
                                1
                            } else {
                                assert!(*e == block(0).header.delta_embedding, "unexpected embedding in the fast-path history: {e:?}");
                                0
                            }
                        })
                        .collect();
                    (idx(k), kinds)
                })
                .collect(),
            fp_since: v.fast_path_since_full as u8,
            dur: (v.current_term, v.voted_for.as_deref().map(idx)),
        }
    }
}

/// one scratch WAL file per explorer thread (rewritten for every transition)
fn wal_path() -> std::path::PathBuf {
    thread_local! {
        static P: std::path::PathBuf = {
            static N: std::sync::atomic::AtomicUsize = std::sync::atomic::AtomicUsize::new(0);
            let k = N.fetch_add(1, std::sync::atomic::Ordering::Relaxed);
            std::path::PathBuf::from(env::scratch_root()).join(format!("c01-{k}.wal"))
        };
    }
    P.with(|p| p.clone())
}

/// bytes of a WAL holding exactly one TermAndVote record for `dur`, produced by the real RaftWal
fn seed_bytes(dur: (u64, Option<u8>)) -> Vec<u8> {
    thread_local! { static CACHE: std::cell::RefCell<BTreeMap<(u64, Option<u8>), Vec<u8>>> = const { std::cell::RefCell::new(BTreeMap::new()) }; }
    if dur == (0, None) {
        return vec![];
    }
    CACHE.with(|c| {
        c.borrow_mut()
            .entry(dur)
            .or_insert_with(|| {
                let path = wal_path();
                std::fs::write(&path, b"").expect("truncate scratch wal");
                {
                    let mut w = RaftWal::open(&path).expect("create scratch wal");
                    w.append(&RaftWalEntry::TermAndVote { term: dur.0, voted_for: dur.1.map(name) }).expect("seed scratch wal");
                }
                std::fs::read(&path).expect("read seed")
            })
            .clone()
    })
}

/// what a restart would recover from the scratch WAL (the production recovery function)
fn recovered(path: &std::path::Path, before: (u64, Option<u8>)) -> (u64, Option<u8>) {
    // nothing appended (the log is byte-identical to the seed): the durable pair is unchanged
    if std::fs::read(path).expect("read scratch wal") == seed_bytes(before) {
        return before;
    }
    let wal = RaftWal::open(path).expect("open scratch wal");
    let r = RaftRecoveryState::from_wal(&wal).expect("replay scratch wal");
    (r.current_term, r.voted_for.as_deref().map(idx))
}

fn raft_config(cfg: &Cfg) -> RaftConfig {
    let mut c = RaftConfig::default();
    c.enable_pre_vote = cfg.pre_vote;
    c.enable_fast_path = cfg.fast_path;
    c.enable_geometric_tiebreak = cfg.tiebreak;
    c.auto_heartbeat = false;
    c
}

fn build(cfg: &Cfg, i: u8, st: &NodeSt) -> (RaftNode, Arc<RecTransport>) {
    let peers: Vec<String> = (0..cfg.n).filter(|j| *j != i).map(name).collect();
    let t = Arc::new(RecTransport { id: name(i), peers: peers.clone(), out: parking_lot::Mutex::new(vec![]) });
    let node = if cfg.wal {
        // the node's durable (term, vote) so far is laid down as one record (written once by the real
        // RaftWal, then reused byte for byte); everything the handler persists is appended to it by
        // the production code
        let path = wal_path();
        std::fs::write(&path, seed_bytes(st.dur)).expect("seed scratch wal");
        RaftNode::with_wal(name(i), peers, t.clone(), raft_config(cfg), &path).expect("with_wal")
    } else {
        RaftNode::new(name(i), peers, t.clone(), raft_config(cfg))
    };
    node.verif_import(&st.to_verif());
    if cfg.tiebreak {
        node.update_state_embedding(embedding(cfg, i));
    }
    (node, t)
}

fn to_real(cfg: &Cfg, e: &Env) -> Message {
    let from = name(e.from);
    match &e.msg {
        Msg::RV { term, lli, llt } => Message::RequestVote(RequestVote { term: *term, candidate_id: from, last_log_index: *lli, last_log_term: *llt, state_embedding: embedding(cfg, e.from) }),
        Msg::RVR { term, granted } => Message::RequestVoteResponse(RequestVoteResponse { term: *term, vote_granted: *granted, voter_id: from }),
        Msg::PV { term, lli, llt } => Message::PreVote(PreVote { term: *term, candidate_id: from, last_log_index: *lli, last_log_term: *llt, state_embedding: embedding(cfg, e.from) }),
        Msg::PVR { term, granted } => Message::PreVoteResponse(PreVoteResponse { term: *term, vote_granted: *granted, voter_id: from }),
        Msg::AE { term, prev_idx, prev_term, entries, commit } => Message::AppendEntries(AppendEntries {
            term: *term,
            leader_id: from,
            prev_log_index: *prev_idx,
            prev_log_term: *prev_term,
            entries: entries.iter().map(|(t, i, tag)| LogEntry::new(*t, *i, block(*tag))).collect(),
            leader_commit: *commit,
            block_embedding: if cfg.fast_path { entries.last().map(|_| fp_embedding()) } else { None },
        }),
        Msg::AER { term, success, match_index } => Message::AppendEntriesResponse(AppendEntriesResponse { term: *term, success: *success, follower_id: from, match_index: *match_index, used_fast_path: false }),
    }
}
fn from_real(m: &Message) -> Option<Msg> {
    Some(match m {
        Message::RequestVote(r) => Msg::RV { term: r.term, lli: r.last_log_index, llt: r.last_log_term },
        Message::RequestVoteResponse(r) => Msg::RVR { term: r.term, granted: r.vote_granted },
        Message::PreVote(r) => Msg::PV { term: r.term, lli: r.last_log_index, llt: r.last_log_term },
        Message::PreVoteResponse(r) => Msg::PVR { term: r.term, granted: r.vote_granted },
        Message::AppendEntries(a) => Msg::AE { term: a.term, prev_idx: a.prev_log_index, prev_term: a.prev_log_term, entries: a.entries.iter().map(|e| (e.term, e.index, e.block.header.height)).collect(), commit: a.leader_commit },
        Message::AppendEntriesResponse(a) => Msg::AER { term: a.term, success: a.success, match_index: a.match_index },
        _ => return None,
    })
}

struct RaftModel {
    cfg: Cfg,
}

impl RaftModel {
    fn collect_out(&self, i: u8, t: &RecTransport, net: &mut BTreeSet<Env>) {
        for (to, m) in t.out.lock().drain(..) {
            if let Some(msg) = from_real(&m) {
                net.insert(Env { from: i, to: idx(&to), msg });
            }
        }
    }

    /// run `f` on node i rebuilt from the state; returns the successor system state
    fn with_node(&self, s: &Sys, i: u8, f: impl FnOnce(&RaftNode, &RecTransport) -> Option<(u8, Message)>) -> Sys {
        let mut n = s.clone();
        let before = &s.nodes[i as usize];
        let (node, t) = build(&self.cfg, i, before);
        let reply = f(&node, &t);
        let mut after = NodeSt::from_verif(&node.verif_export());
        drop(node);
        if self.cfg.wal {
            after.dur = recovered(&wal_path(), before.dur);
        }
        // Driver glue (trusted, stated in DESIGN): the synchronous start_election() reached from a
        // successful pre-vote builds a RequestVote and discards it; a complete driver broadcasts it.
        if self.cfg.pre_vote && after.role == 1 && after.term == before.term + 1 && t.out.lock().is_empty() && reply.is_none() {
            let (lli, llt) = after.log.last().map_or((0, 0), |(t, _)| (after.log.len() as u64, *t));
            for j in (0..self.cfg.n).filter(|j| *j != i) {
                n.net.insert(Env { from: i, to: j, msg: Msg::RV { term: after.term, lli, llt } });
            }
        }
        if let Some((to, m)) = reply {
            if let Some(msg) = from_real(&m) {
                n.net.insert(Env { from: i, to, msg });
            }
        }
        self.collect_out(i, &t, &mut n.net);
        // stale is a property of time, not of the handler: a handler can only refresh it
        if before.stale && !after.stale {
            // refreshed by the handler (heartbeat or vote granted)
        } else {
            after.stale = before.stale;
        }
        n.nodes[i as usize] = after;
        self.check(s, &mut n, i, false);
        n
    }

    fn check(&self, old: &Sys, n: &mut Sys, i: u8, crashed: bool) {
        if n.violation.is_some() {
            return;
        }
        let mut bad: Option<String> = None;
        let (b, a) = (&old.nodes[i as usize], n.nodes[i as usize].clone());
        if a.term < b.term {
            bad = Some(format!("term-decreased: n{i} {} -> {}", b.term, a.term));
        }
        if !crashed && a.commit < b.commit {
            bad = Some(format!("commit-decreased: n{i} {} -> {}", b.commit, a.commit));
        }
        if a.commit > a.log.len() as u64 {
            bad = Some(format!("commit-beyond-log: n{i} commit {} log {}", a.commit, a.log.len()));
        }
        // election safety
        if a.role == 2 && !(b.role == 2 && b.term == a.term) {
            match n.leaders.get(&a.term) {
                Some(l) if *l != i => bad = Some(format!("two-leaders-in-term: term {} n{l} and n{i}", a.term)),
                _ => {
                    n.leaders.insert(a.term, i);
                }
            }
        }
        // state machine safety
        for k in 1..=a.commit.min(a.log.len() as u64) {
            let e = a.log[k as usize - 1];
            match n.committed.get(&k) {
                Some((t, tag, _)) if (*t, *tag) != e => bad = Some(format!("committed-entry-contradicted: index {k} was committed as (term {t}, tag {tag}), n{i} now reports (term {}, tag {}) committed", e.0, e.1)),
                Some(_) => {}
                None => {
                    n.committed.insert(k, (e.0, e.1, a.term));
                    if n.leaders.len() >= 2 && n.leaders.keys().next_back().is_some_and(|t| *t == e.0) {
                        n.second_leader_committed = true;
                    }
                }
            }
        }
        // leader completeness: a leader of a later term holds every committed entry
        for (j, nd) in n.nodes.iter().enumerate() {
            if nd.role == 2 {
                for (k, (t, tag, by_term)) in &n.committed {
                    if nd.term > *by_term && nd.log.get(*k as usize - 1) != Some(&(*t, *tag)) {
                        bad = Some(format!("leader-misses-committed-entry: n{j} leads term {} without committed index {k} (term {t}, tag {tag})", nd.term));
                    }
                }
            }
        }
        // log matching
        for x in 0..n.nodes.len() {
            for y in x + 1..n.nodes.len() {
                let (lx, ly) = (&n.nodes[x].log, &n.nodes[y].log);
                for k in (0..lx.len().min(ly.len())).rev() {
                    if lx[k].0 == ly[k].0 {
                        if lx[..=k] != ly[..=k] {
                            bad = Some(format!("log-matching: n{x} and n{y} agree on the term of index {} but differ before it: {:?} vs {:?}", k + 1, lx, ly));
                        }
                        break;
                    }
                }
            }
        }
        n.violation = bad;
    }
}

impl Model for RaftModel {
    type State = Sys;
    type Action = Act;

    fn init_states(&self) -> Vec<Sys> {
        let init = Sys { nodes: vec![NodeSt::initial(); self.cfg.n as usize], net: BTreeSet::new(), leaders: BTreeMap::new(), committed: BTreeMap::new(), dups_left: self.cfg.dups, crashes_left: self.cfg.crashes, second_leader_committed: false, depth: 0, violation: None };
        if self.cfg.rivals {
            return rival_seed(self, &init).into_iter().collect();
        }
        if self.cfg.repair {
            return repair_seed(self, &init).into_iter().collect();
        }
        let mut v = vec![init.clone()];
        if self.cfg.seeds {
            v.extend(seeds(self, &init));
        }
        v
    }

    fn actions(&self, s: &Sys, out: &mut Vec<Act>) {
        if s.violation.is_some() {
            return;
        }
        for e in &s.net {
            out.push(Act::Deliver(e.clone()));
        }
        for i in 0..self.cfg.n {
            let nd = &s.nodes[i as usize];
            if nd.role == 2 {
                out.push(Act::Heartbeat(i));
                if nd.log.len() < self.cfg.max_log && nd.log.iter().filter(|(t, _)| *t == nd.term).count() < 2 {
                    out.push(Act::Propose(i));
                }
            } else if nd.term < self.cfg.max_term {
                out.push(Act::Lapse(i));
            }
            if self.cfg.pre_vote && !nd.stale && nd.role != 2 {
                out.push(Act::Stale(i));
            }
            if s.crashes_left > 0 {
                out.push(Act::Crash(i));
            }
        }
        if s.dups_left > 0 {
            for e in &s.net {
                out.push(Act::Duplicate(e.clone()));
            }
        }
    }

    fn next_state(&self, s: &Sys, a: Act) -> Option<Sys> {
        let n = match a {
            Act::Deliver(e) | Act::Duplicate(e) if false => {
                let _ = e;
                unreachable!()
            }
            Act::Deliver(ref e) | Act::Duplicate(ref e) => {
                let dup = matches!(a, Act::Duplicate(_));
                let mut base = s.clone();
                if dup {
                    base.dups_left -= 1;
                } else {
                    base.net.remove(e);
                }
                let real = to_real(&self.cfg, e);
                let from = name(e.from);
                let to = e.to;
                let sender = e.from;
                self.with_node(&base, to, |node, _| node.handle_message(&from, &real).map(|m| (sender, m)))
            }
            Act::Lapse(i) => {
                let mut base = s.clone();
                base.nodes[i as usize].stale = true;
                let pre = self.cfg.pre_vote;
                self.with_node(&base, i, |node, _| {
                    if pre {
                        let _ = block_on(node.start_pre_vote_async());
                    } else {
                        let _ = block_on(node.start_election_async());
                    }
                    None
                })
            }
            Act::Stale(i) => {
                let mut n = s.clone();
                n.nodes[i as usize].stale = true;
                n
            }
            Act::Heartbeat(i) => self.with_node(s, i, |node, _| {
                let _ = block_on(node.send_heartbeats());
                None
            }),
            Act::Propose(i) => {
                let nd = &s.nodes[i as usize];
                let tag = nd.term * 100 + nd.log.len() as u64 + 1;
                let n = self.with_node(s, i, |node, _| {
                    let _ = node.propose(block(tag));
                    None
                });
                if n.nodes[i as usize].log.len() == nd.log.len() {
                    return None; // refused (not write-safe): no new state
                }
                n
            }
            Act::Crash(i) => {
                let mut n = s.clone();
                n.crashes_left -= 1;
                let b = &s.nodes[i as usize];
                // restart from the durable triple only, through the real constructor
                let peers: Vec<String> = (0..self.cfg.n).filter(|j| *j != i).map(name).collect();
                let t = Arc::new(RecTransport { id: name(i), peers: peers.clone(), out: parking_lot::Mutex::new(vec![]) });
                let log = b.log.iter().enumerate().map(|(k, (t, tag))| LogEntry::new(*t, k as u64 + 1, block(*tag))).collect();
                let node = RaftNode::with_state(name(i), peers, t, raft_config(&self.cfg), b.dur.0, b.dur.1.map(name), log);
                let mut after = NodeSt::from_verif(&node.verif_export());
                after.stale = false;
                n.nodes[i as usize] = after;
                self.check(s, &mut n, i, true);
                n
            }
        };
        let mut n = n;
        n.depth = s.depth.saturating_add(1);
        Some(n)
    }

    fn properties(&self) -> Vec<Property<Self>> {
        vec![
            Property::always("safe", |_, s: &Sys| s.violation.is_none()),
            Property::sometimes("a leader is elected", |_, s: &Sys| !s.leaders.is_empty()),
            Property::sometimes("an entry is committed", |_, s: &Sys| !s.committed.is_empty()),
            Property::sometimes("a rival candidate wins the contested term", |m: &RaftModel, s: &Sys| m.cfg.rivals && s.leaders.contains_key(&3)),
            Property::sometimes("the stale follower is repaired on the fast path", |m: &RaftModel, s: &Sys| m.cfg.repair && s.nodes[0].log.len() == 3 && s.nodes[0].log[1].0 == 2 && s.nodes[0].fp_since > 0),
            Property::sometimes("a second leader commits", |_, s: &Sys| s.second_leader_committed),
        ]
    }
}

// ---------------------------------------------------------------- seeds (scripted, reachable by construction)
fn run_script(m: &RaftModel, init: &Sys, script: &[&dyn Fn(&Sys, &[Act]) -> Option<Act>]) -> Option<Sys> {
    let mut s = init.clone();
    for pick in script {
        let mut acts = vec![];
        m.actions(&s, &mut acts);
        let a = pick(&s, &acts)?;
        s = m.next_state(&s, a)?;
    }
    Some(s)
}
fn deliver_where(acts: &[Act], f: impl Fn(&Env) -> bool) -> Option<Act> {
    acts.iter().find(|a| matches!(a, Act::Deliver(e) if f(e))).cloned()
}
/// smallest node id that is neither a nor b
fn third(a: u8, b: u8) -> u8 {
    (0..).find(|x| *x != a && *x != b).unwrap()
}
/// drive node `c` to leadership from the given state: timer, all (pre-)vote traffic between c and `voter`
/// (on 5 voters: and one more voter, the majority being 3)
fn elect(m: &RaftModel, s: &Sys, c: u8, voter: u8) -> Option<Sys> {
    let voters: Vec<u8> = if m.cfg.n >= 5 { vec![voter, third(c, voter)] } else { vec![voter] };
    let mut s = s.clone();
    if m.cfg.pre_vote {
        for v in &voters {
            s = m.next_state(&s, Act::Stale(*v)).unwrap_or(s);
        }
    }
    s = m.next_state(&s, Act::Lapse(c))?;
    for _ in 0..12 {
        if s.nodes[c as usize].role == 2 {
            break;
        }
        let mut acts = vec![];
        m.actions(&s, &mut acts);
        let a = deliver_where(&acts, |e| (e.from == c && voters.contains(&e.to) && matches!(e.msg, Msg::PV { .. } | Msg::RV { .. })) || (voters.contains(&e.from) && e.to == c && matches!(e.msg, Msg::PVR { .. } | Msg::RVR { .. })))?;
        s = m.next_state(&s, a)?;
    }
    (s.nodes[c as usize].role == 2).then_some(s)
}
/// heartbeat round trip leader l <-> follower f (makes the leader write-safe / replicates); on 5 voters
/// also with one more follower, so that the exchange reaches a majority
fn round_trip(m: &RaftModel, s: &Sys, l: u8, f: u8) -> Option<Sys> {
    let followers: Vec<u8> = if m.cfg.n >= 5 { vec![f, third(l, f)] } else { vec![f] };
    let mut s = m.next_state(s, Act::Heartbeat(l))?;
    for _ in 0..2 * followers.len() {
        let mut acts = vec![];
        m.actions(&s, &mut acts);
        let a = deliver_where(&acts, |e| (e.from == l && followers.contains(&e.to) && matches!(e.msg, Msg::AE { .. })) || (followers.contains(&e.from) && e.to == l && matches!(e.msg, Msg::AER { .. })))?;
        s = m.next_state(&s, a)?;
    }
    Some(s)
}

/// drive candidate `c` through (pre-vote and) vote traffic with exactly the listed voters, stopping as
/// soon as `until` holds; other traffic stays in flight
fn campaign(m: &RaftModel, s: &Sys, c: u8, voters: &[u8], until: impl Fn(&NodeSt) -> bool) -> Option<Sys> {
    let mut s = s.clone();
    if m.cfg.pre_vote {
        for v in voters {
            s = m.next_state(&s, Act::Stale(*v)).unwrap_or(s);
        }
    }
    s = m.next_state(&s, Act::Lapse(c))?;
    for _ in 0..24 {
        if until(&s.nodes[c as usize]) {
            return Some(s);
        }
        let mut acts = vec![];
        m.actions(&s, &mut acts);
        let Some(a) = deliver_where(&acts, |e| (e.from == c && voters.contains(&e.to) && matches!(e.msg, Msg::PV { .. } | Msg::RV { .. })) || (voters.contains(&e.from) && e.to == c && matches!(e.msg, Msg::PVR { .. } | Msg::RVR { .. }))) else {
            if std::env::var("VERIF_DEBUG").is_ok() {
                eprintln!("campaign of n{c}: nothing left to deliver; candidate {:?}; voters {:?}; net {:?}", s.nodes[c as usize], voters.iter().map(|v| (s.nodes[*v as usize].term, s.nodes[*v as usize].stale, s.nodes[*v as usize].leader, s.nodes[*v as usize].failures.clone())).collect::<Vec<_>>(), s.net);
            }
            return None;
        };
        s = m.next_state(&s, a)?;
    }
    until(&s.nodes[c as usize]).then_some(s)
}
/// 5 voters: n0 led term 1 (votes of n1, n2), was deposed by n4's term-2 candidacy, and now n0 and n4 are
/// both candidates of term 3 with their RequestVotes in flight. Every step is a real handler call.
fn rival_seed(m: &RaftModel, init: &Sys) -> Option<Sys> {
    let dbg = |what: &str| {
        if std::env::var("VERIF_DEBUG").is_ok() {
            eprintln!("rival seed: step '{what}' failed");
        }
    };
    let Some(s) = campaign(m, init, 0, &[1, 2], |n| n.role == 2) else { dbg("n0 wins term 1"); return None };
    let mut s = s;
    s.net.clear();
    // everybody hears one heartbeat of n0 (learns term 1)
    let Some(mut s) = m.next_state(&s, Act::Heartbeat(0)) else { dbg("heartbeat"); return None };
    for to in 1..5u8 {
        let mut acts = vec![];
        m.actions(&s, &mut acts);
        let Some(n) = deliver_where(&acts, |e| e.from == 0 && e.to == to && matches!(e.msg, Msg::AE { .. })).and_then(|a| m.next_state(&s, a)) else { dbg("heartbeat delivery"); return None };
        s = n;
    }
    s.net.clear();
    // n4 campaigns for term 2 (pre-votes of n2, n3); its RequestVote deposes n0
    let Some(s) = campaign(m, &s, 4, &[2, 3], |n| n.role == 1 && n.term == 2) else { dbg("n4 candidate of term 2"); return None };
    // n4's RequestVote reaches everybody (all learn term 2, n0 steps down); the answers are lost
    let mut s = s;
    for to in 0..4u8 {
        let mut acts = vec![];
        m.actions(&s, &mut acts);
        let Some(n) = deliver_where(&acts, |e| e.from == 4 && e.to == to && matches!(e.msg, Msg::RV { .. })).and_then(|a| m.next_state(&s, a)) else { dbg("n4's RequestVote delivery"); return None };
        s = n;
    }
    if s.nodes[0].role == 2 {
        dbg("n0 steps down");
        return None;
    }
    s.net.clear();
    // n0 campaigns for term 3 (pre-votes of n1, n3), then n4 does (pre-votes of n2, n3)
    let Some(mut s) = campaign(m, &s, 0, &[1, 3], |n| n.role == 1 && n.term == 3) else { dbg("n0 candidate of term 3"); return None };
    s.net.retain(|e| matches!(e.msg, Msg::RV { .. }));
    let Some(mut s) = campaign(m, &s, 4, &[2, 3], |n| n.role == 1 && n.term == 3) else { dbg("n4 candidate of term 3"); return None };
    s.net.retain(|e| matches!(e.msg, Msg::RV { term: 3, .. }));
    if std::env::var("VERIF_DEBUG").is_ok() {
        eprintln!("rival seed: n0 {:?}\n            n4 {:?}\n            net {:?}", s.nodes[0], s.nodes[4], s.net);
    }
    s.depth = 0;
    s.violation.is_none().then_some(s)
}

/// 3 voters: n0 led term 1 and still holds a stale unreplicated term-1 entry at index 2; the term-2 entry at
/// index 2 is committed on n1 and n2; n2 leads term 3, has appended a term-3 entry and has just sent its
/// AppendEntries (entries attached) to both followers. Every step is a real handler call.
fn repair_seed(m: &RaftModel, init: &Sys) -> Option<Sys> {
    let steps: Vec<(&str, Box<dyn Fn(&Sys) -> Option<Sys> + '_>)> = vec![
        ("elect0", Box::new(|s| elect(m, s, 0, 1))),
        ("rt0", Box::new(|s| round_trip(m, s, 0, 1))),
        ("propose0", Box::new(|s| m.next_state(s, Act::Propose(0)))),
        ("rt0b", Box::new(|s| round_trip(m, s, 0, 1))),
        ("stale-propose0", Box::new(|s| m.next_state(s, Act::Propose(0)))),
        ("elect1", Box::new(|s| elect(m, s, 1, 2))),
        ("rt1", Box::new(|s| round_trip(m, s, 1, 2))),
        ("rt1b", Box::new(|s| round_trip(m, s, 1, 2))),
        ("propose1", Box::new(|s| m.next_state(s, Act::Propose(1)))),
        ("rt2", Box::new(|s| round_trip(m, s, 1, 2))),
        ("rt3", Box::new(|s| round_trip(m, s, 1, 2))),
        ("elect2", Box::new(|s| elect(m, s, 2, 1))),
        ("clear", Box::new(|s| { let mut s = s.clone(); s.net.clear(); Some(s) })),
        ("rt4", Box::new(|s| round_trip(m, s, 2, 1))),
        ("propose2", Box::new(|s| m.next_state(s, Act::Propose(2)))),
        ("clear", Box::new(|s| { let mut s = s.clone(); s.net.clear(); Some(s) })),
        ("heartbeat2", Box::new(|s| m.next_state(s, Act::Heartbeat(2)))),
    ];
    let mut cur = Some(init.clone());
    for (name, f) in &steps {
        cur = cur.and_then(|s| f(&s));
        if cur.is_none() {
            if std::env::var("VERIF_DEBUG").is_ok() {
                eprintln!("repair seed: step {name} failed");
            }
            return None;
        }
    }
    let mut s = cur?;
    if std::env::var("VERIF_DEBUG").is_ok() {
        eprintln!("repair seed: n0 {:?}\n n2 {:?}\n net {:?}", s.nodes[0], s.nodes[2], s.net);
    }
    // the state the search is meant to start from: n0 holds a stale index-2 entry of term 1, n2 leads term 3
    let ok = s.nodes[2].role == 2 && s.nodes[0].log.len() == 2 && s.nodes[0].log[1].0 == 1 && s.nodes[2].log.len() == 3 && s.nodes[2].log[1].0 == 2;
    s.depth = 0;
    (ok && s.violation.is_none()).then_some(s)
}
fn seeds(m: &RaftModel, init: &Sys) -> Vec<Sys> {
    let _ = run_script;
    let mut out = vec![];
    // 1. leader elected
    let Some(s1) = elect(m, init, 0, 1) else { return out };
    out.push(s1.clone());
    // 2. leader write-safe with one unreplicated entry
    let Some(s2) = round_trip(m, &s1, 0, 1).and_then(|s| m.next_state(&s, Act::Propose(0))) else { return out };
    out.push(s2.clone());
    // 3. one committed entry (replicated to n1)
    let Some(s3) = round_trip(m, &s2, 0, 1) else { return out };
    out.push(s3.clone());
    // 4. old leader n0 isolated with an unreplicated entry while n1 becomes leader of the next term
    if m.cfg.max_term >= 2 {
        if let Some(s4) = elect(m, &s2, 1, 2) {
            out.push(s4.clone());
            // 5. ... and the new leader has its own entry
            if let Some(s5) = round_trip(m, &s4, 1, 2).and_then(|s| m.next_state(&s, Act::Propose(1))) {
                out.push(s5);
            }
        }
    }
    let mut out: Vec<Sys> = out.into_iter().filter(|s| s.violation.is_none()).map(|mut s| { s.net.clear(); s }).collect();
    // 6. committed prefix, old leader n0 holds a stale unreplicated suffix, n1 leads the next term
    if m.cfg.max_term >= 2 && m.cfg.max_log >= 2 {
        if let Some(s6) = m.next_state(&s3, Act::Propose(0)).and_then(|s| elect(m, &s, 1, 2)) {
            let mut s6c = s6.clone();
            s6c.net.clear();
            out.push(s6c);
            // 7. ... and its first heartbeat has reached the old leader (answer still in flight)
            if let Some(s7) = m.next_state(&s6, Act::Heartbeat(1)).and_then(|s| {
                let mut acts = vec![];
                m.actions(&s, &mut acts);
                deliver_where(&acts, |e| e.from == 1 && e.to == 0 && matches!(e.msg, Msg::AE { .. })).and_then(|a| m.next_state(&s, a))
            }) {
                let mut s7 = s7;
                s7.net.retain(|e| e.from == 0 && e.to == 1);
                out.push(s7);
            }
        }
    }
    // 8. two leadership changes: n2 leads term 3 with a log spanning two terms (term-2 entry committed),
    //    while the first leader n0 still holds its stale term-1 suffix
    if m.cfg.max_term >= 3 && m.cfg.max_log >= 2 {
        let steps: Vec<(&str, Box<dyn Fn(&Sys) -> Option<Sys>>)> = vec![
            ("propose0", Box::new(|s| m.next_state(s, Act::Propose(0)))),
            ("elect1", Box::new(|s| elect(m, s, 1, 2))),
            ("rt1", Box::new(|s| round_trip(m, s, 1, 2))),
            ("rt1b", Box::new(|s| round_trip(m, s, 1, 2))),
            ("propose1", Box::new(|s| m.next_state(s, Act::Propose(1)))),
            ("rt2", Box::new(|s| round_trip(m, s, 1, 2))),
            ("rt3", Box::new(|s| round_trip(m, s, 1, 2))),
            ("elect2", Box::new(|s| elect(m, s, 2, 1))),
        ];
        let mut cur = Some(s3.clone());
        for (name, f) in &steps {
            cur = cur.and_then(|s| f(&s));
            if cur.is_none() {
                if std::env::var("VERIF_DEBUG").is_ok() {
                    eprintln!("seed 8: step {name} failed");
                }
                break;
            }
        }
        let s8 = cur;
        if let Some(mut s8) = s8 {
            s8.net.clear();
            out.push(s8);
        }
    }
    out.into_iter().filter(|s| s.violation.is_none()).map(|mut s| { s.depth = 0; s }).collect()
}

struct RunOut {
    unique: usize,
    total: usize,
    depth: usize,
    discoveries: BTreeMap<String, Vec<String>>,
    done: bool,
}

fn run(cfg: &Cfg, depth: usize) -> RunOut {
    // hard safety cap on generated states (memory); a run that hits it is reported as capped
    let cap = 400_000_000usize;
    let checker = RaftModel { cfg: cfg.clone() }.checker().threads(16).target_max_depth(depth).target_state_count(cap).spawn_bfs().join();
    let mut discoveries = BTreeMap::new();
    for (name, path) in checker.discoveries() {
        let acts: Vec<String> = path.into_actions().into_iter().map(|a| format!("{a:?}")).collect();
        discoveries.insert(name.to_string(), acts);
    }
    RunOut { unique: checker.unique_state_count(), total: checker.state_count(), depth: checker.max_depth(), discoveries, done: checker.state_count() < cap }
}

fn main() {
    env::require();
    env::clock_freeze(1_750_000_000);
    env::clock_advance_ms(360_000_000);
    let mut rep = Report::new("C01", "model_checking");
    let thorough = rep.thorough();
    rep.rule("explicit-state BFS (stateright, 16 threads) over {deliver any in-flight message, duplicate (budget), election timer, time passing at a voter, heartbeat, propose, crash/restart from the durable triple (budget)}; every transition rebuilds one real RaftNode from its snapshot and runs the real handler / production sender; loss and reordering are inherent in the message-set semantics; budgets (max term, max log length, duplicates, crashes) are part of the state; seeds are scripted reachable states");
    rep.assume("handlers are atomic (cluster.rs runs one receive loop); in the 'on real WAL' configurations every node runs on a real RaftWal: after each transition the harness reads back what RaftRecoveryState recovers from the records the production code appended, and a crash restarts the node from that (term, vote) and its log; in the other configurations a crash keeps exactly the in-memory (term, vote, log) (byte-level WAL fidelity is C10's job)");
    rep.assume("trusted driver glue: after a successful pre-vote the synchronous start_election() discards the RequestVote it builds; the harness broadcasts that message as start_election_async would");
    let mut cfgs: Vec<(String, Cfg, usize)> = vec![];
    let base = Cfg { n: 3, pre_vote: false, fast_path: false, tiebreak: false, max_term: 2, max_log: 2, dups: 1, crashes: 1, seeds: true, wal: false, rivals: false, repair: false };
    if thorough {
        for (pv, fp, tb) in [(false, false, false), (true, false, false), (false, true, false), (false, false, true), (true, true, true)] {
            cfgs.push((format!("n3 prevote={pv} fastpath={fp} tiebreak={tb} term<=3 log<=3 dup<=2 crash<=2"), Cfg { pre_vote: pv, fast_path: fp, tiebreak: tb, max_term: 3, max_log: 3, dups: 2, crashes: 2, ..base.clone() }, if (pv, fp, tb) == (false, false, false) { 10 } else { 9 }));
        }
        cfgs.push(("n5 prevote=false term<=2 log<=1 dup<=0 crash<=1".into(), Cfg { n: 5, max_term: 2, max_log: 1, dups: 0, crashes: 1, ..base.clone() }, 9));
        cfgs.push(("n5 rival candidates of term 3 (one a deposed leader) prevote=true term<=3 log<=0".into(), Cfg { n: 5, pre_vote: true, max_term: 3, max_log: 0, dups: 0, crashes: 0, rivals: true, ..base.clone() }, 10));
        cfgs.push(("n5 rival candidates of term 3 (one a deposed leader) prevote=false term<=3 log<=0".into(), Cfg { n: 5, pre_vote: false, max_term: 3, max_log: 0, dups: 0, crashes: 0, rivals: true, ..base.clone() }, 10));
        cfgs.push(("n3 stale follower repaired by a later leader, fastpath=true term<=3 log<=3 dup<=3".into(), Cfg { fast_path: true, max_term: 3, max_log: 3, dups: 3, crashes: 1, repair: true, ..base.clone() }, 11));
        cfgs.push(("n3 on real WAL prevote=false term<=2 log<=2 dup<=1 crash<=2".into(), Cfg { crashes: 2, wal: true, ..base.clone() }, 10));
    } else {
        cfgs.push(("n3 prevote=false term<=3 log<=3 dup<=1 crash<=1".into(), Cfg { max_term: 3, max_log: 3, ..base.clone() }, 9));
        cfgs.push(("n3 on real WAL prevote=false term<=2 log<=1 dup<=0 crash<=1".into(), Cfg { max_log: 1, dups: 0, wal: true, ..base.clone() }, 9));
        cfgs.push(("n5 rival candidates of term 3 (one a deposed leader) prevote=true term<=3 log<=0".into(), Cfg { n: 5, pre_vote: true, max_term: 3, max_log: 0, dups: 0, crashes: 0, rivals: true, ..base.clone() }, 8));
        cfgs.push(("n5 rival candidates of term 3 (one a deposed leader) prevote=false term<=3 log<=0".into(), Cfg { n: 5, pre_vote: false, max_term: 3, max_log: 0, dups: 0, crashes: 0, rivals: true, ..base.clone() }, 8));
        cfgs.push(("n3 stale follower repaired by a later leader, fastpath=true term<=3 log<=3 dup<=2".into(), Cfg { fast_path: true, max_term: 3, max_log: 3, dups: 2, crashes: 0, repair: true, ..base.clone() }, 9));
        cfgs.push(("n3 prevote=true term<=2 log<=2 dup<=1 crash<=0".into(), Cfg { pre_vote: true, crashes: 0, ..base.clone() }, 10));
    }
    let only = rep.args.flag("cfg");
    for (label, cfg, cap) in cfgs {
        if only.as_ref().is_some_and(|o| !label.contains(o.as_str())) {
            continue;
        }
        let cap = rep.args.flag("depth").and_then(|d| d.parse().ok()).unwrap_or(cap);
        let r = run(&cfg, cap);
        rep.add("states", r.unique as u64);
        rep.add("transitions", r.total as u64);
        rep.add("traces_validated_against_impl", r.total as u64);
        rep.add("evaluations", r.total as u64);
        rep.add("distinct_nontrivial", r.unique as u64);
        let witnesses: Vec<&String> = r.discoveries.keys().filter(|k| *k != "safe").collect();
        rep.part(&label, json!({"unique_states": r.unique, "transitions": r.total, "depth_bound": cap, "max_depth_reached": r.depth, "complete_to_depth_bound": r.done, "seeds": RaftModel { cfg: cfg.clone() }.init_states().len(), "witnesses_found": witnesses}));
        if !r.done {
            rep.capped(&format!("{label}: generated-state cap reached at depth {} before depth bound {cap} was complete", r.depth));
        }
        if let Some(path) = r.discoveries.get("safe") {
            // re-execute the path to get the violation text
            let m = RaftModel { cfg: cfg.clone() };
            let msg = format!("{} steps; see replay", path.len());
            let _ = &m;
            let kind = path.last().cloned().unwrap_or_default();
            rep.violation(format!("c01:{}", violation_kind(&cfg, path)), format!("{label}: safety violated after {msg}; last action {kind}"), json!({"cfg": label, "actions": path}));
        }
        let required: &[&str] = if cfg.rivals { &["a rival candidate wins the contested term"] } else if cfg.repair { &["the stale follower is repaired on the fast path"] } else { &["a leader is elected", "an entry is committed"] };
        for w in required.iter().copied() {
            if !r.discoveries.contains_key(w) && !r.discoveries.contains_key("safe") {
                rep.machinery(format!("{label}: no witness for '{w}' (vacuous search)"));
            }
        }
        if rep.coverage.get("samples").is_none() {
            if let Some(p) = r.discoveries.get("an entry is committed") {
                rep.sample(json!({"cfg": label, "witness_path_entry_committed": p}));
            } else if let Some(p) = r.discoveries.get("a rival candidate wins the contested term").or_else(|| r.discoveries.get("the stale follower is repaired on the fast path")) {
                rep.sample(json!({"cfg": label, "witness_path_rival_wins": p}));
            }
        }
    }
    rep.set("explanation", json!("no separate model: every transition is the real RaftNode code; conformance holds by construction"));
    rep.finish();
}

/// re-run the counterexample to classify it by the invariant that broke
fn violation_kind(cfg: &Cfg, path: &[String]) -> String {
    let m = RaftModel { cfg: cfg.clone() };
    // BFS over init states: find the one from which the recorded action strings replay
    for init in m.init_states() {
        let mut s = init;
        let mut ok = true;
        for want in path {
            let mut acts = vec![];
            m.actions(&s, &mut acts);
            match acts.into_iter().find(|a| format!("{a:?}") == *want) {
                Some(a) => match m.next_state(&s, a) {
                    Some(n) => s = n,
                    None => {
                        ok = false;
                        break;
                    }
                },
                None => {
                    ok = false;
                    break;
                }
            }
        }
        if ok {
            if let Some(v) = &s.violation {
                eprintln!("  counterexample ends in: {v}");
                return v.split(':').next().unwrap_or("unknown").to_string();
            }
        }
    }
    "unclassified".into()
}
