//! C03 — two-phase commit: every participant reaches the coordinator's one decision (DESIGN §2).
//! Replay-variant explicit-state BFS: a state is the event history that reaches it; every
//! expansion replays the history on a fresh real DistributedTxCoordinator + real TxParticipants
//! (reached through the real TxHandler message seam) and executes one more event.
use async_trait::async_trait;
use nvc::{env, Report};
use rayon::prelude::*;
use serde::{Deserialize, Serialize};
use serde_json::json;
use std::collections::{BTreeMap, BTreeSet, HashSet};
use std::sync::Arc;
use tensor_chain::block::Transaction;
use tensor_chain::consensus::{ConsensusConfig, ConsensusManager};
use tensor_chain::distributed_tx::{DistributedTxConfig, DistributedTxCoordinator, TxParticipant, TxPhase};
use tensor_chain::error::Result as ChainResult;
use tensor_chain::network::{Message, MessageHandler, PeerConfig, Transport, TxAbortMsg, TxCommitMsg, TxHandler, TxPrepareMsg, TxVote};
use tensor_store::{ScalarValue, SparseVector, TensorStore, TensorValue};

// ---------------------------------------------------------------- recording transport
struct RecTransport {
    id: String,
    out: parking_lot::Mutex<Vec<(String, Message)>>,
}
#[async_trait]
impl Transport for RecTransport {
    async fn send(&self, to: &String, msg: Message) -> ChainResult<()> {
        self.out.lock().push((to.clone(), msg));
        Ok(())
    }
    async fn broadcast(&self, _msg: Message) -> ChainResult<()> {
        Ok(())
    }
    async fn recv(&self) -> ChainResult<(String, Message)> {
        std::future::pending().await
    }
    async fn connect(&self, _peer: &PeerConfig) -> ChainResult<()> {
        Ok(())
    }
    async fn disconnect(&self, _peer_id: &String) -> ChainResult<()> {
        Ok(())
    }
    fn peers(&self) -> Vec<String> {
        vec![]
    }
    fn local_id(&self) -> &String {
        &self.id
    }
}
fn block_on<F: std::future::Future>(f: F) -> F::Output {
    use std::task::{Context, Poll, RawWaker, RawWakerVTable, Waker};
    fn noop(_: *const ()) {}
    fn clone(_: *const ()) -> RawWaker {
        RawWaker::new(std::ptr::null(), &VTABLE)
    }
    static VTABLE: RawWakerVTable = RawWakerVTable::new(clone, noop, noop, noop);
    let waker = unsafe { Waker::from_raw(RawWaker::new(std::ptr::null(), &VTABLE)) };
    let mut cx = Context::from_waker(&waker);
    let mut f = std::pin::pin!(f);
    match f.as_mut().poll(&mut cx) {
        Poll::Ready(v) => v,
        Poll::Pending => panic!("harness future was not ready immediately"),
    }
}

// ---------------------------------------------------------------- model of the experiment
#[derive(Clone, Debug, PartialEq, Eq, Hash, PartialOrd, Ord, Serialize, Deserialize)]
enum Msg {
    Prepare { t: u8, s: u8 },
    /// vote of shard s on transaction t: 0 yes, 1 no, 2 conflict
    Vote { t: u8, s: u8, kind: u8 },
    Commit { t: u8, s: u8 },
    Abort { t: u8, s: u8 },
}
#[derive(Clone, Debug, PartialEq, Eq, Hash, Serialize, Deserialize)]
enum Ev {
    Begin(u8),
    Deliver(Msg),
    Duplicate(Msg),
    /// coordinator timeout sweep: clock past prepare_timeout, cleanup_timeouts, abort broadcasts
    Timeout,
    /// client-initiated abort at the coordinator
    ClientAbort(u8),
    /// the driver acts on a fully voted (Prepared) transaction: commit() and, only on Ok, TxCommit
    /// to every shard. A separate step, so that timeouts and aborts can fall between the last
    /// vote and the commit decision.
    CoordCommit(u8),
    /// a yes vote for transaction t arrives from a shard that is not one of its participants (misrouted)
    StrayYes(u8),
}
#[derive(Clone, Copy, Debug, PartialEq, Eq, Hash, PartialOrd, Ord)]
enum Decision {
    Commit,
    Abort,
}

#[derive(Clone)]
struct Cfg {
    ntx: u8,
    shards: u8,
    dups: u8,
    timeouts: u8,
    client_aborts: u8,
    depth: usize,
    /// budget of misrouted votes from a non-participant shard
    strays: u8,
}

/// which key transaction t writes on shard s (t0 and t1 collide on shard 0)
fn key_of(t: u8, s: u8) -> String {
    if s == 0 && t < 2 {
        "k_shared".to_string()
    } else {
        format!("k_t{t}_s{s}")
    }
}
/// operations of transaction t on shard s: a put; the last transaction additionally deletes a key
/// that does not exist on shard 0 (deletes are idempotent: committing it must not fail)
fn ops_of(cfg: &Cfg, t: u8, s: u8) -> Vec<Transaction> {
    let mut v = vec![Transaction::Put { key: key_of(t, s), data: value_of(t) }];
    if t + 1 == cfg.ntx && s == 0 {
        v.push(Transaction::Delete { key: format!("missing_t{t}") });
    }
    v
}
fn value_of(t: u8) -> Vec<u8> {
    vec![100 + t]
}

thread_local! { static STORE_POOL: std::cell::RefCell<Vec<TensorStore>> = const { std::cell::RefCell::new(Vec::new()) }; }
/// TensorStore::new() costs ~1 ms: stores are recycled per thread and emptied through the real API
fn take_store() -> TensorStore {
    STORE_POOL.with(|p| p.borrow_mut().pop()).unwrap_or_else(TensorStore::new)
}
impl Drop for World {
    fn drop(&mut self) {
        let outsider = self.outsider.as_ref().map(|(p, _)| p.clone());
        for p in self.parts.iter().chain(outsider.iter()) {
            let st = p.store().clone();
            for k in st.scan("") {
                let _ = st.delete(&k);
            }
            if st.scan("").is_empty() {
                STORE_POOL.with(|pool| pool.borrow_mut().push(st));
            }
        }
    }
}

struct World {
    coord: DistributedTxCoordinator,
    transport: Arc<RecTransport>,
    parts: Vec<Arc<TxParticipant>>,
    handlers: Vec<TxHandler>,
    ids: Vec<Option<u64>>,
    /// in-flight messages: canonical form -> the real message
    net: BTreeMap<Msg, Message>,
    decisions: Vec<BTreeSet<Decision>>,
    /// votes the coordinator accepted: (t, s) -> yes?
    votes_accepted: BTreeMap<(u8, u8), bool>,
    /// shard s voted yes on t and later discarded it (abort while prepared)
    discarded_yes: BTreeSet<(u8, u8)>,
    /// shard s applied t's writes
    applied: BTreeSet<(u8, u8)>,
    /// an abort message for (t, s) was emitted (by the production sender or the trusted driver)
    abort_sent: BTreeSet<(u8, u8)>,
    dups_left: u8,
    timeouts_left: u8,
    client_aborts_left: u8,
    strays_left: u8,
    /// a shard outside every transaction's participant set (source of misrouted votes)
    outsider: Option<(Arc<TxParticipant>, TxHandler)>,
    violation: Option<(String, String)>,
}

impl World {
    fn new(cfg: &Cfg) -> World {
        let mut dcfg = DistributedTxConfig::default();
        dcfg.prepare_timeout_ms = 5_000;
        let coord = DistributedTxCoordinator::new(ConsensusManager::new(ConsensusConfig::default()), dcfg);
        let parts: Vec<Arc<TxParticipant>> = (0..cfg.shards).map(|_| Arc::new(TxParticipant::new(take_store()))).collect();
        let handlers = parts.iter().map(|p| TxHandler::new(p.clone())).collect();
        World {
            coord,
            transport: Arc::new(RecTransport { id: "coord".into(), out: parking_lot::Mutex::new(vec![]) }),
            parts,
            handlers,
            ids: vec![None; cfg.ntx as usize],
            net: BTreeMap::new(),
            decisions: vec![BTreeSet::new(); cfg.ntx as usize],
            votes_accepted: BTreeMap::new(),
            discarded_yes: BTreeSet::new(),
            applied: BTreeSet::new(),
            abort_sent: BTreeSet::new(),
            dups_left: cfg.dups,
            timeouts_left: cfg.timeouts,
            client_aborts_left: cfg.client_aborts,
            strays_left: cfg.strays,
            outsider: (cfg.strays > 0).then(|| {
                let p = Arc::new(TxParticipant::new(take_store()));
                (p.clone(), TxHandler::new(p))
            }),
            violation: None,
        }
    }
    fn slot_of(&self, id: u64) -> Option<u8> {
        self.ids.iter().position(|x| *x == Some(id)).map(|i| i as u8)
    }
    fn fail(&mut self, sig: &str, msg: String) {
        if self.violation.is_none() {
            self.violation = Some((sig.to_string(), msg));
        }
    }
    fn decide(&mut self, t: u8, d: Decision) {
        self.decisions[t as usize].insert(d);
        if self.decisions[t as usize].len() > 1 {
            self.fail("decision-changed", format!("transaction t{t} was decided both ways: {:?}", self.decisions[t as usize]));
        }
        if d == Decision::Commit {
            for s in 0..self.parts.len() as u8 {
                if self.votes_accepted.get(&(t, s)) != Some(&true) {
                    self.fail("commit-without-all-yes", format!("t{t} committed although shard {s} did not vote yes (votes {:?})", self.votes_accepted));
                }
            }
        }
    }
    /// abort broadcasts the coordinator queued (timeout, no-vote), sent by the production sender
    fn flush_aborts(&mut self) {
        block_on(self.coord.process_pending_aborts(&*self.transport));
        let out: Vec<(String, Message)> = self.transport.out.lock().drain(..).collect();
        for (to, m) in out {
            if let Message::TxAbort(a) = &m {
                if let (Some(t), Some(s)) = (self.slot_of(a.tx_id), to.strip_prefix("shard-").and_then(|x| x.parse::<u8>().ok())) {
                    if (s as usize) < self.parts.len() {
                        self.net.insert(Msg::Abort { t, s }, m.clone());
                        self.abort_sent.insert((t, s));
                    }
                }
            }
        }
    }
    fn observe_participants(&mut self) {
        for (s, p) in self.parts.iter().enumerate() {
            for t in 0..self.ids.len() as u8 {
                let key = key_of(t, s as u8);
                if let Ok(d) = p.store().get(&key) {
                    if d.get("data") == Some(&TensorValue::Scalar(ScalarValue::Bytes(value_of(t)))) {
                        self.applied.insert((t, s as u8));
                    }
                }
            }
        }
        let applied: Vec<(u8, u8)> = self.applied.iter().copied().collect();
        for (t, s) in applied {
            if !self.decisions[t as usize].contains(&Decision::Commit) {
                self.fail("applied-without-commit-decision", format!("shard {s} applied the writes of t{t} but the coordinator's decisions for it are {:?}", self.decisions[t as usize]));
            }
            if let Some((_, s2)) = self.discarded_yes.iter().find(|(t2, _)| *t2 == t) {
                self.fail("split-applied-and-discarded", format!("shard {s} applied t{t} while shard {s2}, which voted yes, rolled it back"));
            }
        }
    }

    fn apply(&mut self, cfg: &Cfg, ev: &Ev) -> bool {
        match ev {
            Ev::Begin(t) => {
                if self.ids[*t as usize].is_some() || (*t > 0 && self.ids[*t as usize - 1].is_none()) {
                    return false;
                }
                let shards: Vec<usize> = (0..cfg.shards as usize).collect();
                let Ok(tx) = self.coord.begin(&"coord".to_string(), &shards) else { return false };
                self.ids[*t as usize] = Some(tx.tx_id);
                for s in 0..cfg.shards {
                    let m = Message::TxPrepare(TxPrepareMsg { tx_id: tx.tx_id, coordinator: "coord".into(), shard_id: s as usize, operations: ops_of(cfg, *t, s), delta_embedding: SparseVector::new(0), timeout_ms: 5_000 });
                    self.net.insert(Msg::Prepare { t: *t, s }, m);
                }
            }
            Ev::Deliver(m) | Ev::Duplicate(m) => {
                let dup = matches!(ev, Ev::Duplicate(_));
                let Some(real) = self.net.get(m).cloned() else { return false };
                if dup {
                    if self.dups_left == 0 {
                        return false;
                    }
                    self.dups_left -= 1;
                } else {
                    self.net.remove(m);
                }
                match m {
                    Msg::Prepare { t, s } | Msg::Commit { t, s } | Msg::Abort { t, s } => {
                        let id = self.ids[*t as usize].unwrap();
                        let was_prepared = self.parts[*s as usize].prepared.read().contains_key(&id);
                        let resp = self.handlers[*s as usize].handle(&"coord".to_string(), &real);
                        if matches!(m, Msg::Abort { .. }) && was_prepared && !self.parts[*s as usize].prepared.read().contains_key(&id) {
                            self.discarded_yes.insert((*t, *s));
                        }
                        if matches!(m, Msg::Commit { .. }) && was_prepared {
                            // the shard had promised (voted yes) and is told to commit: its writes must be there now
                            let shows = self.parts[*s as usize].store().get(&key_of(*t, *s)).ok().and_then(|d| d.get("data").cloned()) == Some(TensorValue::Scalar(ScalarValue::Bytes(value_of(*t))));
                            if !shows {
                                self.discarded_yes.insert((*t, *s));
                                let ack = match &resp { Some(Message::TxAck(a)) => format!("ack success={} error={:?}", a.success, a.error), _ => "no ack".into() };
                                self.fail("commit-not-applied-by-prepared-shard", format!("shard {s} had prepared t{t} and was told to commit, but its store does not show the write ({ack})"));
                            }
                        }
                        if let Some(Message::TxPrepareResponse(r)) = &resp {
                            let kind = match r.vote {
                                TxVote::Yes { .. } => 0,
                                TxVote::No { .. } => 1,
                                _ => 2,
                            };
                            self.net.insert(Msg::Vote { t: *t, s: *s, kind }, resp.clone().unwrap());
                        }
                        // TxAck is bookkeeping for abort retries only: treated as lost
                    }
                    Msg::Vote { t, s, kind } => {
                        let Message::TxPrepareResponse(r) = &real else { return false };
                        let res = self.coord.record_vote(r.tx_id, r.shard_id, r.vote.clone().into());
                        if res.is_ok() {
                            self.votes_accepted.insert((*t, *s), *kind == 0);
                        }
                        match res {
                            Ok(Some(TxPhase::Prepared)) => {
                                // the commit decision is taken by a later CoordCommit event
                            }
                            Ok(Some(TxPhase::Aborting)) => {
                                self.decide(*t, Decision::Abort);
                                let _ = self.coord.abort(r.tx_id, "vote no");
                                self.flush_aborts();
                            }
                            _ => {}
                        }
                    }
                }
            }
            Ev::Timeout => {
                if self.timeouts_left == 0 {
                    return false;
                }
                self.timeouts_left -= 1;
                env::clock_thread_advance_ms(6_000);
                let timed = self.coord.cleanup_timeouts();
                for id in timed {
                    if let Some(t) = self.slot_of(id) {
                        self.decide(t, Decision::Abort);
                    }
                }
                self.flush_aborts();
            }
            Ev::CoordCommit(t) => {
                let Some(id) = self.ids[*t as usize] else { return false };
                if !self.coord.get(id).is_some_and(|x| x.phase == TxPhase::Prepared) {
                    return false;
                }
                // minimal driver (trusted): decide commit, and only on Ok tell the participants
                if self.coord.commit(id).is_ok() {
                    self.decide(*t, Decision::Commit);
                    for s2 in 0..cfg.shards {
                        self.net.insert(Msg::Commit { t: *t, s: s2 }, Message::TxCommit(TxCommitMsg { tx_id: id, shards: vec![s2 as usize] }));
                    }
                }
            }
            Ev::StrayYes(t) => {
                let Some(id) = self.ids[*t as usize] else { return false };
                if self.strays_left == 0 {
                    return false;
                }
                self.strays_left -= 1;
                // a real yes vote, produced by a real participant that is not part of this transaction
                let outside = cfg.shards as usize;
                let m = Message::TxPrepare(TxPrepareMsg { tx_id: id, coordinator: "coord".into(), shard_id: outside, operations: vec![Transaction::Put { key: format!("outside_t{t}"), data: vec![9] }], delta_embedding: SparseVector::new(0), timeout_ms: 5_000 });
                let Some((_, handler)) = &self.outsider else { return false };
                if let Some(Message::TxPrepareResponse(r)) = handler.handle(&"coord".to_string(), &m) {
                    let _ = self.coord.record_vote(r.tx_id, r.shard_id, r.vote.clone().into());
                }
            }
            Ev::ClientAbort(t) => {
                let Some(id) = self.ids[*t as usize] else { return false };
                if self.client_aborts_left == 0 {
                    return false;
                }
                self.client_aborts_left -= 1;
                if self.coord.abort(id, "client").is_ok() {
                    self.decide(*t, Decision::Abort);
                    for s in 0..cfg.shards {
                        self.net.insert(Msg::Abort { t: *t, s }, Message::TxAbort(TxAbortMsg { tx_id: id, reason: "client".into(), shards: vec![s as usize] }));
                        self.abort_sent.insert((*t, s));
                    }
                }
            }
        }
        self.observe_participants();
        // decisions never change afterwards: a decided transaction refuses the opposite call
        for t in 0..self.ids.len() as u8 {
            if let Some(id) = self.ids[t as usize] {
                if self.decisions[t as usize].contains(&Decision::Abort) && self.coord.get(id).is_some_and(|x| matches!(x.phase, TxPhase::Prepared | TxPhase::Committing | TxPhase::Committed)) {
                    self.fail("aborted-tx-still-committable", format!("t{t} was aborted but the coordinator holds it in phase {:?}", self.coord.get(id).map(|x| x.phase)));
                }
            }
        }
        // every participant is told an abort decision: a decision the coordinator takes on its own
        // (timeout sweep, refused vote) is followed by an abort message to every shard of the transaction
        for t in 0..self.ids.len() as u8 {
            if self.decisions[t as usize].contains(&Decision::Abort) {
                for s in 0..cfg.shards {
                    if !self.abort_sent.contains(&(t, s)) {
                        self.fail("abort-not-sent-to-participant", format!("t{t} was aborted by the coordinator but no abort message was emitted for shard {s} (it may be prepared and holding locks)"));
                    }
                }
            }
        }
        if self.net.is_empty() {
            self.check_quiescent();
        }
        true
    }

    /// no message in flight: every shard's data is exactly what the committed transactions wrote
    fn check_quiescent(&mut self) {
        for s in 0..self.parts.len() as u8 {
            let keys = self.parts[s as usize].store().scan("");
            for k in keys {
                let Ok(d) = self.parts[s as usize].store().get(&k) else { continue };
                let writer = (0..self.ids.len() as u8).find(|t| key_of(*t, s) == k && d.get("data") == Some(&TensorValue::Scalar(ScalarValue::Bytes(value_of(*t)))));
                match writer {
                    Some(t) if self.decisions[t as usize].contains(&Decision::Commit) => {}
                    Some(t) => self.fail("aborted-tx-left-data", format!("shard {s} key {k} holds the write of t{t}, which was not committed")),
                    None => self.fail("unknown-data", format!("shard {s} key {k} holds data no transaction wrote")),
                }
            }
        }
    }

    fn enabled(&self, cfg: &Cfg) -> Vec<Ev> {
        let mut v = vec![];
        if self.violation.is_some() {
            return v;
        }
        for t in 0..cfg.ntx {
            if self.ids[t as usize].is_none() && (t == 0 || self.ids[t as usize - 1].is_some()) {
                v.push(Ev::Begin(t));
            }
        }
        for t in 0..cfg.ntx {
            if self.ids[t as usize].and_then(|id| self.coord.get(id)).is_some_and(|x| x.phase == TxPhase::Prepared) {
                v.push(Ev::CoordCommit(t));
            }
        }
        for m in self.net.keys() {
            v.push(Ev::Deliver(m.clone()));
        }
        if self.timeouts_left > 0 && self.ids.iter().any(Option::is_some) {
            v.push(Ev::Timeout);
        }
        if self.client_aborts_left > 0 {
            for t in 0..cfg.ntx {
                if self.ids[t as usize].is_some() && self.decisions[t as usize].is_empty() {
                    v.push(Ev::ClientAbort(t));
                }
            }
        }
        if self.dups_left > 0 {
            for m in self.net.keys() {
                v.push(Ev::Duplicate(m.clone()));
            }
        }
        if self.strays_left > 0 {
            for t in 0..cfg.ntx {
                if self.ids[t as usize].is_some() && self.decisions[t as usize].is_empty() {
                    v.push(Ev::StrayYes(t));
                }
            }
        }
        v
    }

    /// canonical rendering of everything that can influence the future
    fn key(&self) -> String {
        let mut s = String::new();
        for (t, id) in self.ids.iter().enumerate() {
            match id.and_then(|i| self.coord.get(i)) {
                Some(tx) => {
                    let mut votes: Vec<(usize, u8)> = tx.votes.iter().map(|(sh, v)| (*sh, match v { tensor_chain::distributed_tx::PrepareVote::Yes { .. } => 0, tensor_chain::distributed_tx::PrepareVote::No { .. } => 1, _ => 2 })).collect();
                    votes.sort_unstable();
                    s.push_str(&format!("t{t}:{:?}{votes:?};", tx.phase));
                }
                None => s.push_str(&format!("t{t}:{};", if id.is_some() { "gone" } else { "unborn" })),
            }
        }
        for (i, p) in self.parts.iter().enumerate() {
            let mut prepared: Vec<u8> = p.prepared.read().keys().filter_map(|id| self.slot_of(*id)).collect();
            prepared.sort_unstable();
            let mut locked: Vec<String> = (0..self.ids.len() as u8).map(|t| key_of(t, i as u8)).filter(|k| p.locks.is_locked(k)).collect();
            locked.sort();
            locked.dedup();
            let mut data: Vec<(String, String)> = p.store().scan("").into_iter().map(|k| (k.clone(), format!("{:?}", p.store().get(&k).ok().and_then(|d| d.get("data").cloned())))).collect();
            data.sort();
            s.push_str(&format!("p{i}:{prepared:?}{locked:?}{data:?};"));
        }
        s.push_str(&format!("net{:?};d{:?};va{:?};dy{:?};b{},{},{},{}", self.net.keys().collect::<Vec<_>>(), self.decisions, self.votes_accepted, self.discarded_yes, self.dups_left, self.timeouts_left, self.client_aborts_left, self.strays_left));
        s
    }
}

fn replay(cfg: &Cfg, hist: &[Ev]) -> World {
    env::clock_thread_reset();
    let mut w = World::new(cfg);
    for e in hist {
        w.apply(cfg, e);
    }
    w
}

struct Out {
    states: u64,
    transitions: u64,
    max_depth: usize,
    quiescent_states: u64,
    committed_states: u64,
    aborted_states: u64,
    violations: Vec<(String, String, serde_json::Value)>,
    violation_count: u64,
    sample: Option<serde_json::Value>,
}

fn bfs(cfg: &Cfg, label: &str) -> Out {
    let mut out = Out { states: 1, transitions: 0, max_depth: 0, quiescent_states: 0, committed_states: 0, aborted_states: 0, violations: vec![], violation_count: 0, sample: None };
    let mut seen: HashSet<String> = HashSet::new();
    seen.insert(replay(cfg, &[]).key());
    let mut frontier: Vec<(Vec<Ev>, Vec<Ev>)> = vec![(vec![], replay(cfg, &[]).enabled(cfg))];
    for depth in 1..=cfg.depth {
        // replays run in parallel: each rayon thread has its own virtual clock (envshim per-thread offset)
        let expand = |(hist, enabled): &(Vec<Ev>, Vec<Ev>)| -> Vec<(Vec<Ev>, Vec<Ev>, String, Option<(String, String)>, bool, bool, bool)> {
            let mut res = vec![];
            for e in enabled {
                let mut w2 = replay(cfg, hist);
                if !w2.apply(cfg, e) {
                    continue;
                }
                let mut h2 = hist.clone();
                h2.push(e.clone());
                let committed = w2.decisions.iter().any(|d| d.contains(&Decision::Commit));
                let aborted = w2.decisions.iter().any(|d| d.contains(&Decision::Abort));
                res.push((h2, w2.enabled(cfg), w2.key(), w2.violation.clone(), w2.net.is_empty(), committed, aborted));
            }
            res
        };
        let results: Vec<_> = frontier.par_iter().flat_map_iter(|h| expand(h)).collect();
        let mut next = vec![];
        for (hist, enabled, key, violation, quiescent, committed, aborted) in results {
            out.transitions += 1;
            if let Some((sig, msg)) = violation {
                out.violation_count += 1;
                if out.violations.iter().filter(|v| v.0.ends_with(&sig)).count() < 3 {
                    out.violations.push((format!("c03:{sig}"), format!("{label}: after {hist:?}: {msg}"), json!({"cfg": label, "events": hist})));
                }
                continue;
            }
            if seen.insert(key) {
                out.states += 1;
                out.max_depth = depth;
                out.quiescent_states += u64::from(quiescent);
                out.committed_states += u64::from(committed);
                out.aborted_states += u64::from(aborted);
                if out.sample.is_none() && committed && aborted {
                    out.sample = Some(json!({"cfg": label, "history_with_one_commit_and_one_abort": hist}));
                }
                next.push((hist, enabled));
            }
        }
        frontier = next;
        if frontier.is_empty() {
            break;
        }
    }
    out
}


// ------------------------------------------------------------------------------------------------
// Part T — the same handlers on real threads (vsched): the coordinator's decision calls and the
// participant's message handlers run concurrently; every lock acquisition is a scheduling point;
// all schedules up to the preemption bound. Oracle: one decision per transaction; a transaction
// whose commit was acknowledged keeps its writes; an aborted one leaves none.
// ------------------------------------------------------------------------------------------------
#[derive(Clone, Debug, Serialize, Deserialize)]
enum TOp {
    /// deliver prepare/commit/abort of transaction t to shard s through TxHandler::handle
    PPrepare(u8, u8),
    PCommit(u8, u8),
    PAbort(u8, u8),
    /// hand the coordinator the vote shard s produced for t (if it produced one)
    CoVote(u8, u8),
    /// minimal driver: commit() when the coordinator shows the transaction Prepared
    CoCommit(u8),
    CoAbort(u8),
    CoTimeout,
}
#[derive(Clone, Debug, Serialize, Deserialize)]
struct TProg {
    name: String,
    ntx: u8,
    shards: u8,
    pre: Vec<TOp>,
    /// virtual milliseconds that pass between the sequential prefix and the threads
    advance_ms: i64,
    threads: Vec<Vec<TOp>>,
}
struct TCtx {
    cfg: Cfg,
    coord: DistributedTxCoordinator,
    parts: Vec<Arc<TxParticipant>>,
    handlers: Vec<TxHandler>,
    ids: Vec<u64>,
    votes: std::sync::Mutex<BTreeMap<(u8, u8), Message>>,
    /// (stamp, text) log of what every call returned
    log: std::sync::Mutex<Vec<(u64, String)>>,
    decisions: std::sync::Mutex<Vec<BTreeSet<Decision>>>,
    /// shard s acknowledged commit of t with success / granted the prepare of t (stamp of the grant)
    commit_acked: std::sync::Mutex<BTreeSet<(u8, u8)>>,
    granted: std::sync::Mutex<BTreeMap<(u8, u8), u64>>,
    /// logical time: calls are serialised by the scheduler, so a counter orders them
    ticks: std::sync::atomic::AtomicU64,
}
impl TCtx {
    fn tick(&self) -> u64 {
        self.ticks.fetch_add(1, std::sync::atomic::Ordering::SeqCst)
    }
}
fn t_exec(c: &TCtx, op: &TOp) {
    let coordn = "coord".to_string();
    let note = |c: &TCtx, s: String| c.log.lock().unwrap().push((c.tick(), s));
    match op {
        TOp::PPrepare(t, s) => {
            let m = Message::TxPrepare(TxPrepareMsg { tx_id: c.ids[*t as usize], coordinator: "coord".into(), shard_id: *s as usize, operations: ops_of(&c.cfg, *t, *s), delta_embedding: SparseVector::new(0), timeout_ms: 5_000 });
            let resp = c.handlers[*s as usize].handle(&coordn, &m);
            if let Some(Message::TxPrepareResponse(r)) = &resp {
                let yes = matches!(r.vote, TxVote::Yes { .. });
                if yes {
                    c.granted.lock().unwrap().insert((*t, *s), c.tick());
                }
                note(c, format!("prepare t{t}@s{s} -> {}", if yes { "yes" } else { "refused" }));
                c.votes.lock().unwrap().insert((*t, *s), resp.clone().unwrap());
            }
        }
        TOp::PCommit(t, s) => {
            let m = Message::TxCommit(TxCommitMsg { tx_id: c.ids[*t as usize], shards: vec![*s as usize] });
            let ok = matches!(c.handlers[*s as usize].handle(&coordn, &m), Some(Message::TxAck(a)) if a.success);
            if ok {
                c.commit_acked.lock().unwrap().insert((*t, *s));
            }
            note(c, format!("commit t{t}@s{s} -> ack {ok}"));
        }
        TOp::PAbort(t, s) => {
            let m = Message::TxAbort(TxAbortMsg { tx_id: c.ids[*t as usize], reason: "abort".into(), shards: vec![*s as usize] });
            let _ = c.handlers[*s as usize].handle(&coordn, &m);
            note(c, format!("abort t{t}@s{s}"));
        }
        TOp::CoVote(t, s) => {
            let Some(Message::TxPrepareResponse(r)) = c.votes.lock().unwrap().get(&(*t, *s)).cloned() else { return };
            let res = c.coord.record_vote(r.tx_id, r.shard_id, r.vote.clone().into());
            note(c, format!("record_vote t{t} s{s} -> {:?}", res.as_ref().map(|p| p.map(|x| format!("{x:?}"))).map_err(|e| e.to_string())));
            if let Ok(Some(TxPhase::Aborting)) = res {
                c.decisions.lock().unwrap()[*t as usize].insert(Decision::Abort);
                let _ = c.coord.abort(r.tx_id, "vote no");
            }
        }
        TOp::CoCommit(t) => {
            let id = c.ids[*t as usize];
            if c.coord.get(id).is_some_and(|x| x.phase == TxPhase::Prepared) {
                let ok = c.coord.commit(id).is_ok();
                if ok {
                    c.decisions.lock().unwrap()[*t as usize].insert(Decision::Commit);
                }
                note(c, format!("coordinator commit t{t} -> {ok}"));
            } else {
                note(c, format!("coordinator commit t{t}: not prepared"));
            }
        }
        TOp::CoAbort(t) => {
            let ok = c.coord.abort(c.ids[*t as usize], "client").is_ok();
            if ok {
                c.decisions.lock().unwrap()[*t as usize].insert(Decision::Abort);
            }
            note(c, format!("coordinator abort t{t} -> {ok}"));
        }
        TOp::CoTimeout => {
            let timed = c.coord.cleanup_timeouts();
            for id in &timed {
                if let Some(t) = c.ids.iter().position(|x| x == id) {
                    c.decisions.lock().unwrap()[t].insert(Decision::Abort);
                }
            }
            note(c, format!("cleanup_timeouts -> {} timed out", timed.len()));
        }
    }
}
type TExec = (Vec<vsched::Body>, Box<dyn FnOnce(&vsched::RunResult) -> vsched::Verdict>);
fn t_mk(p: &TProg) -> TExec {
    env::clock_reset();
    let prog = p.clone();
    // built on a fresh, identically seeded OS thread: same HashMap seeds in every execution
    let ctx: Arc<TCtx> = std::thread::spawn(move || {
        env::set_thread_seed(1000);
        let cfg = Cfg { ntx: prog.ntx, shards: prog.shards, dups: 0, timeouts: 0, client_aborts: 0, depth: 0, strays: 0 };
        let mut dcfg = DistributedTxConfig::default();
        dcfg.prepare_timeout_ms = 5_000;
        let coord = DistributedTxCoordinator::new(ConsensusManager::new(ConsensusConfig::default()), dcfg);
        let parts: Vec<Arc<TxParticipant>> = (0..cfg.shards).map(|_| Arc::new(TxParticipant::new(TensorStore::new()))).collect();
        let handlers = parts.iter().map(|p| TxHandler::new(p.clone())).collect();
        // generate_tx_id keeps a process-wide same-millisecond counter: one millisecond per id
        let _ = tensor_chain::generate_tx_id();
        let shards: Vec<usize> = (0..cfg.shards as usize).collect();
        let ids: Vec<u64> = (0..cfg.ntx)
            .map(|_| {
                env::clock_advance_ms(1);
                coord.begin(&"coord".to_string(), &shards).expect("begin").tx_id
            })
            .collect();
        let ctx = Arc::new(TCtx { decisions: std::sync::Mutex::new(vec![BTreeSet::new(); cfg.ntx as usize]), cfg, coord, parts, handlers, ids, votes: Default::default(), log: Default::default(), commit_acked: Default::default(), granted: Default::default(), ticks: Default::default() });
        for op in &prog.pre {
            t_exec(&ctx, op);
        }
        ctx
    })
    .join()
    .expect("setup thread");
    env::clock_advance_ms(p.advance_ms);
    let mut bodies: Vec<vsched::Body> = vec![];
    for ops in &p.threads {
        let (ctx, ops) = (ctx.clone(), ops.clone());
        bodies.push(Box::new(move || {
            for op in &ops {
                t_exec(&ctx, op);
            }
        }));
    }
    let check = Box::new(move |_r: &vsched::RunResult| {
        let c = &*ctx;
        let mut log = c.log.lock().unwrap().clone();
        log.sort();
        let show = || log.iter().map(|(_, s)| s.clone()).collect::<Vec<_>>().join("; ");
        let decisions = c.decisions.lock().unwrap().clone();
        let mut violation = None;
        for (t, d) in decisions.iter().enumerate() {
            if d.len() > 1 {
                violation = Some(format!("c03:conc:decision-changed|t{t} was decided both ways ({d:?}): {}", show()));
            }
        }
        // quiescence: the coordinator's decision reaches every shard (sequentially, commit before abort
        // cannot matter once there is a single decision)
        if violation.is_none() {
            for (t, d) in decisions.iter().enumerate() {
                for s in 0..c.cfg.shards {
                    match d.iter().next() {
                        Some(Decision::Commit) => t_exec(c, &TOp::PCommit(t as u8, s)),
                        Some(Decision::Abort) => t_exec(c, &TOp::PAbort(t as u8, s)),
                        None => {}
                    }
                }
            }
        }
        let acked = c.commit_acked.lock().unwrap().clone();
        let granted = c.granted.lock().unwrap().clone();
        let mut data = vec![];
        for s in 0..c.cfg.shards {
            let store = c.parts[s as usize].store();
            let mut keys = store.scan("");
            keys.sort();
            for k in keys {
                let v = store.get(&k).ok().and_then(|d| d.get("data").cloned());
                let writer = (0..c.cfg.ntx).find(|t| key_of(*t, s) == k && v == Some(TensorValue::Scalar(ScalarValue::Bytes(value_of(*t)))));
                data.push(format!("s{s}:{k}={}", writer.map_or("?".into(), |t| format!("t{t}"))));
                match writer {
                    Some(t) if acked.contains(&(t, s)) => {}
                    Some(t) => violation = violation.or(Some(format!("c03:conc:uncommitted-write-visible|shard {s} key {k} holds the write of t{t}, whose commit it never acknowledged: {}", show()))),
                    None => violation = violation.or(Some(format!("c03:conc:unknown-data|shard {s} key {k}: {}", show()))),
                }
            }
            // every key must show the write of the acknowledged transaction that was granted the key last
            let mut by_key: BTreeMap<String, (u64, u8)> = BTreeMap::new();
            for (t, s2) in &acked {
                if *s2 == s {
                    let g = granted.get(&(*t, s)).copied().unwrap_or(0);
                    let e = by_key.entry(key_of(*t, s)).or_insert((g, *t));
                    if g >= e.0 {
                        *e = (g, *t);
                    }
                }
            }
            for (k, (_, t)) in by_key {
                let v = store.get(&k).ok().and_then(|d| d.get("data").cloned());
                if v != Some(TensorValue::Scalar(ScalarValue::Bytes(value_of(t)))) {
                    violation = violation.or(Some(format!("c03:conc:committed-write-lost|shard {s} acknowledged the commit of t{t} (last holder of {k}) but the key shows {v:?}: {}", show())));
                }
            }
        }
        // a committed transaction is applied on every shard (no split)
        for (t, d) in decisions.iter().enumerate() {
            if d.contains(&Decision::Commit) && d.len() == 1 {
                for s in 0..c.cfg.shards {
                    if !acked.contains(&(t as u8, s)) {
                        violation = violation.or(Some(format!("c03:conc:commit-not-applied-by-prepared-shard|t{t} was committed but shard {s} did not apply it: {}", show())));
                    }
                }
            }
        }
        let outcome = format!("{:?}|{:?}|{}", decisions, data, log.iter().map(|(_, s)| s.as_str()).filter(|s| s.contains("->")).collect::<Vec<_>>().join(";"));
        vsched::Verdict { outcome, violation }
    });
    (bodies, check)
}
fn t_programs(thorough: bool) -> Vec<TProg> {
    use TOp::*;
    let mk = |name: &str, ntx: u8, shards: u8, pre: Vec<TOp>, advance_ms: i64, threads: Vec<Vec<TOp>>| TProg { name: name.into(), ntx, shards, pre, advance_ms, threads };
    // t0 fully voted yes on 2 shards
    let voted = |t: u8| vec![PPrepare(t, 0), PPrepare(t, 1), CoVote(t, 0), CoVote(t, 1)];
    let mut v = vec![
        mk("participant: commit(t0)@s0 || prepare(t1)@s0; abort(t1)@s0 (same key)", 2, 1, vec![PPrepare(0, 0)], 0, vec![vec![PCommit(0, 0)], vec![PPrepare(1, 0), PAbort(1, 0)]]),
        mk("participant: commit(t0)@s0 || prepare(t1)@s0; commit(t1)@s0 (same key)", 2, 1, vec![PPrepare(0, 0)], 0, vec![vec![PCommit(0, 0)], vec![PPrepare(1, 0), PCommit(1, 0)]]),
        mk("participant: abort(t0)@s0 || prepare(t1)@s0; commit(t1)@s0 (same key)", 2, 1, vec![PPrepare(0, 0)], 0, vec![vec![PAbort(0, 0)], vec![PPrepare(1, 0), PCommit(1, 0)]]),
        mk("coordinator: commit(t0) || cleanup_timeouts (deadline passed)", 1, 2, voted(0), 6_000, vec![vec![CoCommit(0)], vec![CoTimeout]]),
        mk("coordinator: commit(t0) || abort(t0)", 1, 2, voted(0), 0, vec![vec![CoCommit(0)], vec![CoAbort(0)]]),
        mk("coordinator: last vote; commit(t0) || cleanup_timeouts (deadline passed)", 1, 2, vec![PPrepare(0, 0), PPrepare(0, 1), CoVote(0, 0)], 6_000, vec![vec![CoVote(0, 1), CoCommit(0)], vec![CoTimeout]]),
        mk("coordinator: last vote; commit(t0) || abort(t0)", 1, 2, vec![PPrepare(0, 0), PPrepare(0, 1), CoVote(0, 0)], 0, vec![vec![CoVote(0, 1), CoCommit(0)], vec![CoAbort(0)]]),
    ];
    if thorough {
        v.push(mk("coordinator: commit(t0) || cleanup_timeouts || abort(t0)", 1, 2, voted(0), 6_000, vec![vec![CoCommit(0)], vec![CoTimeout], vec![CoAbort(0)]]));
        v.push(mk("coordinator: commit(t0) || commit(t1) || cleanup_timeouts (two transactions, deadline passed)", 2, 2, [voted(0), vec![PPrepare(1, 1), CoVote(1, 1)]].concat(), 6_000, vec![vec![CoCommit(0)], vec![CoTimeout]]));
        v.push(mk("participant: commit(t0)@s0 || prepare(t1)@s0; abort(t1)@s0 || prepare(t1)@s1", 2, 2, vec![PPrepare(0, 0), PPrepare(0, 1)], 0, vec![vec![PCommit(0, 0), PCommit(0, 1)], vec![PPrepare(1, 0), PAbort(1, 0)]]));
    }
    v
}
#[derive(Default)]
struct TOut {
    programs: u64,
    executions: u64,
    sched_points: u64,
    distinct_outcomes: u64,
    per_program: Vec<serde_json::Value>,
    violations: Vec<(String, String, serde_json::Value)>,
    machinery: Option<String>,
}
fn part_t(thorough: bool, only: Option<&str>) -> TOut {
    vsched::quiet_panics();
    vsched::set_thread_init(|t| env::set_thread_seed(t as u64 + 1));
    let mut out = TOut::default();
    for p in t_programs(thorough) {
        if only.is_some_and(|o| !p.name.contains(o)) {
            continue;
        }
        let bound = if thorough { 6 } else { 3 };
        let stats = vsched::explore(&vsched::ExploreCfg { bound, part: (0, 1), max_execs: 2_000_000 }, || t_mk(&p));
        out.programs += 1;
        out.executions += stats.executions;
        out.sched_points += stats.sched_points;
        out.distinct_outcomes += stats.outcomes.len() as u64;
        out.per_program.push(json!({"program": p.name, "preemption_bound": bound, "schedules": stats.executions, "distinct_outcomes": stats.outcomes.len(), "max_scheduling_points": stats.max_points, "violating_schedules": stats.violation_count}));
        if let Some(m) = stats.machinery {
            out.machinery.get_or_insert(format!("{}: {m}", p.name));
        }
        if stats.capped {
            out.machinery.get_or_insert(format!("{}: execution cap hit", p.name));
        }
        for v in stats.violations {
            let (sig, msg) = v.message.split_once('|').map_or_else(|| (if v.message.starts_with("deadlock") { "c03:conc:deadlock".to_string() } else { "c03:conc:panic".to_string() }, v.message.clone()), |(a, b)| (a.to_string(), b.to_string()));
            if out.violations.iter().filter(|x| x.0 == sig).count() < 3 {
                out.violations.push((sig, format!("{}: {msg} (thread schedule {:?}, {} preemptions)", p.name, v.threads, v.preemptions), json!({"part": "T", "program": p, "bound": bound, "choices": v.choices})));
            }
        }
    }
    env::clock_reset();
    out
}

/// re-run one stored counterexample without the explorer
fn replay_case(rep: &mut Report, path: &str) {
    let body: serde_json::Value = serde_json::from_str(&std::fs::read_to_string(path).expect("replay file")).expect("replay json");
    let r = body.get("replay").cloned().unwrap_or(body.clone());
    let sig = body["signature"].as_str().unwrap_or("c03:replayed").to_string();
    if r["part"] == "T" {
        vsched::quiet_panics();
        vsched::set_thread_init(|t| env::set_thread_seed(t as u64 + 1));
        let p: TProg = serde_json::from_value(r["program"].clone()).expect("program");
        let choices: Vec<usize> = serde_json::from_value(r["choices"].clone()).expect("choices");
        let mut verdicts = vec![];
        for _ in 0..2 {
            let (bodies, check) = t_mk(&p);
            let run = vsched::run(&choices, bodies);
            if let Some(m) = &run.machinery {
                rep.machinery(format!("replay diverged: {m}"));
                return;
            }
            verdicts.push(if run.deadlock { (String::from("<deadlock>"), Some("deadlock".to_string())) } else if let Some((t, m)) = run.panics.first() { ("<panic>".into(), Some(format!("panic in thread {t}: {m}"))) } else { let v = check(&run); (v.outcome, v.violation) });
        }
        env::clock_reset();
        if verdicts[0] != verdicts[1] {
            rep.machinery("replaying the schedule twice gave different observations".to_string());
        }
        rep.add("schedules", 1);
        println!("replayed schedule of '{}': {:?}", p.name, verdicts[0]);
        if let Some(v) = &verdicts[0].1 {
            rep.violation(sig, v.clone(), r.clone());
        }
    } else {
        let label = r["cfg"].as_str().expect("cfg label").to_string();
        let nums: Vec<u8> = label.split(|c: char| !c.is_ascii_digit()).filter(|x| !x.is_empty()).map(|x| x.parse().unwrap()).collect();
        let cfg = Cfg { ntx: nums[0], shards: nums[1], dups: nums[2], timeouts: nums[3], client_aborts: nums[4], depth: 80, strays: nums.get(5).copied().unwrap_or(0) };
        let events: Vec<Ev> = serde_json::from_value(r["events"].clone()).expect("events");
        let w = replay(&cfg, &events);
        rep.add("transitions", events.len() as u64);
        println!("replayed {} events on '{label}': violation {:?}", events.len(), w.violation);
        if let Some((s, m)) = &w.violation {
            rep.violation(format!("c03:{s}"), m.clone(), r.clone());
        }
    }
    rep.sample(json!({"replayed": path}));
}

fn main() {
    env::require();
    env::clock_freeze(1_750_000_000);
    let mut rep = Report::new("C03", "model_checking");
    if let Some(path) = rep.args.replay.clone() {
        replay_case(&mut rep, &path);
        rep.finish();
    }
    let thorough = rep.thorough();
    rep.rule("replay BFS: a state is its event history; each expansion replays it on a fresh real coordinator + participants (TxHandler::handle seam) and runs one more event of {begin, deliver any in-flight prepare/vote/commit/abort, duplicate (budget), coordinator timeout sweep (budget, clock advanced), client abort (budget), a yes vote from a real participant outside the transaction (budget)}; loss = never delivering, reordering inherent; dedup on a canonical rendering of coordinator transactions, participant prepared sets/locks/data, in-flight messages and history variables; invariants on every state");
    rep.rule("part T: 2-3 real threads run the coordinator's commit/abort/record_vote/cleanup_timeouts and the participants' prepare/commit/abort handlers concurrently under the vsched scheduler (every parking_lot/dashmap lock acquisition is a scheduling point), all schedules up to the preemption bound (quick 3, thorough 6); afterwards the single decision is delivered to every shard and decisions, acknowledgements and shard data are compared");
    rep.assume("trusted driver (the repository has no production sender for commit): on record_vote -> Prepared call commit() and only on Ok emit TxCommit; on Aborting call abort(); abort broadcasts are emitted by the real process_pending_aborts; participant-side unilateral timeouts are outside the quantifier and not in the alphabet");
    let mk = |ntx: u8, shards: u8, dups: u8, timeouts: u8, client_aborts: u8| (format!("{ntx}tx x {shards} shards dup<={dups} timeout<={timeouts} clientabort<={client_aborts}"), Cfg { ntx, shards, dups, timeouts, client_aborts, depth: 80, strays: 0 });
    let cfgs: Vec<(String, Cfg)> = if thorough {
        vec![mk(2, 2, 1, 1, 1), mk(2, 2, 2, 1, 0), mk(3, 2, 0, 1, 0), mk(2, 3, 0, 1, 0)]
    } else {
        vec![mk(2, 2, 1, 1, 0), mk(2, 2, 0, 1, 1), mk(2, 3, 1, 0, 0)]
    };
    let mut cfgs = cfgs;
    cfgs.push(("2tx x 2 shards dup<=0 timeout<=1 clientabort<=0 strayvote<=1".to_string(), Cfg { ntx: 2, shards: 2, dups: 0, timeouts: 1, client_aborts: 0, depth: 80, strays: 1 }));
    let only = rep.args.flag("cfg");
    for (label, cfg) in cfgs {
        if only.as_ref().is_some_and(|o| !label.contains(o.as_str())) {
            continue;
        }
        let t0 = env::real_now_s();
        let o = bfs(&cfg, &label);
        for (sig, msg, r) in &o.violations {
            rep.violation(sig.clone(), msg.clone(), r.clone());
        }
        rep.add("states", o.states);
        rep.add("transitions", o.transitions);
        rep.add("traces_validated_against_impl", o.transitions);
        rep.add("evaluations", o.transitions);
        rep.add("distinct_nontrivial", o.committed_states + o.aborted_states);
        rep.part(&label, json!({"distinct_states": o.states, "transitions": o.transitions, "depth_bound": cfg.depth, "max_depth_with_new_states": o.max_depth, "reachable_space_exhausted": o.max_depth < cfg.depth, "quiescent_states": o.quiescent_states, "states_with_a_commit": o.committed_states, "states_with_an_abort": o.aborted_states, "violating_transitions": o.violation_count, "wall_s": env::real_now_s() - t0}));
        if let Some(s) = o.sample {
            rep.sample(s);
        }
        if o.max_depth >= cfg.depth {
            rep.capped(&format!("{label}: depth bound {} reached before the reachable space was exhausted", cfg.depth));
        }
        if o.committed_states == 0 || o.aborted_states == 0 {
            rep.machinery(format!("{label}: vacuous (no commit or no abort reached)"));
        }
    }
    // Part T: the handlers on real threads
    if only.as_ref().map_or(true, |o| o.starts_with("T")) {
        let o = part_t(thorough, only.as_ref().and_then(|o| o.strip_prefix("T:")));
        for (sig, msg, r) in &o.violations {
            rep.violation(sig.clone(), msg.clone(), r.clone());
        }
        rep.add("schedules", o.executions);
        rep.add("evaluations", o.executions);
        rep.add("distinct_nontrivial", o.distinct_outcomes);
        rep.part("T: coordinator decision calls and participant handlers on real threads", json!({"programs": o.programs, "schedules": o.executions, "scheduling_points": o.sched_points, "distinct_outcomes": o.distinct_outcomes, "per_program": o.per_program}));
        if let Some(m) = o.machinery {
            rep.machinery(m);
        }
        if rep.coverage.get("samples").is_none() {
            rep.sample(json!({"part": "T", "first_program": o.per_program.first()}));
        }
    }
    rep.set("explanation", json!("no separate model: every transition is the real coordinator/participant code"));
    rep.finish();
}
