//! C15 — query text means one thing: parsing is total, deterministic, precedence-correct.
//!
//! Part A (precedence)  : every expression tree with <=3 (thorough: <=4) operator nodes over all 20 binary
//!                        spellings, 4 prefix spellings and 8 postfix forms, plus left/right combs to depth 8
//!                        over every ordered operator pair.  Printed with the minimal parentheses the
//!                        *documented* table dictates and fully parenthesised; parsed by both expression
//!                        parsers of the repo (`parse_expr`, and the statement parser's own copy reached
//!                        through `SELECT * FROM t WHERE <e>`); AST must equal the tree; parsed twice.
//! Part B (totality)    : stream 1: every valid-UTF-8 byte string of length <=2 (thorough <=3) under 12 lexical
//!                        contexts; stream 2: every token sequence of length <=2 (<=3) over the full
//!                        keyword/punctuation alphabet (extracted from token.rs); stream 3: every sequence of
//!                        length 3 (4) over a 48-token reduced alphabet; streams 4/5: periodic inputs u^n for
//!                        every token, token pair, hand-listed recursive production (thorough: reduced triples),
//!                        n = 10^3 (thorough 10..10^4), and n = 10^5 for the narrow unit set.  Each input goes
//!                        through tokenize / parse / parse_all / parse_expr twice.  Executed in worker
//!                        subprocesses on a thread with a fixed 8 MiB stack; a shared-memory slot names the call
//!                        in flight so a stack overflow / abort / hang is attributed, confirmed in an isolated
//!                        subprocess (and minimised by bisection on n), and the enumeration resumes after it.
//! Part C (text = API)  : statement templates x argument grids executed as text through
//!                        `QueryRouter::execute_parsed` on one engine set and as the direct engine call on a
//!                        twin; result and post-state observation must be equal.
//! Part C2              : the same texts through the router's other public entry point `execute` (legacy
//!                        string-splitting parser): when both accept a text they must agree.
//! `--selftest` corrupts the reference of each part; `--part=A|B|C` restricts; `--replay <file>` re-runs one case.
use neumann_parser as np;
use np::{BinaryOp, Expr, ExprKind, InList, Literal, StatementKind, UnaryOp};
use nvc::Report;
use rayon::prelude::*;
use serde_json::{json, Value as J};
use std::collections::{BTreeMap, BTreeSet, HashMap};
use std::panic::{catch_unwind, AssertUnwindSafe};
use std::sync::atomic::{AtomicU64, Ordering};
use std::time::{Duration, Instant};

// =====================================================================================================
// Part A — precedence
// =====================================================================================================

struct BinSpec {
    text: &'static str,
    op: BinaryOp,
    /// level in the documented table (expr.rs:7-18, docs/book/src/architecture/neumann-parser.md:358)
    level: u8,
}
/// The documented table. Order: lowest precedence first. All binary operators are documented left-associative.
const BINS: [BinSpec; 20] = [
    BinSpec { text: "OR", op: BinaryOp::Or, level: 1 },
    BinSpec { text: "AND", op: BinaryOp::And, level: 2 },
    BinSpec { text: "=", op: BinaryOp::Eq, level: 3 },
    BinSpec { text: "!=", op: BinaryOp::Ne, level: 3 },
    BinSpec { text: "<>", op: BinaryOp::Ne, level: 3 },
    BinSpec { text: "<", op: BinaryOp::Lt, level: 3 },
    BinSpec { text: "<=", op: BinaryOp::Le, level: 3 },
    BinSpec { text: ">", op: BinaryOp::Gt, level: 3 },
    BinSpec { text: ">=", op: BinaryOp::Ge, level: 3 },
    BinSpec { text: "|", op: BinaryOp::BitOr, level: 4 },
    BinSpec { text: "^", op: BinaryOp::BitXor, level: 5 },
    BinSpec { text: "&", op: BinaryOp::BitAnd, level: 6 },
    BinSpec { text: "<<", op: BinaryOp::Shl, level: 7 },
    BinSpec { text: ">>", op: BinaryOp::Shr, level: 7 },
    BinSpec { text: "+", op: BinaryOp::Add, level: 8 },
    BinSpec { text: "-", op: BinaryOp::Sub, level: 8 },
    BinSpec { text: "||", op: BinaryOp::Concat, level: 8 },
    BinSpec { text: "*", op: BinaryOp::Mul, level: 9 },
    BinSpec { text: "/", op: BinaryOp::Div, level: 9 },
    BinSpec { text: "%", op: BinaryOp::Mod, level: 9 },
];
const UNARY_LEVEL: u8 = 10;
const POSTFIX_LEVEL: u8 = 11;
const ATOM_LEVEL: u8 = 12;
const UNS: [(&str, UnaryOp); 4] = [("-", UnaryOp::Neg), ("NOT", UnaryOp::Not), ("~", UnaryOp::BitNot), ("!", UnaryOp::Not)];
/// postfix forms (text after the operand, canonical rendering)
const POSTS: [(&str, &str); 8] = [
    ("IS NULL", "IsNull-"),
    ("IS NOT NULL", "IsNull!"),
    ("IN (p, q)", "In-[id:p id:q]"),
    ("NOT IN (p)", "In![id:p]"),
    ("BETWEEN p AND q", "Between-[id:p id:q]"),
    ("NOT BETWEEN p AND q", "Between![id:p id:q]"),
    ("LIKE 'pat'", "Like-[str:pat]"),
    ("NOT LIKE 'pat'", "Like![str:pat]"),
];

#[derive(Clone, Debug)]
enum T {
    Leaf,
    Un(u8, Box<T>),
    Post(u8, Box<T>),
    Bin(Box<T>, u8, Box<T>),
}
#[derive(Clone, Copy, Debug, PartialEq, Eq)]
enum Op {
    Bin(u8),
    Un(u8),
    Post(u8),
}
fn all_ops() -> Vec<Op> {
    let mut v = vec![];
    v.extend((0..BINS.len() as u8).map(Op::Bin));
    v.extend((0..UNS.len() as u8).map(Op::Un));
    v.extend((0..POSTS.len() as u8).map(Op::Post));
    v
}

struct Table {
    /// level per binary spelling; `--selftest` corrupts it
    bin_level: [u8; 20],
}
impl Table {
    fn documented() -> Table {
        let mut l = [0u8; 20];
        for (i, b) in BINS.iter().enumerate() {
            l[i] = b.level;
        }
        Table { bin_level: l }
    }
    fn level(&self, t: &T) -> u8 {
        match t {
            T::Leaf => ATOM_LEVEL,
            T::Post(..) => POSTFIX_LEVEL,
            T::Un(..) => UNARY_LEVEL,
            T::Bin(_, b, _) => self.bin_level[*b as usize],
        }
    }
}

fn leaf_text(i: usize) -> (String, String) {
    match i % 3 {
        0 => (format!("c{i}"), format!("id:c{i}")),
        1 => (format!("{}", i + 1), format!("int:{}", i + 1)),
        _ => (format!("'s{i}'"), format!("str:s{i}")),
    }
}

/// minimal parentheses according to the documented table: a child is parenthesised iff it binds
/// less tightly than its position requires (left operand: lower level; right operand of a
/// left-associative operator: lower or equal level; operand of a prefix operator: below unary;
/// operand of a postfix operator: below postfix).
fn print_min(tb: &Table, t: &T, ctr: &mut usize, out: &mut String) {
    fn child(tb: &Table, t: &T, need: bool, ctr: &mut usize, out: &mut String) {
        if need {
            out.push('(');
        }
        print_min(tb, t, ctr, out);
        if need {
            out.push(')');
        }
    }
    match t {
        T::Leaf => {
            out.push_str(&leaf_text(*ctr).0);
            *ctr += 1;
        }
        T::Un(u, x) => {
            out.push_str(UNS[*u as usize].0);
            out.push(' ');
            child(tb, x, tb.level(x) < UNARY_LEVEL, ctr, out);
        }
        T::Post(p, x) => {
            // BETWEEN/LIKE end in an operand; the documented table does not say whether a postfix
            // operator that follows belongs to that operand or to the whole form, so the harness never
            // leaves that to the parser: it keeps the parentheses there.
            let trailing_operand = matches!(**x, T::Post(k, _) if k >= 4);
            child(tb, x, tb.level(x) < POSTFIX_LEVEL || trailing_operand, ctr, out);
            out.push(' ');
            out.push_str(POSTS[*p as usize].0);
        }
        T::Bin(l, b, r) => {
            let lv = tb.bin_level[*b as usize];
            child(tb, l, tb.level(l) < lv, ctr, out);
            out.push(' ');
            out.push_str(BINS[*b as usize].text);
            out.push(' ');
            child(tb, r, tb.level(r) <= lv, ctr, out);
        }
    }
}
/// every operator node wrapped in parentheses
fn print_full(t: &T, ctr: &mut usize, out: &mut String) {
    match t {
        T::Leaf => {
            out.push_str(&leaf_text(*ctr).0);
            *ctr += 1;
        }
        T::Un(u, x) => {
            out.push('(');
            out.push_str(UNS[*u as usize].0);
            out.push(' ');
            print_full(x, ctr, out);
            out.push(')');
        }
        T::Post(p, x) => {
            out.push('(');
            print_full(x, ctr, out);
            out.push(' ');
            out.push_str(POSTS[*p as usize].0);
            out.push(')');
        }
        T::Bin(l, b, r) => {
            out.push('(');
            print_full(l, ctr, out);
            out.push(' ');
            out.push_str(BINS[*b as usize].text);
            out.push(' ');
            print_full(r, ctr, out);
            out.push(')');
        }
    }
}
fn canon_tree(t: &T, ctr: &mut usize, out: &mut String) {
    match t {
        T::Leaf => {
            out.push_str(&leaf_text(*ctr).1);
            *ctr += 1;
        }
        T::Un(u, x) => {
            out.push_str(&format!("(U:{:?} ", UNS[*u as usize].1));
            canon_tree(x, ctr, out);
            out.push(')');
        }
        T::Post(p, x) => {
            out.push_str(&format!("(P:{} ", POSTS[*p as usize].1));
            canon_tree(x, ctr, out);
            out.push(')');
        }
        T::Bin(l, b, r) => {
            out.push_str(&format!("(B:{:?} ", BINS[*b as usize].op));
            canon_tree(l, ctr, out);
            out.push(' ');
            canon_tree(r, ctr, out);
            out.push(')');
        }
    }
}
fn canon_expr(e: &Expr, out: &mut String) {
    fn list(xs: &[&Expr], out: &mut String) {
        out.push('[');
        for (i, x) in xs.iter().enumerate() {
            if i > 0 {
                out.push(' ');
            }
            canon_expr(x, out);
        }
        out.push(']');
    }
    let n = |b: bool| if b { '!' } else { '-' };
    match &e.kind {
        ExprKind::Ident(i) => out.push_str(&format!("id:{}", i.name)),
        ExprKind::Literal(Literal::Integer(i)) => out.push_str(&format!("int:{i}")),
        ExprKind::Literal(Literal::String(s)) => out.push_str(&format!("str:{s}")),
        ExprKind::Unary(op, x) => {
            out.push_str(&format!("(U:{op:?} "));
            canon_expr(x, out);
            out.push(')');
        }
        ExprKind::Binary(l, op, r) => {
            out.push_str(&format!("(B:{op:?} "));
            canon_expr(l, out);
            out.push(' ');
            canon_expr(r, out);
            out.push(')');
        }
        ExprKind::IsNull { expr, negated } => {
            out.push_str(&format!("(P:IsNull{} ", n(*negated)));
            canon_expr(expr, out);
            out.push(')');
        }
        ExprKind::In { expr, list: InList::Values(v), negated } => {
            out.push_str(&format!("(P:In{}", n(*negated)));
            list(&v.iter().collect::<Vec<_>>(), out);
            out.push(' ');
            canon_expr(expr, out);
            out.push(')');
        }
        ExprKind::Between { expr, low, high, negated } => {
            out.push_str(&format!("(P:Between{}", n(*negated)));
            list(&[low, high], out);
            out.push(' ');
            canon_expr(expr, out);
            out.push(')');
        }
        ExprKind::Like { expr, pattern, negated } => {
            out.push_str(&format!("(P:Like{}", n(*negated)));
            list(&[pattern], out);
            out.push(' ');
            canon_expr(expr, out);
            out.push(')');
        }
        other => out.push_str(&format!("?{}", format!("{other:?}").chars().take(24).collect::<String>())),
    }
}

const WHERE_PREFIX: &str = "SELECT * FROM t WHERE ";
/// Ok(canonical AST) or Err(description); also checks the second parse is identical.
fn parse_via(parser: usize, text: &str, nondet: &mut u64) -> Result<String, String> {
    let mut out = String::new();
    if parser == 0 {
        let a = np::parse_expr(text);
        let b = np::parse_expr(text);
        if format!("{a:?}") != format!("{b:?}") {
            *nondet += 1;
        }
        match a {
            Ok(e) => canon_expr(&e, &mut out),
            Err(e) => return Err(format!("parse_expr error: {e}")),
        }
    } else {
        let src = format!("{WHERE_PREFIX}{text}");
        let a = np::parse(&src);
        let b = np::parse(&src);
        if a.as_ref().ok() != b.as_ref().ok() || format!("{:?}", a.as_ref().err()) != format!("{:?}", b.as_ref().err()) {
            *nondet += 1;
        }
        match a {
            Ok(st) => match st.kind {
                StatementKind::Select(sel) => match sel.where_clause {
                    Some(w) => {
                        // nothing may be left over after the expression
                        if st.span.end.0 as usize != src.len() {
                            return Err(format!("statement ends at byte {} of {}", st.span.end.0, src.len()));
                        }
                        canon_expr(&w, &mut out)
                    }
                    None => return Err("no where clause".into()),
                },
                k => return Err(format!("not a select: {:?}", format!("{k:?}").chars().take(40).collect::<String>())),
            },
            Err(e) => return Err(format!("parse error: {e}")),
        }
    }
    Ok(out)
}

#[derive(Default)]
struct AStats {
    trees: u64,
    parses: u64,
    need_parens: u64,
    distinct_min_ne_full: u64,
    nondet: u64,
    viol_total: u64,
    viols: Vec<(String, String, J)>,
    sample: Option<J>,
}
impl AStats {
    fn merge(mut self, o: AStats) -> AStats {
        self.trees += o.trees;
        self.parses += o.parses;
        self.need_parens += o.need_parens;
        self.distinct_min_ne_full += o.distinct_min_ne_full;
        self.nondet += o.nondet;
        self.viol_total += o.viol_total;
        for v in o.viols {
            if self.viols.iter().filter(|x| x.0 == v.0).count() < 3 {
                self.viols.push(v);
            }
        }
        if self.sample.is_none() {
            self.sample = o.sample;
        }
        self
    }
}
const PARSER_NAMES: [&str; 2] = ["expr-parser(parse_expr)", "stmt-parser(parse: SELECT..WHERE e)"];

fn check_tree(tb: &Table, t: &T, st: &mut AStats, family: &str) {
    check_tree_opt(tb, t, st, family, true)
}
/// `full_too = false`: only the minimal printing (the fully parenthesised form of a long flat chain
/// nests deeper than the parser's documented depth limit and is legitimately refused)
fn check_tree_opt(tb: &Table, t: &T, st: &mut AStats, family: &str, full_too: bool) {
    st.trees += 1;
    let (mut min, mut full, mut want) = (String::new(), String::new(), String::new());
    print_min(tb, t, &mut 0, &mut min);
    print_full(t, &mut 0, &mut full);
    canon_tree(t, &mut 0, &mut want);
    if min.contains('(') && min.replace("(p, q)", "").replace("(p)", "").contains('(') {
        st.need_parens += 1;
    }
    if min != full {
        st.distinct_min_ne_full += 1;
    }
    for parser in 0..2 {
        for (pname, text) in [("minimal", &min), ("full", &full)] {
            if pname == "full" && !full_too {
                continue;
            }
            st.parses += 2;
            let got = parse_via(parser, text, &mut st.nondet);
            let bad = match &got {
                Ok(g) => *g != want,
                Err(_) => true,
            };
            if bad {
                st.viol_total += 1;
                let sig = format!(
                    "c15:precedence:{}:{}",
                    if parser == 0 { "expr-parser" } else { "stmt-parser" },
                    if got.is_err() { "rejected" } else { "regrouped" }
                );
                if st.viols.iter().filter(|x| x.0 == sig).count() < 3 {
                    st.viols.push((
                        sig,
                        format!("{family}: {pname} printing `{text}` of tree {want} parsed by {} as {got:?}", PARSER_NAMES[parser]),
                        json!({"part":"A","family":family,"printing":pname,"text":text,"parser":PARSER_NAMES[parser],"expected_ast":want,"got":format!("{got:?}"),
                               "repro": if parser==0 { format!("neumann_parser::parse_expr({text:?})") } else { format!("neumann_parser::parse({:?})", format!("{WHERE_PREFIX}{text}")) }}),
                    ));
                }
            }
        }
    }
    if st.sample.is_none() && st.trees == 77 {
        st.sample = Some(json!({"part":"A","family":family,"minimal":min,"full":full,"ast":want}));
    }
}

fn wrap(op: Op, l: T, r: Option<T>) -> T {
    match op {
        Op::Un(u) => T::Un(u, Box::new(l)),
        Op::Post(p) => T::Post(p, Box::new(l)),
        Op::Bin(b) => T::Bin(Box::new(l), b, Box::new(r.unwrap())),
    }
}
/// all trees with exactly n operator nodes (leaves are numbered at print time)
fn trees_exact(n: usize, memo: &mut Vec<Vec<T>>) {
    while memo.len() <= n {
        let k = memo.len();
        let mut v = vec![];
        if k == 0 {
            v.push(T::Leaf);
        } else {
            for op in all_ops() {
                match op {
                    Op::Bin(_) => {
                        for ls in 0..k {
                            for l in &memo[ls] {
                                for r in &memo[k - 1 - ls] {
                                    v.push(wrap(op, l.clone(), Some(r.clone())));
                                }
                            }
                        }
                    }
                    _ => {
                        for x in &memo[k - 1] {
                            v.push(wrap(op, x.clone(), None));
                        }
                    }
                }
            }
        }
        memo.push(v);
    }
}

fn part_a(rep: &mut Report, thorough: bool, selftest: bool) -> (u64, u64, u64) {
    let mut tb = Table::documented();
    if selftest {
        // corrupt the reference: pretend `+`,`-`,`||` bind tighter than `*`,`/`,`%`
        for (i, b) in BINS.iter().enumerate() {
            if b.level == 8 {
                tb.bin_level[i] = 9;
            } else if b.level == 9 {
                tb.bin_level[i] = 8;
            }
        }
    }
    let tb = &tb;
    let max_nodes = if thorough { 4 } else { 3 };
    let mut memo: Vec<Vec<T>> = vec![];
    trees_exact(3, &mut memo);
    let mut total = AStats::default();
    for n in 1..=3usize {
        let s = memo[n]
            .par_chunks(512)
            .map(|c| {
                let mut st = AStats::default();
                for t in c {
                    check_tree(tb, t, &mut st, &format!("all trees with {n} operator nodes"));
                }
                st
            })
            .reduce(AStats::default, AStats::merge);
        rep.part(&format!("A_trees_{n}"), json!({"operator_nodes": n, "trees": s.trees, "parses": s.parses, "violating": s.viol_total}));
        total = total.merge(s);
    }
    if max_nodes >= 4 {
        // size 4 on the fly: root x (sizes of children)
        let ops = all_ops();
        let mut jobs: Vec<(Op, usize, usize)> = vec![]; // (root, left size, index into memo[left size])
        for &op in &ops {
            match op {
                Op::Bin(_) => {
                    for ls in 0..4 {
                        for li in 0..memo[ls].len() {
                            jobs.push((op, ls, li));
                        }
                    }
                }
                _ => {
                    for li in 0..memo[3].len() {
                        jobs.push((op, 3, li));
                    }
                }
            }
        }
        let memo_ref = &memo;
        let s = jobs
            .par_chunks(64)
            .map(|c| {
                let mut st = AStats::default();
                for &(op, ls, li) in c {
                    match op {
                        Op::Bin(_) => {
                            for r in &memo_ref[3 - ls] {
                                let t = wrap(op, memo_ref[ls][li].clone(), Some(r.clone()));
                                check_tree(tb, &t, &mut st, "all trees with 4 operator nodes");
                            }
                        }
                        _ => {
                            let t = wrap(op, memo_ref[3][li].clone(), None);
                            check_tree(tb, &t, &mut st, "all trees with 4 operator nodes");
                        }
                    }
                }
                st
            })
            .reduce(AStats::default, AStats::merge);
        rep.part("A_trees_4", json!({"operator_nodes": 4, "trees": s.trees, "parses": s.parses, "violating": s.viol_total}));
        total = total.merge(s);
    }
    // combs: spine of depth d whose operators are a word over {p,q}
    let ops = all_ops();
    let mut words: Vec<(Vec<Op>, bool)> = vec![];
    for &p in &ops {
        for &q in &ops {
            for d in 1..=8usize {
                if thorough {
                    let lim = if p == q { 1 } else { 1u32 << d };
                    for bits in 0..lim {
                        let w: Vec<Op> = (0..d).map(|i| if bits >> i & 1 == 0 { p } else { q }).collect();
                        words.push((w.clone(), true));
                        words.push((w, false));
                    }
                } else {
                    let w: Vec<Op> = (0..d).map(|i| if i % 2 == 0 { p } else { q }).collect();
                    words.push((w.clone(), true));
                    words.push((w, false));
                }
            }
        }
    }
    let s = words
        .par_chunks(256)
        .map(|c| {
            let mut st = AStats::default();
            for (w, left) in c {
                let mut t = T::Leaf;
                for &op in w.iter().rev() {
                    t = match op {
                        Op::Bin(_) => {
                            if *left {
                                wrap(op, t, Some(T::Leaf))
                            } else {
                                wrap(op, T::Leaf, Some(t))
                            }
                        }
                        _ => wrap(op, t, None),
                    };
                }
                check_tree(tb, &t, &mut st, if *left { "left comb" } else { "right comb" });
            }
            st
        })
        .reduce(AStats::default, AStats::merge);
    // wide flat chains: N operands joined by one binary operator, every operand itself one application of
    // another operator (binary, prefix or postfix): nesting depth 2 whatever N is
    let mut wide: Vec<(Op, Op, usize)> = vec![];
    for &p in ops.iter().filter(|o| matches!(o, Op::Bin(_))) {
        for &q in &ops {
            for n in [4usize, 50] {
                wide.push((p, q, n));
            }
        }
    }
    let sw = wide
        .par_chunks(64)
        .map(|c| {
            let mut st = AStats::default();
            for (p, q, n) in c {
                let operand = || match q {
                    Op::Bin(_) => wrap(*q, T::Leaf, Some(T::Leaf)),
                    _ => wrap(*q, T::Leaf, None),
                };
                let mut t = operand();
                for _ in 1..*n {
                    t = wrap(*p, t, Some(operand()));
                }
                check_tree_opt(tb, &t, &mut st, "wide flat chain", *n <= 4);
            }
            st
        })
        .reduce(AStats::default, AStats::merge);
    rep.part("A_wide_chains", json!({"operands": [4, 50], "outer_binary_operators_x_inner_operators": wide.len() / 2, "trees": sw.trees, "parses": sw.parses, "violating": sw.viol_total}));
    total = total.merge(sw);
    rep.part("A_combs", json!({"max_depth": 8, "operator_pairs": ops.len()*ops.len(), "words": if thorough {"all words over {p,q}"} else {"alternating pqpq.."}, "trees": s.trees, "parses": s.parses, "violating": s.viol_total}));
    total = total.merge(s);

    for (sig, msg, r) in &total.viols {
        rep.violation(sig.clone(), msg.clone(), r.clone());
    }
    // Report keeps 3 artefacts per signature and counts the rest
    for _ in total.viols.len() as u64..total.viol_total {
        rep.violation("c15:precedence:more", "further precedence mismatches (same causes)", json!({}));
    }
    if total.nondet > 0 {
        rep.violation("c15:nondeterministic-parse:part-a", format!("{} inputs parsed differently on the second call", total.nondet), json!({"part":"A"}));
    }
    if let Some(s) = total.sample.clone() {
        rep.sample(s);
    }
    rep.part("A_total", json!({"max_operator_nodes": max_nodes, "trees": total.trees, "parses": total.parses, "trees_whose_minimal_printing_needs_parentheses": total.need_parens, "violating_parses": total.viol_total}));
    if total.need_parens < 100 {
        rep.machinery("vacuous part A: almost no tree needs parentheses");
    }
    (total.trees, total.parses, total.need_parens)
}

// =====================================================================================================
// Part B — totality (workers)
// =====================================================================================================

const STACK_BYTES: usize = 8 << 20;
// slot layout (u64 words)
const S_SEQ: usize = 0;
const S_IDX: usize = 1;
const S_CTX: usize = 2;
const S_API: usize = 3;
const S_PHASE: usize = 4;
const S_DONE: usize = 5;
const S_CHUNK_END: usize = 6;
const C_CASES: usize = 8;
const C_CALLS: usize = 9;
const C_OK: usize = 10; // +api (4)
const C_ERR: usize = 14; // +api (4)
const C_SKIP: usize = 18;
const C_BYTES: usize = 19;
const C_MAXLEN: usize = 20;
const C_MAXUS: usize = 21; // slowest single call (microseconds) and where
const C_MAXUS_IDX: usize = 22;
const C_MAXUS_CTX: usize = 23;
const C_MAXUS_API: usize = 24;
const SLOT_WORDS: usize = 64;
const APIS: [&str; 4] = ["tokenize", "parse", "parse_all", "parse_expr"];

struct Slot {
    p: *mut u64,
}
unsafe impl Send for Slot {}
unsafe impl Sync for Slot {}
impl Slot {
    fn open(path: &str) -> Slot {
        use std::os::unix::io::AsRawFd;
        let f = std::fs::OpenOptions::new().read(true).write(true).create(true).truncate(false).open(path).expect("slot file");
        f.set_len((SLOT_WORDS * 8) as u64).unwrap();
        let p = unsafe { libc::mmap(std::ptr::null_mut(), SLOT_WORDS * 8, libc::PROT_READ | libc::PROT_WRITE, libc::MAP_SHARED, f.as_raw_fd(), 0) };
        assert!(p != libc::MAP_FAILED, "mmap slot");
        Slot { p: p as *mut u64 }
    }
    fn a(&self, i: usize) -> &AtomicU64 {
        unsafe { &*(self.p.add(i) as *const AtomicU64) }
    }
    fn get(&self, i: usize) -> u64 {
        self.a(i).load(Ordering::Relaxed)
    }
    fn set(&self, i: usize, v: u64) {
        self.a(i).store(v, Ordering::Relaxed)
    }
    fn add(&self, i: usize, v: u64) {
        self.a(i).fetch_add(v, Ordering::Relaxed);
    }
    fn max(&self, i: usize, v: u64) {
        self.a(i).fetch_max(v, Ordering::Relaxed);
    }
}

fn keywords() -> Vec<String> {
    let src = include_str!("/repo/neumann_parser/src/token.rs");
    let start = src.find("fn keyword_from_str").expect("keyword_from_str");
    let end = start + src[start..].find("_ => return None").expect("end of keyword table");
    let mut out = BTreeSet::new();
    let body = &src[start..end];
    let mut it = body.split('"');
    it.next();
    while let Some(w) = it.next() {
        if !w.is_empty() && w.chars().all(|c| c.is_ascii_uppercase() || c == '_' || c.is_ascii_digit()) && np::TokenKind::keyword_from_str(w).is_some() {
            out.insert(w.to_string());
        }
        it.next();
    }
    out.into_iter().collect()
}
const PUNCT: [&str; 38] = [
    "+", "-", "*", "/", "%", "=", "!=", "<>", "<", "<=", ">", ">=", "<<", ">>", "&", "&&", "|", "||", "^", "~", "(", ")", "[", "]", "{", "}", ",", ".", ";", ":", "::", "?", "@", "#", "$", "->", "=>", "!",
];
const LITS: [&str; 14] = ["x", "1", "1.5", "'s'", "\"d\"", "'u", "`", "1e", "99999999999999999999", "\u{e9}", "--c\n", "/*c*/", "/*", "\\"];
const REDUCED: [&str; 48] = [
    "SELECT", "FROM", "WHERE", "*", "(", ")", ",", "x", "1", "'s'", "=", "AND", "NOT", "-", "IN", "BETWEEN", "LIKE", "IS", "NULL", "CASE", "WHEN", "THEN", "ELSE", "END", "EXISTS", "CAST", "AS", "[", "]",
    "{", "}", ":", ".", ";", "JOIN", "ON", "INSERT", "INTO", "VALUES", "NODE", "EDGE", "MATCH", "->", "ORDER", "BY", "LIMIT", "COUNT", "INT",
];
/// recursive productions of the statement grammar that no token pair can express (found by reading parser.rs)
const HAND_UNITS: [&str; 14] = [
    "SELECT * FROM (",
    "SELECT EXISTS ( SELECT",
    "x IN ( SELECT",
    "SELECT x IN ( SELECT",
    "CASE WHEN",
    "CASE x WHEN x THEN",
    "CAST (",
    "COUNT ( DISTINCT",
    "x ( x ,",
    "( x ,",
    "[ x ,",
    "x BETWEEN",
    "x LIKE",
    "x . x",
];
const BYTE_CTX: [&str; 12] = ["", "'", "\"", "x", "1", "1.", "1e", "-", "/", "/*", "SELECT ", "SELECT '"];
const TOK_CTX: [&str; 2] = ["", "SELECT "];
const DEEP_CTX: [&str; 3] = ["", "SELECT ", "SELECT * FROM t WHERE "];

struct Streams {
    alpha: Vec<String>,
    thorough: bool,
}
impl Streams {
    fn new(thorough: bool) -> Streams {
        let mut alpha: Vec<String> = vec![];
        alpha.extend(LITS.iter().map(|s| s.to_string()));
        alpha.extend(PUNCT.iter().map(|s| s.to_string()));
        alpha.extend(keywords());
        Streams { alpha, thorough }
    }
    fn byte_len(&self) -> u32 {
        if self.thorough { 3 } else { 2 }
    }
    fn tok_len(&self) -> u32 {
        if self.thorough { 3 } else { 2 }
    }
    /// stream 4: every unit at moderate repetition counts; stream 5: the narrow unit set at 10^5
    fn deep_levels(&self, stream: u32) -> Vec<usize> {
        if stream == 5 {
            vec![100_000]
        } else if self.thorough {
            vec![10, 100, 1_000, 10_000]
        } else {
            vec![1_000]
        }
    }
    fn deep_units(&self, stream: u32) -> usize {
        let m = self.alpha.len();
        let r = REDUCED.len();
        if stream == 5 {
            m + HAND_UNITS.len() + if self.thorough { r * r } else { 0 }
        } else {
            m + m * m + HAND_UNITS.len() + if self.thorough { r * r * r } else { 0 }
        }
    }
    fn case_n(&self, stream: u32, idx: u64) -> usize {
        let lv = self.deep_levels(stream);
        lv[(idx % lv.len() as u64) as usize]
    }
    fn case_unit(&self, stream: u32, idx: u64) -> String {
        let u = (idx / self.deep_levels(stream).len() as u64) as usize;
        if stream == 5 {
            let m = self.alpha.len();
            let r = REDUCED.len();
            if u < m {
                self.alpha[u].clone()
            } else if u < m + HAND_UNITS.len() {
                HAND_UNITS[u - m].to_string()
            } else {
                let k = u - m - HAND_UNITS.len();
                format!("{} {}", REDUCED[k / r], REDUCED[k % r])
            }
        } else {
            self.unit(u)
        }
    }
    fn count(&self, stream: u32) -> u64 {
        fn upto(m: u64, k: u32) -> u64 {
            (0..=k).map(|i| m.pow(i)).sum()
        }
        match stream {
            1 => upto(256, self.byte_len()),
            2 => upto(self.alpha.len() as u64, self.tok_len()),
            3 => (REDUCED.len() as u64).pow(if self.thorough { 4 } else { 3 }),
            4 | 5 => (self.deep_units(stream) * self.deep_levels(stream).len()) as u64,
            _ => 0,
        }
    }
    fn contexts(&self, stream: u32) -> &'static [&'static str] {
        match stream {
            1 => &BYTE_CTX,
            4 | 5 => &DEEP_CTX,
            _ => &TOK_CTX,
        }
    }
    fn decode_seq(mut idx: u64, m: u64) -> Vec<usize> {
        // idx 0 = empty, then all of length 1, ...
        let mut len = 0u32;
        loop {
            let c = m.pow(len);
            if idx < c {
                break;
            }
            idx -= c;
            len += 1;
        }
        let mut v = vec![0usize; len as usize];
        for i in (0..len as usize).rev() {
            v[i] = (idx % m) as usize;
            idx /= m;
        }
        v
    }
    fn unit(&self, u: usize) -> String {
        let m = self.alpha.len();
        if u < m {
            self.alpha[u].clone()
        } else if u < m + m * m {
            let k = u - m;
            format!("{} {}", self.alpha[k / m], self.alpha[k % m])
        } else if u < m + m * m + HAND_UNITS.len() {
            HAND_UNITS[u - m - m * m].to_string()
        } else {
            let k = u - m - m * m - HAND_UNITS.len();
            let r = REDUCED.len();
            format!("{} {} {}", REDUCED[k / (r * r)], REDUCED[k / r % r], REDUCED[k % r])
        }
    }
    /// body of case `idx` (without context); None = not representable as &str
    fn body(&self, stream: u32, idx: u64, n_override: Option<usize>) -> Option<String> {
        match stream {
            1 => {
                let b: Vec<u8> = Self::decode_seq(idx, 256).into_iter().map(|x| x as u8).collect();
                String::from_utf8(b).ok()
            }
            2 => Some(Self::decode_seq(idx, self.alpha.len() as u64).into_iter().map(|i| self.alpha[i].as_str()).collect::<Vec<_>>().join(" ")),
            3 => {
                let k = if self.thorough { 4 } else { 3 };
                let mut v = vec![];
                let mut x = idx;
                for _ in 0..k {
                    v.push(REDUCED[(x % REDUCED.len() as u64) as usize]);
                    x /= REDUCED.len() as u64;
                }
                v.reverse();
                Some(v.join(" "))
            }
            4 | 5 => {
                let n = n_override.unwrap_or(self.case_n(stream, idx));
                let unit = self.case_unit(stream, idx);
                let mut s = String::with_capacity((unit.len() + 1) * n);
                for i in 0..n {
                    if i > 0 {
                        s.push(' ');
                    }
                    s.push_str(&unit);
                }
                Some(s)
            }
            _ => None,
        }
    }
    fn describe(&self, stream: u32, idx: u64, ctx: usize, n_override: Option<usize>) -> J {
        let c = self.contexts(stream)[ctx];
        if stream >= 4 {
            let n = n_override.unwrap_or(self.case_n(stream, idx));
            let unit = self.case_unit(stream, idx);
            json!({"stream":"deep-periodic","context":c,"unit":unit,"repetitions":n,"input_bytes": c.len() + (unit.len()+1)*n - 1,
                   "input": format!("{c:?} + [{unit:?}; {n}].join(\" \")")})
        } else {
            let b = self.body(stream, idx, None).unwrap_or_default();
            let sname = ["", "bytes", "token-seq", "reduced-token-seq"][stream as usize];
            json!({"stream": sname, "context": c, "input": format!("{c}{b}"), "input_debug": format!("{:?}", format!("{c}{b}"))})
        }
    }
}

thread_local! { static LAST_PANIC: std::cell::RefCell<Option<String>> = const { std::cell::RefCell::new(None) }; }
fn install_quiet_hook() {
    std::panic::set_hook(Box::new(|info| {
        let loc = info.location().map(|l| format!("{}:{}", l.file().rsplit("/repo/").next().unwrap_or(l.file()), l.line())).unwrap_or_default();
        let msg = info.payload().downcast_ref::<&str>().map(|s| s.to_string()).or_else(|| info.payload().downcast_ref::<String>().cloned()).unwrap_or_default();
        LAST_PANIC.with(|c| *c.borrow_mut() = Some(format!("{loc}|{msg}")));
    }));
}
fn take_panic() -> String {
    LAST_PANIC.with(|c| c.borrow_mut().take()).unwrap_or_else(|| "?|?".into())
}

/// outcome of one API call: (is_ok, shallow summary used for the determinism comparison, findings)
struct CallOut {
    ok: bool,
    summary: String,
    findings: Vec<(String, String)>, // (signature, message)
}
fn check_err(api: &str, src: &str, e: &np::ParseError, f: &mut Vec<(String, String)>) -> String {
    let (s, t) = (e.span.start.0 as usize, e.span.end.0 as usize);
    if !(s <= t && t <= src.len()) {
        f.push((format!("c15:error-span-outside-input:{api}"), format!("error span {s}..{t} not inside input of {} bytes: {e}", src.len())));
    }
    // execute_parsed renders every parse error with format_with_source: it must not panic either
    if catch_unwind(AssertUnwindSafe(|| e.format_with_source(src))).is_err() {
        let p = take_panic();
        f.push((format!("c15:panic:format_with_source:{}", p.split('|').next().unwrap_or("?")), format!("ParseError::format_with_source panicked ({p}) for error {e:?}")));
    }
    format!("Err {:?} {}..{}", e.kind, s, t)
}
/// `deep`: do not walk the result recursively in the harness (only the parser's own code and Drop may recurse)
fn call_api(api: usize, src: &str, deep: bool, slot: Option<&Slot>) -> CallOut {
    let mut f = vec![];
    let phase = |p: u64| {
        if let Some(s) = slot {
            s.set(S_PHASE, p)
        }
    };
    phase(1);
    let r = catch_unwind(AssertUnwindSafe(|| -> (bool, String) {
        match api {
            0 => {
                let t = np::tokenize(src);
                let mut bad = None;
                for k in &t {
                    if !(k.span.start.0 <= k.span.end.0 && k.span.end.0 as usize <= src.len()) {
                        bad = Some(format!("{k:?}"));
                    }
                }
                let last_eof = t.last().is_some_and(|k| k.is_eof());
                let s = if deep { format!("{} tokens", t.len()) } else { format!("{t:?}") };
                (bad.is_none() && last_eof, if let Some(b) = bad { format!("BADSPAN {b}") } else if !last_eof { "NOEOF".into() } else { s })
            }
            1 => match np::parse(src) {
                Ok(st) => {
                    let s = if deep { format!("Ok {:?}", st.span) } else { format!("Ok {st:?}") };
                    phase(2);
                    drop(st);
                    (true, s)
                }
                Err(e) => (false, format!("E{}", { let mut ff = vec![]; let s = check_err(APIS[api], src, &e, &mut ff); ff.into_iter().map(|(a, b)| format!("\u{1}{a}\u{2}{b}")).collect::<String>() + "\u{3}" + &s })),
            },
            2 => match np::parse_all(src) {
                Ok(st) => {
                    let s = if deep { format!("Ok {} stmts", st.len()) } else { format!("Ok {st:?}") };
                    phase(2);
                    drop(st);
                    (true, s)
                }
                Err(e) => (false, format!("E{}", { let mut ff = vec![]; let s = check_err(APIS[api], src, &e, &mut ff); ff.into_iter().map(|(a, b)| format!("\u{1}{a}\u{2}{b}")).collect::<String>() + "\u{3}" + &s })),
            },
            _ => match np::parse_expr(src) {
                Ok(e) => {
                    let s = if deep { format!("Ok {:?}", e.span) } else { format!("Ok {e:?}") };
                    phase(2);
                    drop(e);
                    (true, s)
                }
                Err(e) => (false, format!("E{}", { let mut ff = vec![]; let s = check_err(APIS[api], src, &e, &mut ff); ff.into_iter().map(|(a, b)| format!("\u{1}{a}\u{2}{b}")).collect::<String>() + "\u{3}" + &s })),
            },
        }
    }));
    phase(0);
    match r {
        Ok((ok, s)) => {
            let mut summary = s.clone();
            if let Some(rest) = s.strip_prefix('E') {
                // unpack findings smuggled out of the closure
                let (fs, sum) = rest.split_once('\u{3}').unwrap_or(("", rest));
                for item in fs.split('\u{1}').filter(|x| !x.is_empty()) {
                    if let Some((a, b)) = item.split_once('\u{2}') {
                        f.push((a.to_string(), b.to_string()));
                    }
                }
                summary = sum.to_string();
            }
            if api == 0 && !ok {
                f.push(("c15:tokenize-span-or-eof".into(), format!("tokenize produced a token outside the input or no final Eof: {summary}")));
            }
            CallOut { ok, summary, findings: f }
        }
        Err(_) => {
            let p = take_panic();
            f.push((format!("c15:panic:{}:{}", APIS[api], p.split('|').next().unwrap_or("?")), format!("{} panicked: {p}", APIS[api])));
            CallOut { ok: false, summary: format!("PANIC {p}"), findings: f }
        }
    }
}

fn worker_loop(st: &Streams, stream: u32, first: u64, end: u64, resume: Option<(u64, u64)>, slot: &Slot, disp: &Slot, selftest: bool) {
    const HEAD: usize = 32;
    let total = st.count(stream);
    let chunk: u64 = match stream {
        1..=3 => 256,
        4 => 8,
        _ => 1,
    };
    let ctxs = st.contexts(stream);
    let deep = stream >= 4;
    let mut viol_printed = 0;
    // after a crash the worker is restarted at the same case, just past the call that died
    let mut resume = resume;
    let (mut idx, mut end) = (first, end);
    loop {
        if idx >= end {
            // claim the next chunk from the shared dispenser
            let c = disp.a(0).fetch_add(chunk, Ordering::Relaxed);
            if c >= total {
                break;
            }
            idx = c;
            end = (c + chunk).min(total);
        }
        slot.set(S_CHUNK_END, end);
        slot.set(S_IDX, idx);
        if resume.is_none() {
            slot.add(C_CASES, 1);
        }
        match st.body(stream, idx, None) {
            None => slot.add(C_SKIP, 1),
            Some(body) => {
                // one buffer: [headroom for the context][body]
                let mut buf = vec![b' '; HEAD];
                buf.extend_from_slice(body.as_bytes());
                drop(body);
                for (ci, c) in ctxs.iter().enumerate() {
                    if resume.is_some_and(|(rc, _)| (ci as u64) < rc) {
                        continue;
                    }
                    let from = HEAD - c.len();
                    buf[from..HEAD].copy_from_slice(c.as_bytes());
                    let src = std::str::from_utf8(&buf[from..]).expect("context + body is UTF-8");
                    slot.set(S_CTX, ci as u64);
                    slot.add(C_BYTES, src.len() as u64);
                    slot.max(C_MAXLEN, src.len() as u64);
                    for api in 0..4usize {
                        if resume.is_some_and(|(rc, ra)| ci as u64 == rc && (api as u64) < ra) {
                            continue;
                        }
                        if deep && api == 0 && ci != 0 {
                            continue; // tokenizing the same body again adds nothing
                        }
                        if (stream == 2 || stream == 3) && ci == 1 && (api == 0 || api == 3) {
                            continue; // "SELECT ..." is never an expression, and its tokens were seen without the prefix
                        }
                        slot.set(S_API, api as u64);
                        slot.add(S_SEQ, 1);
                        let t_call = Instant::now();
                        let a = call_api(api, src, deep, Some(slot));
                        let us = t_call.elapsed().as_micros() as u64;
                        if us > slot.get(C_MAXUS) {
                            slot.set(C_MAXUS, us);
                            slot.set(C_MAXUS_IDX, idx);
                            slot.set(C_MAXUS_CTX, ci as u64);
                            slot.set(C_MAXUS_API, api as u64);
                        }
                        let b = call_api(api, src, deep, Some(slot));
                        slot.add(C_CALLS, 2);
                        slot.add(if a.ok { C_OK } else { C_ERR } + api, 1);
                        let mut findings = a.findings;
                        if a.summary != b.summary {
                            findings.push((format!("c15:nondeterministic-parse:{}", APIS[api]), format!("first call: {} second call: {}", a.summary, b.summary)));
                        }
                        if selftest && stream == 2 && src == "SELECT" && api == 1 {
                            findings.push(("c15:selftest:injected".into(), "selftest: injected finding for input SELECT".into()));
                        }
                        for (sig, msg) in findings {
                            if viol_printed < 200 {
                                viol_printed += 1;
                                println!("@@VIOL {}", json!({"signature": sig, "message": msg, "case": st.describe(stream, idx, ci, None), "api": APIS[api], "stream": stream, "idx": idx, "ctx": ci}));
                            }
                        }
                    }
                }
            }
        }
        resume = None;
        idx += 1;
    }
    slot.set(S_DONE, 1);
}

fn parse_spec<T: std::str::FromStr>(s: &str) -> Vec<T> {
    s.split(':').filter_map(|x| x.parse().ok()).collect()
}

fn worker_main(rep: &Report, spec: &str) -> ! {
    // --c15w=<stream>:<first>:<end>:<resume ctx>:<resume api>:<resumed 0|1> --c15slot=<path> --c15disp=<path>
    let v: Vec<u64> = parse_spec(spec);
    let slotpath = rep.args.flag("c15slot").expect("slot path");
    let disppath = rep.args.flag("c15disp").expect("dispenser path");
    unsafe {
        let z = libc::rlimit { rlim_cur: 0, rlim_max: 0 };
        libc::setrlimit(libc::RLIMIT_CORE, &z);
    }
    let thorough = rep.thorough();
    let selftest = rep.args.rest.iter().any(|a| a == "--selftest");
    install_quiet_hook();
    let h = std::thread::Builder::new()
        .stack_size(STACK_BYTES)
        .name("c15-case".into())
        .spawn(move || {
            let st = Streams::new(thorough);
            let slot = Slot::open(&slotpath);
            let disp = Slot::open(&disppath);
            worker_loop(&st, v[0] as u32, v[1], v[2], if v[5] == 1 { Some((v[3], v[4])) } else { None }, &slot, &disp, selftest);
        })
        .unwrap();
    let ok = h.join().is_ok();
    std::process::exit(if ok { 0 } else { 3 });
}

fn one_main(rep: &Report, spec: &str) -> ! {
    // --c15one=<stream>:<idx>:<ctx>:<api> [--c15n=<n>] [--c15stack=<bytes>]
    let v: Vec<u64> = parse_spec(spec);
    let n: Option<usize> = rep.args.flag("c15n").and_then(|s| s.parse().ok());
    let stack: usize = rep.args.flag("c15stack").and_then(|s| s.parse().ok()).unwrap_or(STACK_BYTES);
    unsafe {
        let z = libc::rlimit { rlim_cur: 0, rlim_max: 0 };
        libc::setrlimit(libc::RLIMIT_CORE, &z);
    }
    let thorough = rep.thorough();
    install_quiet_hook();
    let h = std::thread::Builder::new()
        .stack_size(stack)
        .name("c15-case".into())
        .spawn(move || {
            let st = Streams::new(thorough);
            let body = st.body(v[0] as u32, v[1], n).expect("body");
            let c = st.contexts(v[0] as u32)[v[2] as usize];
            let src = format!("{c}{body}");
            let t0 = Instant::now();
            println!("@@PHASE parse bytes={}", src.len());
            let out = call_api(v[3] as usize, &src, v[0] >= 4, None);
            println!("@@ONE {}", json!({"ok": out.ok, "summary": out.summary.chars().take(300).collect::<String>(), "ms": t0.elapsed().as_millis() as u64, "findings": out.findings.len(), "bytes": src.len()}));
        })
        .unwrap();
    let ok = h.join().is_ok();
    std::process::exit(if ok { 0 } else { 3 });
}

#[derive(Debug)]
enum OneResult {
    Completed { ms: u64, line: String },
    #[allow(dead_code)]
    Crashed { signal: i32, stack_overflow: bool, stderr_tail: String },
    TimedOut,
}
fn run_one(tier: &str, stream: u32, idx: u64, ctx: u64, api: u64, n: Option<usize>, stack: usize, limit: Duration) -> OneResult {
    use std::os::unix::process::ExitStatusExt;
    let exe = std::env::current_exe().unwrap();
    let dir = nvc::env::scratch_root();
    let tag = format!("{}/one-{}-{}-{}-{}-{}-{}", dir, stream, idx, ctx, api, n.unwrap_or(0), stack);
    let (o, e) = (std::fs::File::create(format!("{tag}.out")).unwrap(), std::fs::File::create(format!("{tag}.err")).unwrap());
    let mut c = std::process::Command::new(exe);
    c.arg("--tier").arg(tier).arg(format!("--c15one={stream}:{idx}:{ctx}:{api}")).arg(format!("--c15stack={stack}"));
    if let Some(n) = n {
        c.arg(format!("--c15n={n}"));
    }
    let mut k = c.stdout(o).stderr(e).spawn().expect("spawn one");
    let t0 = Instant::now();
    let status = loop {
        if let Some(s) = k.try_wait().unwrap() {
            break Some(s);
        }
        if t0.elapsed() > limit {
            let _ = k.kill();
            let _ = k.wait();
            break None;
        }
        std::thread::sleep(Duration::from_millis(2));
    };
    let out = std::fs::read_to_string(format!("{tag}.out")).unwrap_or_default();
    let err = std::fs::read_to_string(format!("{tag}.err")).unwrap_or_default();
    let _ = std::fs::remove_file(format!("{tag}.out"));
    let _ = std::fs::remove_file(format!("{tag}.err"));
    match status {
        None => OneResult::TimedOut,
        Some(s) => {
            if let Some(sig) = s.signal() {
                OneResult::Crashed { signal: sig, stack_overflow: err.contains("overflowed its stack"), stderr_tail: err.lines().rev().take(3).collect::<Vec<_>>().join(" / ") }
            } else if let Some(l) = out.lines().find(|l| l.starts_with("@@ONE ")) {
                let j: J = serde_json::from_str(&l[6..]).unwrap_or(J::Null);
                OneResult::Completed { ms: j["ms"].as_u64().unwrap_or(0), line: l[6..].to_string() }
            } else {
                OneResult::Crashed { signal: -(s.code().unwrap_or(-1)), stack_overflow: false, stderr_tail: err.lines().rev().take(3).collect::<Vec<_>>().join(" / ") }
            }
        }
    }
}

#[derive(Default)]
struct BTotals {
    slowest: (u64, u64, u64, u64),
    cases: u64,
    calls: u64,
    ok: [u64; 4],
    err: [u64; 4],
    skipped: u64,
    bytes: u64,
    maxlen: u64,
    crashes: u64,
    hangs: u64,
    restarts: u64,
    retries: u64,
}

struct Crash {
    stream: u32,
    idx: u64,
    ctx: u64,
    api: u64,
    phase: u64,
}

/// run one stream over `wn` worker processes; returns totals, in-process findings, crashes, suspected hangs
fn run_stream(tier: &str, selftest: bool, stream: u32, _total: u64, wn: u64, tot: &mut BTotals, viols: &mut Vec<J>, crashes: &mut Vec<Crash>, hangs: &mut Vec<Crash>) {
    let exe = std::env::current_exe().unwrap();
    let dir = nvc::env::scratch_root();
    struct W {
        child: std::process::Child,
        slot: Slot,
        last_seq: u64,
        last_change: Instant,
        gen: u32,
        done: bool,
        retried: Option<(u64, u64, u64)>,
    }
    let disp_path = format!("{dir}/s{stream}.disp");
    let _ = std::fs::remove_file(&disp_path);
    let _disp = Slot::open(&disp_path);
    let spawn = |i: u64, first: u64, end: u64, resume: Option<(u64, u64)>, gen: u32| -> std::process::Child {
        let tag = format!("{dir}/s{stream}-w{i}");
        let o = std::fs::OpenOptions::new().create(true).append(true).open(format!("{tag}.out")).unwrap();
        let e = std::fs::OpenOptions::new().create(true).append(true).open(format!("{tag}.err.{gen}")).unwrap();
        let mut c = std::process::Command::new(&exe);
        c.arg("--tier").arg(tier).arg(format!("--c15w={stream}:{first}:{end}:{}:{}:{}", resume.map_or(0, |r| r.0), resume.map_or(0, |r| r.1), u8::from(resume.is_some()))).arg(format!("--c15slot={tag}.slot")).arg(format!("--c15disp={disp_path}"));
        if selftest {
            c.arg("--selftest");
        }
        c.stdout(o).stderr(e).spawn().expect("spawn worker")
    };
    let mut ws: Vec<W> = vec![];
    for i in 0..wn {
        let tag = format!("{dir}/s{stream}-w{i}");
        let _ = std::fs::remove_file(format!("{tag}.slot"));
        let _ = std::fs::remove_file(format!("{tag}.out"));
        let slot = Slot::open(&format!("{tag}.slot"));
        let child = spawn(i, 0, 0, None, 0);
        ws.push(W { child, slot, last_seq: 0, last_change: Instant::now(), gen: 0, done: false, retried: None });
    }
    let suspicion = Duration::from_secs(if stream >= 4 { 12 } else { 8 });
    loop {
        let mut live = 0;
        for (i, w) in ws.iter_mut().enumerate() {
            if w.done {
                continue;
            }
            live += 1;
            let seq = w.slot.get(S_SEQ);
            if seq != w.last_seq {
                w.last_seq = seq;
                w.last_change = Instant::now();
            }
            let cur = Crash { stream, idx: w.slot.get(S_IDX), ctx: w.slot.get(S_CTX), api: w.slot.get(S_API), phase: w.slot.get(S_PHASE) };
            match w.child.try_wait().unwrap() {
                Some(s) if s.success() && w.slot.get(S_DONE) == 1 => {
                    w.done = true;
                }
                Some(_) => {
                    // died: the slot names the case in flight
                    tot.crashes += 1;
                    if tot.crashes > 20_000 {
                        eprintln!("MACHINERY more than 20000 worker crashes in stream {stream}");
                        std::process::exit(2);
                    }
                    let (at, resume, end) = (cur.idx, Some((cur.ctx, cur.api + 1)), w.slot.get(S_CHUNK_END));
                    crashes.push(cur);
                    w.gen += 1;
                    tot.restarts += 1;
                    w.child = spawn(i as u64, at, end, resume, w.gen);
                    w.last_change = Instant::now();
                }
                None => {
                    if w.last_change.elapsed() > suspicion {
                        let _ = w.child.kill();
                        let _ = w.child.wait();
                        let key = (cur.idx, cur.ctx, cur.api);
                        let end = w.slot.get(S_CHUNK_END);
                        w.gen += 1;
                        tot.restarts += 1;
                        if w.retried != Some(key) {
                            // first time: most likely the process was descheduled (shared machine); run the same call again
                            w.retried = Some(key);
                            tot.retries += 1;
                            w.child = spawn(i as u64, cur.idx, end, Some((cur.ctx, cur.api)), w.gen);
                        } else {
                            tot.hangs += 1;
                            let resume = Some((cur.ctx, cur.api + 1));
                            let at = cur.idx;
                            hangs.push(cur);
                            w.child = spawn(i as u64, at, end, resume, w.gen);
                        }
                        w.last_change = Instant::now();
                    }
                }
            }
        }
        if live == 0 {
            break;
        }
        std::thread::sleep(Duration::from_millis(5));
    }
    for (i, w) in ws.iter().enumerate() {
        tot.cases += w.slot.get(C_CASES);
        tot.calls += w.slot.get(C_CALLS);
        for a in 0..4 {
            tot.ok[a] += w.slot.get(C_OK + a);
            tot.err[a] += w.slot.get(C_ERR + a);
        }
        tot.skipped += w.slot.get(C_SKIP);
        tot.bytes += w.slot.get(C_BYTES);
        tot.maxlen = tot.maxlen.max(w.slot.get(C_MAXLEN));
        if w.slot.get(C_MAXUS) > tot.slowest.0 {
            tot.slowest = (w.slot.get(C_MAXUS), w.slot.get(C_MAXUS_IDX), w.slot.get(C_MAXUS_CTX), w.slot.get(C_MAXUS_API));
        }
        let out = std::fs::read_to_string(format!("{dir}/s{stream}-w{i}.out")).unwrap_or_default();
        for l in out.lines() {
            if let Some(j) = l.strip_prefix("@@VIOL ") {
                if let Ok(v) = serde_json::from_str::<J>(j) {
                    viols.push(v);
                }
            }
        }
    }
}

fn recursion_class(unit: &str) -> &'static str {
    let toks: Vec<&str> = unit.split(' ').collect();
    if toks.iter().any(|t| *t == "SELECT") {
        "subquery-nesting"
    } else if toks.iter().any(|t| ["(", "[", "-", "NOT", "!", "~", "CASE", "CAST", "WHEN", "THEN", "ELSE", "BETWEEN", "LIKE"].contains(t)) {
        "expression-nesting"
    } else {
        "other"
    }
}

fn part_b(rep: &mut Report, thorough: bool, selftest: bool) -> (u64, u64, u64) {
    let tier = if thorough { "thorough" } else { "quick" };
    let st = Streams::new(thorough);
    if st.alpha.len() < 200 {
        rep.machinery(format!("token alphabet extraction found only {} tokens", st.alpha.len()));
    }
    let wn = nvc::par::worker_count() as u64;
    let mut grand = (0u64, 0u64, 0u64);
    let mut distinct_ok = 0u64;
    for stream in 1..=5u32 {
        let total = st.count(stream);
        let mut tot = BTotals::default();
        let (mut viols, mut crashes, mut hangs) = (vec![], vec![], vec![]);
        let t0 = Instant::now();
        run_stream(tier, selftest, stream, total, wn, &mut tot, &mut viols, &mut crashes, &mut hangs);
        let t_run = t0.elapsed().as_secs_f64();
        for v in &viols {
            rep.violation(v["signature"].as_str().unwrap_or("c15:?"), v["message"].as_str().unwrap_or(""), json!({"part":"B","case": v["case"], "api": v["api"], "repro": format!("neumann_parser::{}(<input>)", v["api"].as_str().unwrap_or("?")),
                   "locator": {"tier": tier, "stream": v["stream"], "idx": v["idx"], "ctx": v["ctx"], "api": APIS.iter().position(|a| Some(*a) == v["api"].as_str()).unwrap_or(1)}}));
        }
        // crashes: confirm each in an isolated subprocess, classify, find the minimal n for the first few
        let mut unconfirmed = 0u64;
        // simplest first: shortest unit, then context, then api
        crashes.sort_by_key(|c| (if c.stream >= 4 { st.case_unit(c.stream, c.idx).len() } else { 0 }, c.ctx, c.api, c.idx));
        let confirmations: Vec<OneResult> = crashes.par_iter().map(|c| run_one(tier, c.stream, c.idx, c.ctx, c.api, None, STACK_BYTES, Duration::from_secs(60))).collect();
        let t_confirm = t0.elapsed().as_secs_f64();
        let mut confirmed: Vec<(String, J, &Crash, bool)> = vec![]; // (signature, detail, crash, bisect?)
        let mut per_sig: BTreeMap<String, u32> = BTreeMap::new();
        for (c, r) in crashes.iter().zip(confirmations) {
            let OneResult::Crashed { signal, stack_overflow, stderr_tail } = r else {
                unconfirmed += 1;
                continue;
            };
            let desc = st.describe(c.stream, c.idx, c.ctx as usize, None);
            let phase = if c.phase == 2 { "dropping the parse result" } else { "parsing" };
            let kind = if stack_overflow { "stack-overflow" } else { "abort" };
            let class = if c.stream >= 4 { recursion_class(desc["unit"].as_str().unwrap_or("")) } else { "short-input" };
            // parse and parse_all are the same statement parser: one root cause, one signature
            let comp = ["lexer", "stmt-parser", "stmt-parser", "expr-parser"][c.api as usize];
            let sig = if c.phase == 2 { format!("c15:{kind}:drop-of-deep-ast:{comp}") } else { format!("c15:{kind}:{comp}:{class}") };
            let detail = json!({"part":"B","case": desc, "api": APIS[c.api as usize], "during": phase, "signal": signal, "thread_stack_bytes": STACK_BYTES, "stderr": stderr_tail,
                                "locator": {"tier": tier, "stream": c.stream, "idx": c.idx, "ctx": c.ctx, "api": c.api}});
            let nb = per_sig.entry(sig.clone()).or_insert(0);
            *nb += 1;
            confirmed.push((sig, detail, c, c.stream >= 4 && *nb <= 3));
        }
        // minimal repetition count for the three simplest crashes of each signature (in parallel)
        let mins: Vec<Option<(usize, usize)>> = confirmed
            .par_iter()
            .map(|(_, _, c, bisect)| {
                if !*bisect {
                    return None;
                }
                let min_for = |stack: usize, hi0: usize| -> usize {
                    // smallest n that crashes (crash assumed monotone in n)
                    let (mut lo, mut hi) = (0usize, hi0);
                    while hi - lo > 1 {
                        let mid = (lo + hi) / 2;
                        match run_one(tier, c.stream, c.idx, c.ctx, c.api, Some(mid), stack, Duration::from_secs(30)) {
                            OneResult::Crashed { .. } => hi = mid,
                            _ => lo = mid,
                        }
                    }
                    hi
                };
                let n8 = min_for(STACK_BYTES, st.case_n(c.stream, c.idx));
                let n2 = min_for(2 << 20, n8);
                Some((n8, n2))
            })
            .collect();
        let t_bisect = t0.elapsed().as_secs_f64();
        let mut by_sig: BTreeMap<String, Vec<J>> = BTreeMap::new();
        for ((sig, mut detail, c, _), m) in confirmed.into_iter().zip(mins) {
            if let Some((n8, n2)) = m {
                let unit = detail["case"]["unit"].as_str().unwrap_or("").to_string();
                let ctxs = st.contexts(c.stream)[c.ctx as usize];
                detail["locator"]["n"] = json!(n8);
                detail["minimal_repetitions_8MiB_stack"] = json!(n8);
                detail["minimal_input_bytes_8MiB_stack"] = json!(ctxs.len() + (unit.len() + 1) * n8 - 1);
                detail["minimal_repetitions_2MiB_stack"] = json!(n2);
                detail["minimal_input_bytes_2MiB_stack"] = json!(ctxs.len() + (unit.len() + 1) * n2 - 1);
                detail["repro"] = json!(format!("let s = format!(\"{{}}{{}}\", {ctxs:?}, vec![{unit:?}; {n8}].join(\" \")); std::thread::Builder::new().stack_size(8<<20).spawn(move || {{ let _ = neumann_parser::{}(&s); }}).unwrap().join();", APIS[c.api as usize]));
            }
            by_sig.entry(sig).or_default().push(detail);
        }
        for (sig, list) in &by_sig {
            for d in list {
                let msg = format!(
                    "{} {} while {}: input {} ({} bytes){}",
                    d["api"].as_str().unwrap_or(""),
                    if sig.contains("stack-overflow") { "overflowed the stack (process aborted)" } else { "aborted the process" },
                    d["during"].as_str().unwrap_or(""),
                    d["case"]["input"].as_str().unwrap_or(""),
                    d["case"]["input_bytes"],
                    if d.get("minimal_input_bytes_8MiB_stack").is_some() { format!("; smallest crashing input: {} bytes on an 8 MiB stack, {} bytes on a 2 MiB stack", d["minimal_input_bytes_8MiB_stack"], d["minimal_input_bytes_2MiB_stack"]) } else { String::new() }
                );
                rep.violation(sig.clone(), msg, d.clone());
            }
        }
        if unconfirmed > 0 {
            rep.machinery(format!("stream {stream}: {unconfirmed} worker crashes were not reproducible in isolation"));
        }
        // suspected hangs: confirm with a 10 s limit in isolation
        let mut false_hangs = 0u64;
        for h in &hangs {
            // wall-clock limit far above anything machine load can explain (slowest legitimate call: < 1 s)
            match run_one(tier, h.stream, h.idx, h.ctx, h.api, None, STACK_BYTES, Duration::from_secs(120)) {
                OneResult::TimedOut => rep.violation(
                    format!("c15:hang:{}", APIS[h.api as usize]),
                    format!("{} did not return within 120 s when run alone", APIS[h.api as usize]),
                    json!({"part":"B","case": st.describe(h.stream, h.idx, h.ctx as usize, None), "api": APIS[h.api as usize]}),
                ),
                OneResult::Crashed { .. } => {
                    // it was on its way to a crash; count it as such
                    rep.violation(format!("c15:abort:{}:slow", APIS[h.api as usize]), "crash (after > 4 s)", json!({"part":"B","case": st.describe(h.stream, h.idx, h.ctx as usize, None)}));
                }
                _ => false_hangs += 1,
            }
        }
        if false_hangs > 0 {
            rep.capped(&format!("stream {stream}: {false_hangs} calls were killed after making no progress for several seconds but ran to completion when repeated alone (machine load); those calls are not counted"));
        }
        let crash_sigs: BTreeMap<&String, usize> = by_sig.iter().map(|(k, v)| (k, v.len())).collect();
        let crash_units: Vec<String> = by_sig.values().flatten().filter_map(|d| d["case"]["unit"].as_str().map(|u| format!("{}{}", d["case"]["context"].as_str().unwrap_or(""), u))).collect::<BTreeSet<_>>().into_iter().take(400).collect();
        rep.part(
            &format!("B_stream{stream}_{}", ["", "bytes", "token_seqs", "reduced_token_seqs", "periodic_all_units", "periodic_1e5"][stream as usize]),
            json!({
                "cases": tot.cases, "contexts": st.contexts(stream), "api_calls": tot.calls, "not_valid_utf8_skipped": tot.skipped,
                "ok": {"tokenize": tot.ok[0], "parse": tot.ok[1], "parse_all": tot.ok[2], "parse_expr": tot.ok[3]},
                "err": {"tokenize": tot.err[0], "parse": tot.err[1], "parse_all": tot.err[2], "parse_expr": tot.err[3]},
                "input_bytes_total": tot.bytes, "longest_input_bytes": tot.maxlen,
                "slowest_call": {"microseconds": tot.slowest.0, "api": APIS[tot.slowest.3 as usize], "case": st.describe(stream, tot.slowest.1, tot.slowest.2 as usize, None)},
                "worker_crashes": tot.crashes, "crashes_by_signature": crash_sigs, "crashing_inputs(context+unit)": crash_units,
                "calls_repeated_after_a_stall": tot.retries, "suspected_hangs": tot.hangs, "hangs_not_confirmed": false_hangs, "worker_restarts": tot.restarts,
                "in_process_findings": viols.len(), "wall_s": t0.elapsed().as_secs_f64(), "wall_enumeration_s": t_run, "wall_crash_confirmation_s": t_confirm - t_run, "wall_crash_minimisation_s": t_bisect - t_confirm,
                "bounds": match stream { 1 => json!({"max_len": st.byte_len()}), 2 => json!({"alphabet": st.alpha.len(), "max_len": st.tok_len()}), 3 => json!({"alphabet": REDUCED.len(), "len": if thorough {4} else {3}}), _ => json!({"units": st.deep_units(stream), "repetitions": st.deep_levels(stream), "thread_stack_bytes": STACK_BYTES}) },
            }),
        );
        if tot.cases != total {
            rep.machinery(format!("stream {stream}: {} of {} cases accounted for", tot.cases, total));
        }
        grand.0 += tot.cases;
        grand.1 += tot.calls;
        distinct_ok += tot.ok[1] + tot.ok[3];
        grand.2 += tot.ok[1] + tot.ok[3];
        if stream == 2 {
            rep.sample(json!({"part":"B","stream":"token-seq","example": st.describe(2, total - 7, 1, None)}));
        }
        if stream == 4 {
            rep.sample(json!({"part":"B","stream":"deep","example": st.describe(4, (st.alpha.len() as u64 + 5) * st.deep_levels(4).len() as u64, 1, None)}));
        }
    }
    if distinct_ok < 100 {
        rep.machinery("vacuous part B: almost nothing parsed successfully");
    }
    grand
}


// =====================================================================================================
// Part C — text = API
// =====================================================================================================

use graph_engine::{Direction, GraphError, PropertyValue};
use query_router::{QueryResult, QueryRouter};
use relational_engine::{Column, ColumnType, Condition, Row, Schema, Value};
use vector_engine::DistanceMetric;

/// a literal of the query language: text as written in a statement, tag naming its shape
#[derive(Clone, Debug)]
enum Lit {
    Int(i64),
    Float(f64),
    Str(String),
    Bool(bool),
    Null,
}
impl Lit {
    fn text(&self) -> String {
        match self {
            Lit::Int(i) => i.to_string(),
            Lit::Float(f) => {
                let s = format!("{f:?}"); // always has '.' or 'e'
                s
            }
            Lit::Str(s) => {
                let mut o = String::from("'");
                for c in s.chars() {
                    match c {
                        '\'' => o.push_str("''"),
                        '\\' => o.push_str("\\\\"),
                        '\n' => o.push_str("\\n"),
                        c => o.push(c),
                    }
                }
                o.push('\'');
                o
            }
            Lit::Bool(b) => if *b { "TRUE".into() } else { "FALSE".into() },
            Lit::Null => "NULL".into(),
        }
    }
    fn tag(&self) -> &'static str {
        match self {
            Lit::Int(i) if *i == i64::MIN => "min-int",
            Lit::Int(i) if *i < 0 => "negative-int",
            Lit::Int(_) => "int",
            Lit::Float(f) if *f < 0.0 => "negative-float",
            Lit::Float(_) => "float",
            Lit::Str(s) if s.is_empty() => "empty-string",
            Lit::Str(s) if s.contains('\'') => "string-with-quote",
            Lit::Str(s) if s.contains('\\') => "string-with-backslash",
            Lit::Str(s) if s.contains(' ') => "string-with-space",
            Lit::Str(s) if !s.is_ascii() => "non-ascii-string",
            Lit::Str(_) => "string",
            Lit::Bool(_) => "bool",
            Lit::Null => "null",
        }
    }
    fn value(&self) -> Value {
        match self {
            Lit::Int(i) => Value::Int(*i),
            Lit::Float(f) => Value::Float(*f),
            Lit::Str(s) => Value::String(s.clone()),
            Lit::Bool(b) => Value::Bool(*b),
            Lit::Null => Value::Null,
        }
    }
    fn prop(&self) -> PropertyValue {
        match self {
            Lit::Int(i) => PropertyValue::Int(*i),
            Lit::Float(f) => PropertyValue::Float(*f),
            Lit::Str(s) => PropertyValue::String(s.clone()),
            Lit::Bool(b) => PropertyValue::Bool(*b),
            Lit::Null => PropertyValue::Null,
        }
    }
}
const BASE_TAGS: [&str; 5] = ["int", "float", "string", "bool", "null"];

fn ints() -> Vec<Lit> {
    vec![Lit::Int(5), Lit::Int(0), Lit::Int(-1), Lit::Int(i64::MAX), Lit::Int(i64::MIN)]
}
fn strs() -> Vec<Lit> {
    ["x", "", "it's", "a b", "a\\b", "\u{e9}"].iter().map(|s| Lit::Str(s.to_string())).chain([Lit::Null]).collect()
}
fn floats() -> Vec<Lit> {
    vec![Lit::Float(2.5), Lit::Float(0.0), Lit::Float(-2.5), Lit::Float(1e3)]
}
fn bools() -> Vec<Lit> {
    vec![Lit::Bool(true), Lit::Bool(false), Lit::Null]
}

fn row_canon(r: &Row) -> String {
    let mut v: Vec<String> = r.values.iter().map(|(k, x)| format!("{k}={x:?}")).collect();
    v.sort();
    format!("#{}{{{}}}", r.id, v.join(","))
}
fn rows_canon(rows: &[Row]) -> String {
    let mut v: Vec<String> = rows.iter().map(row_canon).collect();
    v.sort();
    format!("Rows[{}]", v.join(" "))
}
fn prop_str(p: &PropertyValue) -> String {
    match p {
        PropertyValue::Null => "null".into(),
        PropertyValue::Int(i) => i.to_string(),
        PropertyValue::Float(f) => f.to_string(),
        PropertyValue::String(s) => s.clone(),
        PropertyValue::Bool(b) => b.to_string(),
        other => format!("{other:?}"),
    }
}
fn result_canon(r: &query_router::Result<QueryResult>) -> String {
    match r {
        Err(_) => "Err".into(),
        Ok(QueryResult::Empty) => "Empty".into(),
        Ok(QueryResult::Count(n)) => format!("Count({n})"),
        Ok(QueryResult::Ids(v)) => format!("Ids{v:?}"),
        Ok(QueryResult::Rows(rows)) => rows_canon(rows),
        Ok(QueryResult::Value(s)) => format!("Value({s})"),
        Ok(QueryResult::Path(p)) => format!("Path{p:?}"),
        Ok(QueryResult::Nodes(ns)) => format!(
            "Nodes[{}]",
            ns.iter()
                .map(|n| {
                    let mut p: Vec<String> = n.properties.iter().map(|(k, v)| format!("{k}={v}")).collect();
                    p.sort();
                    format!("#{}:{}{{{}}}", n.id, n.label, p.join(","))
                })
                .collect::<Vec<_>>()
                .join(" ")
        ),
        Ok(QueryResult::Edges(es)) => format!("Edges[{}]", es.iter().map(|e| format!("#{}:{}->{}:{}", e.id, e.from, e.to, e.label)).collect::<Vec<_>>().join(" ")),
        Ok(QueryResult::Similar(v)) => format!("Similar[{}]", { let mut t: Vec<(String, f32)> = v.iter().map(|x| (x.key.clone(), x.score)).collect(); let mut i = 0; while i < t.len() { let mut j = i; while j < t.len() && t[j].1.to_bits() == t[i].1.to_bits() { j += 1; } t[i..j].sort_by(|a, b| a.0.cmp(&b.0)); i = j; } t.iter().map(|(k, sc)| format!("{k}@{sc:?}")).collect::<Vec<_>>().join(" ") }),
        Ok(QueryResult::TableList(v)) => {
            let mut v = v.clone();
            v.sort();
            format!("Tables{v:?}")
        }
        Ok(other) => format!("Other({})", format!("{other:?}").chars().take(60).collect::<String>()),
    }
}

/// full observation of the three engines behind a router
fn observe(r: &QueryRouter) -> String {
    let mut out = String::new();
    let mut tables = r.relational().list_tables();
    tables.sort();
    for t in tables {
        let sch = r.relational().get_schema(&t).map(|s| s.columns.iter().map(|c| format!("{}:{:?}{}", c.name, c.column_type, if c.nullable { "?" } else { "" })).collect::<Vec<_>>().join(",")).unwrap_or_default();
        let rows = r.relational().select(&t, Condition::True).map(|x| rows_canon(&x)).unwrap_or_else(|_| "Err".into());
        let idx: Vec<String> = ["id", "nm", "sc", "ok", "a", "b"].iter().filter(|c| r.relational().has_index(&t, c)).map(|c| c.to_string()).collect();
        out.push_str(&format!("table {t}({sch}) idx{idx:?} {rows}\n"));
    }
    for id in 0..12u64 {
        if let Ok(n) = r.graph().get_node(id) {
            let mut p: Vec<String> = n.properties.iter().map(|(k, v)| format!("{k}={v:?}")).collect();
            p.sort();
            out.push_str(&format!("node {id} {:?} {{{}}}\n", n.labels, p.join(",")));
        }
        if let Ok(e) = r.graph().get_edge(id) {
            let mut p: Vec<String> = e.properties.iter().map(|(k, v)| format!("{k}={v:?}")).collect();
            p.sort();
            out.push_str(&format!("edge {id} {}->{} {} directed={} {{{}}}\n", e.from, e.to, e.edge_type, e.directed, p.join(",")));
        }
    }
    let mut keys = r.vector().list_keys();
    keys.sort();
    for k in keys {
        out.push_str(&format!("emb {k:?} {:?}\n", r.vector().get_embedding(&k).ok()));
    }
    out
}

fn setup(r: &QueryRouter) {
    let sch = Schema::new(vec![
        Column::new("id", ColumnType::Int),
        Column::new("nm", ColumnType::String).nullable(),
        Column::new("sc", ColumnType::Float).nullable(),
        Column::new("ok", ColumnType::Bool).nullable(),
    ]);
    r.relational().create_table("t", sch).expect("setup table");
    let rows: [(i64, Lit, Lit, Lit); 4] = [
        (1, Lit::Str("ann".into()), Lit::Float(1.5), Lit::Bool(true)),
        (2, Lit::Str("it's".into()), Lit::Float(-2.5), Lit::Bool(false)),
        (-1, Lit::Str("".into()), Lit::Float(0.0), Lit::Bool(true)),
        (3, Lit::Null, Lit::Null, Lit::Null),
    ];
    for (id, nm, sc, ok) in rows {
        let mut m = HashMap::new();
        m.insert("id".to_string(), Value::Int(id));
        m.insert("nm".to_string(), nm.value());
        m.insert("sc".to_string(), sc.value());
        m.insert("ok".to_string(), ok.value());
        r.relational().insert("t", m).expect("setup row");
    }
    let g = r.graph();
    let mut ids = vec![];
    for (l, age) in [("person", 30), ("person", -4), ("city", 0)] {
        let mut p = HashMap::new();
        p.insert("age".to_string(), PropertyValue::Int(age));
        ids.push(g.create_node(l, p).expect("setup node"));
    }
    g.create_edge(ids[0], ids[1], "knows", HashMap::new(), true).expect("setup edge");
    g.create_edge(ids[1], ids[2], "knows", HashMap::new(), true).expect("setup edge");
    g.create_edge(ids[0], ids[2], "likes", HashMap::new(), true).expect("setup edge");
    for (k, v) in [("e1", vec![1.0f32, 0.0]), ("e2", vec![0.0, 1.0]), ("e3", vec![-1.0, 0.5])] {
        r.vector().store_embedding(k, v).expect("setup embedding");
    }
}

/// one generated statement: family, text, tags of its non-baseline arguments, the direct call
struct Case {
    family: &'static str,
    text: String,
    tags: Vec<&'static str>,
    direct: Box<dyn Fn(&QueryRouter) -> String + Send + Sync>,
    direct_desc: String,
    /// the engine call the router actually issues when it is not the obvious one (only used to
    /// attribute a mismatch to the engine rather than to the translation)
    alt: Option<Box<dyn Fn(&QueryRouter) -> String + Send + Sync>>,
}
fn tags_of(l: &[&Lit]) -> Vec<&'static str> {
    let mut t: Vec<&'static str> = l.iter().map(|x| x.tag()).filter(|t| !BASE_TAGS.contains(t)).collect();
    t.sort();
    t.dedup();
    t
}
fn ok_or_err<T>(r: Result<T, impl std::fmt::Debug>, f: impl FnOnce(T) -> String) -> String {
    match r {
        Ok(x) => f(x),
        Err(_) => "Err".into(),
    }
}
fn cond_of(col: &str, op: &str, v: &Lit) -> Condition {
    let (c, v) = (col.to_string(), v.value());
    match op {
        "=" => Condition::Eq(c, v),
        "!=" => Condition::Ne(c, v),
        "<" => Condition::Lt(c, v),
        "<=" => Condition::Le(c, v),
        ">" => Condition::Gt(c, v),
        _ => Condition::Ge(c, v),
    }
}

fn build_cases() -> Vec<Case> {
    let mut cs: Vec<Case> = vec![];
    // ---- INSERT with column list: full grid
    for i in ints() {
        for s in strs() {
            for f in floats() {
                for b in bools() {
                    let text = format!("INSERT INTO t (id, nm, sc, ok) VALUES ({}, {}, {}, {})", i.text(), s.text(), f.text(), b.text());
                    let (i2, s2, f2, b2) = (i.clone(), s.clone(), f.clone(), b.clone());
                    cs.push(Case {
                alt: None,
                        family: "insert",
                        tags: tags_of(&[&i, &s, &f, &b]),
                        direct_desc: format!("relational.insert(\"t\", {{id:{:?}, nm:{:?}, sc:{:?}, ok:{:?}}})", i.value(), s.value(), f.value(), b.value()),
                        text,
                        direct: Box::new(move |r| {
                            let mut m = HashMap::new();
                            m.insert("id".to_string(), i2.value());
                            m.insert("nm".to_string(), s2.value());
                            m.insert("sc".to_string(), f2.value());
                            m.insert("ok".to_string(), b2.value());
                            ok_or_err(r.relational().insert("t", m), |id| format!("Ids[{id}]"))
                        }),
                    });
                }
            }
        }
    }
    // ---- INSERT without column list (schema order), one factor at a time
    let base = (Lit::Int(5), Lit::Str("x".into()), Lit::Float(2.5), Lit::Bool(true));
    let mut one_factor: Vec<(Lit, Lit, Lit, Lit)> = vec![base.clone()];
    for i in ints() {
        one_factor.push((i, base.1.clone(), base.2.clone(), base.3.clone()));
    }
    for s in strs() {
        one_factor.push((base.0.clone(), s, base.2.clone(), base.3.clone()));
    }
    for f in floats() {
        one_factor.push((base.0.clone(), base.1.clone(), f, base.3.clone()));
    }
    for (i, s, f, b) in one_factor.clone() {
        let text = format!("INSERT INTO t VALUES ({}, {}, {}, {})", i.text(), s.text(), f.text(), b.text());
        cs.push(Case {
                alt: None,
            family: "insert-positional",
            tags: tags_of(&[&i, &s, &f, &b]),
            direct_desc: format!("relational.insert(\"t\", {{id:{:?}, nm:{:?}, sc:{:?}, ok:{:?}}})", i.value(), s.value(), f.value(), b.value()),
            text,
            direct: Box::new(move |r| {
                let mut m = HashMap::new();
                m.insert("id".to_string(), i.value());
                m.insert("nm".to_string(), s.value());
                m.insert("sc".to_string(), f.value());
                m.insert("ok".to_string(), b.value());
                ok_or_err(r.relational().insert("t", m), |id| format!("Ids[{id}]"))
            }),
        });
    }
    // ---- SELECT / DELETE / UPDATE with one comparison
    let mut atoms: Vec<(&'static str, Lit)> = vec![];
    for v in [Lit::Int(1), Lit::Int(0), Lit::Int(-1), Lit::Int(i64::MAX)] {
        atoms.push(("id", v));
    }
    for v in [Lit::Str("ann".into()), Lit::Str("".into()), Lit::Str("it's".into()), Lit::Str("a b".into())] {
        atoms.push(("nm", v));
    }
    for v in [Lit::Float(1.5), Lit::Float(0.0), Lit::Float(-2.5)] {
        atoms.push(("sc", v));
    }
    for v in [Lit::Bool(true), Lit::Bool(false)] {
        atoms.push(("ok", v));
    }
    let ops = ["=", "!=", "<", "<=", ">", ">="];
    for (col, v) in &atoms {
        for op in ops {
            let (col, v, op) = (*col, v.clone(), op);
            let wh = format!("{col} {op} {}", v.text());
            let c = cond_of(col, op, &v);
            let (c1, c2, c3) = (c.clone(), c.clone(), c.clone());
            let c4 = c.clone();
            cs.push(Case {
                alt: Some(Box::new(move |r| ok_or_err(r.relational().select_columnar("t", c4.clone(), relational_engine::ColumnarScanOptions { projection: None, prefer_columnar: true }), |rows| rows_canon(&rows)))),
                family: "select-where",
                text: format!("SELECT * FROM t WHERE {wh}"),
                tags: tags_of(&[&v]),
                direct_desc: format!("relational.select(\"t\", {c:?})"),
                direct: Box::new(move |r| ok_or_err(r.relational().select("t", c1.clone()), |rows| rows_canon(&rows))),
            });
            cs.push(Case {
                alt: None,
                family: "delete-where",
                text: format!("DELETE FROM t WHERE {wh}"),
                tags: tags_of(&[&v]),
                direct_desc: format!("relational.delete_rows(\"t\", {c:?})"),
                direct: Box::new(move |r| ok_or_err(r.relational().delete_rows("t", c2.clone()), |n| format!("Count({n})"))),
            });
            cs.push(Case {
                alt: None,
                family: "update-where",
                text: format!("UPDATE t SET nm = 'upd' WHERE {wh}"),
                tags: tags_of(&[&v]),
                direct_desc: format!("relational.update(\"t\", {c:?}, {{nm: String(\"upd\")}})"),
                direct: Box::new(move |r| {
                    let mut m = HashMap::new();
                    m.insert("nm".to_string(), Value::String("upd".into()));
                    ok_or_err(r.relational().update("t", c3.clone(), m), |n| format!("Count({n})"))
                }),
            });
        }
    }
    // ---- SELECT with two and three comparisons joined by AND / OR: grouping by the documented precedence
    let small: Vec<(&'static str, &'static str, Lit)> = vec![("id", ">", Lit::Int(1)), ("id", "<", Lit::Int(3)), ("nm", "=", Lit::Str("ann".into())), ("ok", "=", Lit::Bool(true)), ("sc", "<=", Lit::Float(0.0))];
    for a in &small {
        for b in &small {
            for j1 in ["AND", "OR"] {
                let (ca, cb) = (cond_of(a.0, a.1, &a.2), cond_of(b.0, b.1, &b.2));
                let c = if j1 == "AND" { ca.clone().and(cb.clone()) } else { ca.clone().or(cb.clone()) };
                let (c1, c4) = (c.clone(), c.clone());
                cs.push(Case {
                    alt: Some(Box::new(move |r| ok_or_err(r.relational().select_columnar("t", c4.clone(), relational_engine::ColumnarScanOptions { projection: None, prefer_columnar: true }), |rows| rows_canon(&rows)))),
                    family: "select-where-2",
                    text: format!("SELECT * FROM t WHERE {} {} {} {j1} {} {} {}", a.0, a.1, a.2.text(), b.0, b.1, b.2.text()),
                    tags: vec![],
                    direct_desc: format!("relational.select(\"t\", {c:?})"),
                    direct: Box::new(move |r| ok_or_err(r.relational().select("t", c1.clone()), |rows| rows_canon(&rows))),
                });
                for d in &small {
                    for j2 in ["AND", "OR"] {
                        let cd = cond_of(d.0, d.1, &d.2);
                        // documented: AND binds tighter than OR, both left-associative
                        let c = match (j1, j2) {
                            ("AND", "AND") => ca.clone().and(cb.clone()).and(cd),
                            ("AND", "OR") => ca.clone().and(cb.clone()).or(cd),
                            ("OR", "AND") => ca.clone().or(cb.clone().and(cd)),
                            _ => ca.clone().or(cb.clone()).or(cd),
                        };
                        let (c1, c4) = (c.clone(), c.clone());
                        cs.push(Case {
                            alt: Some(Box::new(move |r| ok_or_err(r.relational().select_columnar("t", c4.clone(), relational_engine::ColumnarScanOptions { projection: None, prefer_columnar: true }), |rows| rows_canon(&rows)))),
                            family: "select-where-3",
                            text: format!("SELECT * FROM t WHERE {} {} {} {j1} {} {} {} {j2} {} {} {}", a.0, a.1, a.2.text(), b.0, b.1, b.2.text(), d.0, d.1, d.2.text()),
                            tags: vec![],
                            direct_desc: format!("relational.select(\"t\", {c:?})"),
                            direct: Box::new(move |r| ok_or_err(r.relational().select("t", c1.clone()), |rows| rows_canon(&rows))),
                        });
                    }
                }
            }
        }
    }
    // ---- UPDATE SET with every literal, whole table / one row
    for (col, vals) in [("id", ints()), ("nm", strs()), ("sc", floats()), ("ok", bools())] {
        for v in vals {
            for wh in [None, Some(("id", "=", Lit::Int(2)))] {
                let c = wh.as_ref().map(|w| cond_of(w.0, w.1, &w.2)).unwrap_or(Condition::True);
                let (v1, c1) = (v.clone(), c.clone());
                cs.push(Case {
                alt: None,
                    family: "update-set",
                    text: format!("UPDATE t SET {col} = {}{}", v.text(), wh.as_ref().map(|w| format!(" WHERE {} {} {}", w.0, w.1, w.2.text())).unwrap_or_default()),
                    tags: tags_of(&[&v]),
                    direct_desc: format!("relational.update(\"t\", {c:?}, {{{col}: {:?}}})", v.value()),
                    direct: Box::new(move |r| {
                        let mut m = HashMap::new();
                        m.insert(col.to_string(), v1.value());
                        ok_or_err(r.relational().update("t", c1.clone(), m), |n| format!("Count({n})"))
                    }),
                });
            }
        }
    }
    cs.push(Case { alt: None, family: "delete-all", text: "DELETE FROM t".into(), tags: vec![], direct_desc: "relational.delete_rows(\"t\", True)".into(), direct: Box::new(|r| ok_or_err(r.relational().delete_rows("t", Condition::True), |n| format!("Count({n})"))) });
    cs.push(Case { alt: None, family: "select-all", text: "SELECT * FROM t".into(), tags: vec![], direct_desc: "relational.select(\"t\", True)".into(), direct: Box::new(|r| ok_or_err(r.relational().select("t", Condition::True), |rows| rows_canon(&rows))) });
    cs.push(Case { alt: None, family: "drop-table", text: "DROP TABLE t".into(), tags: vec![], direct_desc: "relational.drop_table(\"t\")".into(), direct: Box::new(|r| ok_or_err(r.relational().drop_table("t"), |_| "Empty".into())) });
    cs.push(Case { alt: None, family: "drop-table", text: "DROP TABLE nosuch".into(), tags: vec![], direct_desc: "relational.drop_table(\"nosuch\")".into(), direct: Box::new(|r| ok_or_err(r.relational().drop_table("nosuch"), |_| "Empty".into())) });
    cs.push(Case { alt: None, family: "create-index", text: "CREATE INDEX ix ON t (nm)".into(), tags: vec![], direct_desc: "relational.create_index(\"t\",\"nm\")".into(), direct: Box::new(|r| ok_or_err(r.relational().create_index("t", "nm"), |_| "Empty".into())) });
    cs.push(Case { alt: None, family: "show-tables", text: "SHOW TABLES".into(), tags: vec![], direct_desc: "relational.list_tables()".into(), direct: Box::new(|r| { let mut v = r.relational().list_tables(); v.sort(); format!("Tables{v:?}") }) });
    // ---- CREATE TABLE: every documented type spelling x nullability
    let types: [(&str, ColumnType); 11] = [
        ("INT", ColumnType::Int), ("INTEGER", ColumnType::Int), ("BIGINT", ColumnType::Int), ("SMALLINT", ColumnType::Int), ("FLOAT", ColumnType::Float), ("DOUBLE", ColumnType::Float), ("REAL", ColumnType::Float),
        ("TEXT", ColumnType::String), ("VARCHAR(10)", ColumnType::String), ("BOOLEAN", ColumnType::Bool), ("DECIMAL(8, 2)", ColumnType::Float),
    ];
    for (ta, ca) in &types {
        for (tb, cb) in &types {
            for (na, nb) in [(false, false), (true, false), (false, true)] {
                let text = format!("CREATE TABLE u (a {ta}{}, b {tb}{})", if na { " NOT NULL" } else { "" }, if nb { " NOT NULL" } else { "" });
                let (ca, cb) = (ca.clone(), cb.clone());
                cs.push(Case {
                alt: None,
                    family: "create-table",
                    text,
                    tags: vec![],
                    direct_desc: format!("relational.create_table(\"u\", [a:{ca:?} nullable={}, b:{cb:?} nullable={}])", !na, !nb),
                    direct: Box::new(move |r| {
                        let mut a = Column::new("a", ca.clone());
                        if !na {
                            a = a.nullable();
                        }
                        let mut b = Column::new("b", cb.clone());
                        if !nb {
                            b = b.nullable();
                        }
                        ok_or_err(r.relational().create_table("u", Schema::new(vec![a, b])), |_| "Empty".into())
                    }),
                });
            }
        }
    }
    // ---- graph
    let mut pvals: Vec<Lit> = vec![];
    pvals.extend(ints());
    pvals.extend(strs());
    pvals.extend(floats());
    pvals.push(Lit::Bool(true));
    for label in ["person", "city"] {
        cs.push(Case { alt: None, family: "node-create", text: format!("NODE CREATE {label}"), tags: vec![], direct_desc: format!("graph.create_node({label:?}, {{}})"), direct: Box::new(move |r| ok_or_err(r.graph().create_node(label, HashMap::new()), |id| format!("Ids[{id}]"))) });
        for v in &pvals {
            for w in [None, Some(Lit::Int(7))] {
                let (v1, w1) = (v.clone(), w.clone());
                cs.push(Case {
                alt: None,
                    family: "node-create",
                    text: format!("NODE CREATE {label} {{p: {}{}}}", v.text(), w.as_ref().map(|w| format!(", q: {}", w.text())).unwrap_or_default()),
                    tags: tags_of(&[v]),
                    direct_desc: format!("graph.create_node({label:?}, {{p: {:?}{}}})", v.prop(), w.as_ref().map(|w| format!(", q: {:?}", w.prop())).unwrap_or_default()),
                    direct: Box::new(move |r| {
                        let mut p = HashMap::new();
                        p.insert("p".to_string(), v1.prop());
                        if let Some(w) = &w1 {
                            p.insert("q".to_string(), w.prop());
                        }
                        ok_or_err(r.graph().create_node(label, p), |id| format!("Ids[{id}]"))
                    }),
                });
            }
        }
    }
    for id in 0..6u64 {
        cs.push(Case {
                alt: None,
            family: "node-get",
            text: format!("NODE GET {id}"),
            tags: vec![],
            direct_desc: format!("graph.get_node({id})"),
            direct: Box::new(move |r| {
                ok_or_err(r.graph().get_node(id), |n| {
                    let mut p: Vec<String> = n.properties.iter().map(|(k, v)| format!("{k}={}", prop_str(v))).collect();
                    p.sort();
                    format!("Nodes[#{}:{}{{{}}}]", n.id, n.labels.join(":"), p.join(","))
                })
            }),
        });
        cs.push(Case { alt: None, family: "node-delete", text: format!("NODE DELETE {id}"), tags: vec![], direct_desc: format!("graph.delete_node({id})"), direct: Box::new(move |r| ok_or_err(r.graph().delete_node(id), |_| "Count(1)".into())) });
        cs.push(Case {
                alt: None,
            family: "edge-get",
            text: format!("EDGE GET {id}"),
            tags: vec![],
            direct_desc: format!("graph.get_edge({id})"),
            direct: Box::new(move |r| ok_or_err(r.graph().get_edge(id), |e| format!("Edges[#{}:{}->{}:{}]", e.id, e.from, e.to, e.edge_type))),
        });
        cs.push(Case { alt: None, family: "edge-delete", text: format!("EDGE DELETE {id}"), tags: vec![], direct_desc: format!("graph.delete_edge({id})"), direct: Box::new(move |r| ok_or_err(r.graph().delete_edge(id), |_| "Count(1)".into())) });
        for (dt, dir) in [("", Direction::Outgoing), (" OUTGOING", Direction::Outgoing), (" INCOMING", Direction::Incoming), (" BOTH", Direction::Both)] {
            for ty in [None, Some("knows"), Some("likes")] {
                cs.push(Case {
                alt: None,
                    family: "neighbors",
                    text: format!("NEIGHBORS {id}{dt}{}", ty.map(|t| format!(" : {t}")).unwrap_or_default()),
                    tags: vec![],
                    direct_desc: format!("graph.neighbors({id}, {ty:?}, {dir:?}, None)"),
                    direct: Box::new(move |r| ok_or_err(r.graph().neighbors(id, ty, dir, None), |ns| format!("Ids{:?}", ns.iter().map(|n| n.id).collect::<Vec<_>>()))),
                });
            }
        }
        for to in 0..6u64 {
            cs.push(Case {
                alt: None,
                family: "path",
                text: format!("PATH {id} -> {to}"),
                tags: vec![],
                direct_desc: format!("graph.find_path({id}, {to}, None)"),
                direct: Box::new(move |r| match r.graph().find_path(id, to, None) {
                    Ok(p) => format!("Path{:?}", p.nodes),
                    Err(GraphError::PathNotFound) => "Path[]".into(), // the router presents 'no path' as an empty path
                    Err(_) => "Err".into(),
                }),
            });
            for ty in ["knows", "rel2"] {
                cs.push(Case { alt: None, family: "edge-create", text: format!("EDGE CREATE {id} -> {to} : {ty}"), tags: vec![], direct_desc: format!("graph.create_edge({id}, {to}, {ty:?}, {{}}, true)"), direct: Box::new(move |r| ok_or_err(r.graph().create_edge(id, to, ty, HashMap::new(), true), |e| format!("Ids[{e}]"))) });
            }
        }
    }
    for v in &pvals {
        let v1 = v.clone();
        cs.push(Case {
                alt: None,
            family: "edge-create-props",
            text: format!("EDGE CREATE 1 -> 2 : knows {{w: {}}}", v.text()),
            tags: tags_of(&[v]),
            direct_desc: format!("graph.create_edge(1, 2, \"knows\", {{w: {:?}}}, true)", v.prop()),
            direct: Box::new(move |r| {
                let mut p = HashMap::new();
                p.insert("w".to_string(), v1.prop());
                ok_or_err(r.graph().create_edge(1, 2, "knows", p, true), |e| format!("Ids[{e}]"))
            }),
        });
    }
    // ---- vector
    let keys = [Lit::Str("k".into()), Lit::Str("e1".into()), Lit::Str("a b".into()), Lit::Str("it's".into()), Lit::Str("".into())];
    let vecs: Vec<(Vec<Lit>, &'static str)> = vec![
        (vec![Lit::Float(1.0), Lit::Float(2.0)], ""),
        (vec![Lit::Float(0.25)], ""),
        (vec![Lit::Int(1), Lit::Int(2)], ""),
        (vec![Lit::Float(-1.0), Lit::Float(0.5)], "negative-float"),
        (vec![Lit::Float(1.0), Lit::Int(-2)], "negative-int"),
        (vec![Lit::Float(1e-3), Lit::Float(1.0)], ""),
        (vec![], "empty-vector"),
    ];
    let to_f32 = |v: &[Lit]| -> Vec<f32> { v.iter().map(|x| match x { Lit::Float(f) => *f as f32, Lit::Int(i) => *i as f32, _ => 0.0 }).collect() };
    for k in &keys {
        for (v, vt) in &vecs {
            let Lit::Str(ks) = k.clone() else { unreachable!() };
            let fv = to_f32(v);
            let mut tags = tags_of(&[k]);
            if !vt.is_empty() {
                tags.push(vt);
            }
            let (ks1, fv1) = (ks.clone(), fv.clone());
            cs.push(Case {
                alt: None,
                family: "embed-store",
                text: format!("EMBED STORE {} [{}]", k.text(), v.iter().map(Lit::text).collect::<Vec<_>>().join(", ")),
                tags,
                direct_desc: format!("vector.store_embedding({ks:?}, {fv:?})"),
                direct: Box::new(move |r| ok_or_err(r.vector().store_embedding(&ks1, fv1.clone()), |_| "Empty".into())),
            });
        }
        let Lit::Str(ks) = k.clone() else { unreachable!() };
        let (k1, k2, k3) = (ks.clone(), ks.clone(), ks.clone());
        cs.push(Case { alt: None, family: "embed-get", text: format!("EMBED GET {}", k.text()), tags: tags_of(&[k]), direct_desc: format!("vector.get_embedding({ks:?})"), direct: Box::new(move |r| ok_or_err(r.vector().get_embedding(&k1), |v| format!("Value({v:?})"))) });
        cs.push(Case { alt: None, family: "embed-delete", text: format!("EMBED DELETE {}", k.text()), tags: tags_of(&[k]), direct_desc: format!("vector.delete_embedding({ks:?})"), direct: Box::new(move |r| ok_or_err(r.vector().delete_embedding(&k2), |_| "Count(1)".into())) });
        for (mt, m) in [("", DistanceMetric::Cosine), (" COSINE", DistanceMetric::Cosine), (" EUCLIDEAN", DistanceMetric::Euclidean), (" DOT_PRODUCT", DistanceMetric::DotProduct)] {
            for lim in [None, Some(1usize), Some(2), Some(0)] {
                let k3 = k3.clone();
                cs.push(Case {
                alt: None,
                    family: "similar-key",
                    text: format!("SIMILAR {}{}{mt}", k.text(), lim.map(|l| format!(" LIMIT {l}")).unwrap_or_default()),
                    tags: tags_of(&[k]),
                    direct_desc: format!("vector.search_similar_with_metric(&vector.get_embedding({ks:?})?, {}, {m:?})", lim.unwrap_or(10)),
                    direct: Box::new(move |r| {
                        let q = match r.vector().get_embedding(&k3) {
                            Ok(q) => q,
                            Err(_) => return "Err".into(),
                        };
                        ok_or_err(r.vector().search_similar_with_metric(&q, lim.unwrap_or(10), m), |v| format!("Similar[{}]", { let mut t: Vec<(String, f32)> = v.iter().map(|x| (x.key.clone(), x.score)).collect(); let mut i = 0; while i < t.len() { let mut j = i; while j < t.len() && t[j].1.to_bits() == t[i].1.to_bits() { j += 1; } t[i..j].sort_by(|a, b| a.0.cmp(&b.0)); i = j; } t.iter().map(|(k, sc)| format!("{k}@{sc:?}")).collect::<Vec<_>>().join(" ") }))
                    }),
                });
            }
        }
    }
    for (v, vt) in &vecs {
        for (mt, m) in [("", DistanceMetric::Cosine), (" EUCLIDEAN", DistanceMetric::Euclidean), (" DOT_PRODUCT", DistanceMetric::DotProduct)] {
            let fv = to_f32(v);
            let fv1 = fv.clone();
            cs.push(Case {
                alt: None,
                family: "similar-vector",
                text: format!("SIMILAR [{}] LIMIT 3{mt}", v.iter().map(Lit::text).collect::<Vec<_>>().join(", ")),
                tags: if vt.is_empty() { vec![] } else { vec![vt] },
                direct_desc: format!("vector.search_similar_with_metric(&{fv:?}, 3, {m:?})"),
                direct: Box::new(move |r| ok_or_err(r.vector().search_similar_with_metric(&fv1, 3, m), |v| format!("Similar[{}]", { let mut t: Vec<(String, f32)> = v.iter().map(|x| (x.key.clone(), x.score)).collect(); let mut i = 0; while i < t.len() { let mut j = i; while j < t.len() && t[j].1.to_bits() == t[i].1.to_bits() { j += 1; } t[i..j].sort_by(|a, b| a.0.cmp(&b.0)); i = j; } t.iter().map(|(k, sc)| format!("{k}@{sc:?}")).collect::<Vec<_>>().join(" ") }))),
            });
        }
    }
    cs
}

fn part_c(rep: &mut Report, selftest: bool) -> (u64, u64, u64) {
    nvc::env::clock_freeze(1_700_000_000);
    for w in ["t", "u", "id", "nm", "sc", "ok", "a", "b", "p", "q", "w", "person", "city", "knows", "likes", "rel2", "ix", "upd", "nosuch"] {
        if np::TokenKind::keyword_from_str(w).is_some() {
            rep.machinery(format!("harness identifier {w:?} is a keyword of the language"));
        }
    }
    let cases = build_cases();
    struct Out {
        got: String,
        want: String,
        obs_a: String,
        obs_b: String,
        parse_ok: bool,
        alt: Option<String>,
        legacy: String,
        obs_legacy: String,
    }
    let outs: Vec<Out> = cases
        .par_iter()
        .map(|c| {
            let a = QueryRouter::new();
            let b = QueryRouter::new();
            setup(&a);
            setup(&b);
            let parse_ok = np::parse(&c.text).is_ok();
            let got = result_canon(&a.execute_parsed(&c.text));
            let mut want = (c.direct)(&b);
            if selftest && c.family == "select-all" {
                want.push_str("+selftest");
            }
            let alt = c.alt.as_ref().map(|f| {
                let x = QueryRouter::new();
                setup(&x);
                f(&x)
            });
            // the router's other public text entry point (legacy string-splitting parser)
            let l = QueryRouter::new();
            setup(&l);
            let legacy = result_canon(&l.execute(&c.text));
            Out { got, want, obs_a: observe(&a), obs_b: observe(&b), parse_ok, alt, legacy, obs_legacy: observe(&l) }
        })
        .collect();
    nvc::env::clock_unfreeze();
    // which single non-baseline argument shapes fail on their own?
    let mut failing_tags: BTreeSet<&'static str> = BTreeSet::new();
    for (c, o) in cases.iter().zip(&outs) {
        // (a difference explained by the engine's own columnar-vs-row disagreement is not the literal's fault)
        let columnar = o.alt.as_ref().is_some_and(|a| *a == o.got) && o.obs_a == o.obs_b;
        if c.tags.len() == 1 && !columnar && (o.got != o.want || o.obs_a != o.obs_b) {
            failing_tags.insert(c.tags[0]);
        }
    }
    let mut fam: BTreeMap<&'static str, (u64, u64, BTreeSet<String>)> = BTreeMap::new();
    let mut effects = 0u64;
    let base_obs = {
        let r = QueryRouter::new();
        nvc::env::clock_freeze(1_700_000_000);
        setup(&r);
        let o = observe(&r);
        nvc::env::clock_unfreeze();
        o
    };
    for (c, o) in cases.iter().zip(&outs) {
        let e = fam.entry(c.family).or_default();
        e.0 += 1;
        e.2.insert(o.want.chars().take(40).collect());
        if o.obs_b != base_obs {
            effects += 1;
        }
        if o.got != o.want || o.obs_a != o.obs_b {
            e.1 += 1;
            let blame: Vec<&str> = c.tags.iter().copied().filter(|t| failing_tags.contains(t)).collect();
            // same root cause => same signature: a negative numeric literal is refused in every family
            let sig = if o.alt.as_ref().is_some_and(|a| *a == o.got) && o.obs_a == o.obs_b {
                "c15:text-ne-api:select:engine-select_columnar-disagrees-with-select".to_string()
            } else if !blame.is_empty() && blame.iter().all(|t| ["negative-int", "negative-float", "min-int"].contains(t)) {
                if blame.iter().all(|t| *t == "min-int") { "c15:text-ne-api:min-int-literal".to_string() } else { "c15:text-ne-api:negative-number-literal".to_string() }
            } else if !blame.is_empty() {
                format!("c15:text-ne-api:{}:{}", c.family, blame.join("+"))
            } else if c.tags.is_empty() {
                format!("c15:text-ne-api:{}:plain", c.family)
            } else {
                format!("c15:text-ne-api:{}:{}", c.family, c.tags.join("+"))
            };
            let what = if o.got != o.want { "result" } else { "post-state" };
            rep.violation(
                sig,
                format!("execute_parsed({:?}) -> {} but {} -> {}{}", c.text, o.got, c.direct_desc, o.want, if o.obs_a != o.obs_b { " ; post-states differ" } else { "" }),
                json!({"part":"C","family":c.family,"text":c.text,"statement_parses":o.parse_ok,"direct_call":c.direct_desc,"text_result":o.got,"direct_result":o.want,"differs_in":what,"select_columnar_result":o.alt,"post_state_text":o.obs_a,"post_state_direct":o.obs_b,
                       "setup":"table t(id INT, nm TEXT?, sc FLOAT?, ok BOOL?) rows (1,'ann',1.5,true),(2,'it''s',-2.5,false),(-1,'',0.0,true),(3,NULL,NULL,NULL); nodes person{age:30},person{age:-4},city{age:0}; edges n0->n1 knows, n1->n2 knows, n0->n2 likes; embeddings e1=[1,0] e2=[0,1] e3=[-1,0.5]"}),
            );
        }
    }
    // "text means one thing": when both public text entry points accept a statement they must agree
    let (mut both_ok, mut legacy_differs) = (0u64, 0u64);
    for (c, o) in cases.iter().zip(&outs) {
        if o.got == "Err" || o.legacy == "Err" {
            continue; // different dialects may reject each other's syntax; that is not demanded
        }
        both_ok += 1;
        if o.got != o.legacy || o.obs_a != o.obs_legacy {
            legacy_differs += 1;
            let same_as_columnar = o.alt.as_ref().is_some_and(|a| *a == o.got) && o.legacy == o.want;
            let sig = if same_as_columnar { "c15:execute-vs-execute_parsed:select:columnar-vs-row-path".to_string() } else { format!("c15:execute-vs-execute_parsed:{}", c.family) };
            rep.violation(
                sig,
                format!("both text entry points accept {:?}: execute_parsed -> {} ; execute -> {}{}", c.text, o.got, o.legacy, if o.obs_a != o.obs_legacy { " ; post-states differ" } else { "" }),
                json!({"part":"C2","family":c.family,"text":c.text,"execute_parsed":o.got,"execute":o.legacy,"post_state_execute_parsed":o.obs_a,"post_state_execute":o.obs_legacy}),
            );
        }
    }
    rep.part("C2_execute_vs_execute_parsed", json!({"statements_accepted_by_both": both_ok, "differing": legacy_differs}));
    let fams: BTreeMap<&str, J> = fam.iter().map(|(k, v)| (*k, json!({"statements": v.0, "violating": v.1, "distinct_expected_results": v.2.len()}))).collect();
    rep.part("C_text_vs_api", json!({"statements": cases.len(), "families": fams, "statements_with_an_effect_on_state": effects, "argument_shapes_failing_alone": failing_tags}));
    if let Some((c, o)) = cases.iter().zip(&outs).find(|(c, o)| c.family == "select-where-3" && o.got == o.want && o.want.contains('#')) {
        rep.sample(json!({"part":"C","text":c.text,"direct_call":c.direct_desc,"result":o.want}));
    }
    let distinct: BTreeSet<&String> = outs.iter().map(|o| &o.want).collect();
    if distinct.len() < 50 || effects < 100 {
        rep.machinery("vacuous part C: too few distinct results or effects");
    }
    (cases.len() as u64, 3 * cases.len() as u64, effects)
}


/// polls a future that never has to wait (the router's async entry point only suspends for blob I/O)
fn block_on_ready<F: std::future::Future>(f: F) -> Option<F::Output> {
    use std::task::{Context, Poll, RawWaker, RawWakerVTable, Waker};
    fn noop(_: *const ()) {}
    fn clone(_: *const ()) -> RawWaker {
        RawWaker::new(std::ptr::null(), &VTABLE)
    }
    static VTABLE: RawWakerVTable = RawWakerVTable::new(clone, noop, noop, noop);
    let waker = unsafe { Waker::from_raw(RawWaker::new(std::ptr::null(), &VTABLE)) };
    let mut cx = Context::from_waker(&waker);
    let mut f = std::pin::pin!(f);
    match f.as_mut().poll(&mut cx) {
        Poll::Ready(v) => Some(v),
        Poll::Pending => None,
    }
}
/// execute one statement through the synchronous or the asynchronous text entry point
fn exec_text(r: &QueryRouter, asynchronous: bool, text: &str) -> query_router::Result<QueryResult> {
    if asynchronous {
        block_on_ready(r.execute_parsed_async(text)).unwrap_or_else(|| r.execute_parsed(text))
    } else {
        r.execute_parsed(text)
    }
}

/// Part C3 — the router's optional query cache must be invisible: with `init_cache()` a statement
/// given as text still returns what the engines hold *now*. For every (write w, read q) pair of the
/// alphabet: cached router runs q, w, q again; the reference is an uncached router that ran w, q.
/// For every ordered pair of reads (q1, q2): cached router runs q1 then q2 against uncached q2.
fn part_c3(rep: &mut Report, selftest: bool) -> (u64, u64, u64) {
    nvc::env::clock_freeze(1_700_000_000);
    let cases = build_cases();
    let base_obs = {
        let r = QueryRouter::new();
        setup(&r);
        observe(&r)
    };
    let cacheable = |text: &str| np::parse(text).is_ok_and(|st| matches!(st.kind, np::StatementKind::Select(_) | np::StatementKind::Similar(_) | np::StatementKind::Neighbors(_) | np::StatementKind::Path(_)));
    // reads: up to 4 distinct texts per family (first ones: simplest arguments), that succeed on the base state
    let mut reads: Vec<String> = vec![];
    let mut per_fam: BTreeMap<&str, usize> = BTreeMap::new();
    for c in &cases {
        if !cacheable(&c.text) || reads.contains(&c.text) {
            continue;
        }
        let n = per_fam.entry(c.family).or_default();
        if *n >= 4 {
            continue;
        }
        let r = QueryRouter::new();
        setup(&r);
        if result_canon(&r.execute_parsed(&c.text)) == "Err" {
            continue;
        }
        *n += 1;
        reads.push(c.text.clone());
    }
    // reads that differ from each other only in the letter case of a string literal / in spacing
    for q in ["SELECT * FROM t WHERE nm = 'ann'", "SELECT * FROM t WHERE nm = 'ANN'", "SELECT * FROM t WHERE nm = 'Ann'", "SELECT  *  FROM t WHERE nm = 'ann'", "SELECT * FROM t WHERE nm = ' ann'"] {
        reads.push(q.to_string());
    }
    // writes: up to 3 distinct texts per family that change the observable state
    let mut writes: Vec<String> = vec![];
    let mut per_fam: BTreeMap<&str, usize> = BTreeMap::new();
    for c in &cases {
        if cacheable(&c.text) || writes.contains(&c.text) {
            continue;
        }
        let n = per_fam.entry(c.family).or_default();
        if *n >= 3 {
            continue;
        }
        let r = QueryRouter::new();
        setup(&r);
        let _ = r.execute_parsed(&c.text);
        if observe(&r) == base_obs {
            continue;
        }
        *n += 1;
        writes.push(c.text.clone());
    }
    let cached = || {
        let mut r = QueryRouter::new();
        r.init_cache();
        setup(&r);
        r
    };
    let plain = || {
        let r = QueryRouter::new();
        setup(&r);
        r
    };
    // (kind, first statement, read, cached result, reference)
    // (write-then-read?, first statement, read, through execute_parsed_async?)
    let mut jobs: Vec<(bool, String, String, bool)> = vec![];
    for asynchronous in [false, true] {
        for w in &writes {
            for q in &reads {
                jobs.push((true, w.clone(), q.clone(), asynchronous));
            }
        }
    }
    for q1 in &reads {
        for q2 in &reads {
            if q1 != q2 {
                jobs.push((false, q1.clone(), q2.clone(), false));
            }
        }
    }
    let outs: Vec<(String, String)> = jobs
        .par_iter()
        .map(|(is_write, first, q, asynchronous)| {
            let c = cached();
            if *is_write {
                let _ = exec_text(&c, *asynchronous, q);
            }
            let _ = exec_text(&c, *asynchronous, first);
            let got = result_canon(&exec_text(&c, *asynchronous, q));
            let p = plain();
            if *is_write {
                let _ = p.execute_parsed(first);
            }
            let mut want = result_canon(&p.execute_parsed(q));
            if selftest && *is_write && first.starts_with("INSERT") {
                want.push_str("+selftest");
            }
            (got, want)
        })
        .collect();
    nvc::env::clock_unfreeze();
    let kind_of = |text: &str| -> String { np::parse(text).map(|st| format!("{:?}", st.kind).split(['(', ' ', '{']).next().unwrap_or("?").to_string()).unwrap_or_else(|_| "unparsed".into()) };
    let (mut stale, mut changed) = (0u64, 0u64);
    let mut by_sig: BTreeMap<String, u64> = BTreeMap::new();
    for ((is_write, first, q, asynchronous), (got, want)) in jobs.iter().zip(&outs) {
        if *is_write {
            let before = {
                // did the write change this read's answer at all? (non-vacuity count)
                want != &result_canon(&plain().execute_parsed(q))
            };
            changed += u64::from(before);
        }
        if got != want {
            stale += 1;
            let sig = if *is_write { format!("c15:query-cache:stale-after:{}:{}{}", kind_of(first), kind_of(q), if *asynchronous { ":async" } else { "" }) } else { "c15:query-cache:answers-a-different-statement".to_string() };
            let n = by_sig.entry(sig.clone()).or_default();
            *n += 1;
            if *n <= 3 {
                let msg = if *is_write { format!("router with init_cache(): {q:?}, then {first:?}, then {q:?} again -> {got}; without a cache the same statements give {want}") } else { format!("router with init_cache(): {first:?} then {q:?} -> {got}; without a cache {q:?} gives {want}") };
                rep.violation(sig, msg, json!({"part": "C3", "with_write": is_write, "first": first, "read": q, "async": asynchronous, "cached_result": got, "uncached_result": want}));
            }
        }
    }
    rep.part("C3_query_cache_invisible", json!({"reads": reads.len(), "writes": writes.len(), "write_read_pairs": writes.len() * reads.len(), "entry_points": ["execute_parsed", "execute_parsed_async"], "read_read_pairs": reads.len() * (reads.len() - 1), "pairs_where_the_write_changes_the_read": changed, "pairs_differing_from_uncached_router": stale, "by_signature": by_sig}));
    if changed < 20 {
        rep.machinery("vacuous part C3: too few writes that change a cached read");
    }
    (jobs.len() as u64, 2 * jobs.len() as u64, changed)
}


/// `--replay <file>`: re-run exactly the recorded case
fn replay_main(rep: &mut Report, path: &str) {
    let body: J = serde_json::from_str(&std::fs::read_to_string(path).expect("replay file")).expect("replay json");
    let r = &body["replay"];
    let sig = body["signature"].as_str().unwrap_or("c15:replay").to_string();
    match r["part"].as_str().unwrap_or("") {
        "A" => {
            let text = r["text"].as_str().unwrap_or("");
            let parser = if r["parser"].as_str().unwrap_or("").starts_with("expr") { 0 } else { 1 };
            let got = parse_via(parser, text, &mut 0);
            eprintln!("replay A: {text:?} via {} -> {got:?}; expected {}", PARSER_NAMES[parser], r["expected_ast"]);
            if got.as_ref().ok().map(String::as_str) != r["expected_ast"].as_str() {
                rep.violation(sig, format!("`{text}` parsed as {got:?}, expected {}", r["expected_ast"]), r.clone());
            }
        }
        "B" => {
            let l = &r["locator"];
            let tier = l["tier"].as_str().unwrap_or("quick").to_string();
            let n = l["n"].as_u64().map(|x| x as usize);
            let out = run_one(&tier, l["stream"].as_u64().unwrap_or(0) as u32, l["idx"].as_u64().unwrap_or(0), l["ctx"].as_u64().unwrap_or(0), l["api"].as_u64().unwrap_or(1), n, STACK_BYTES, Duration::from_secs(60));
            eprintln!("replay B: {} -> {out:?}", r["case"]);
            match out {
                OneResult::Completed { ref line, .. } if !line.contains("\"findings\":0") => rep.violation(sig, format!("finding reproduced: {line}"), r.clone()),
                OneResult::Completed { .. } => {}
                other => rep.violation(sig, format!("reproduced: {other:?}"), r.clone()),
            }
        }
        "C3" => {
            let (first, q, is_write) = (r["first"].as_str().unwrap_or(""), r["read"].as_str().unwrap_or(""), r["with_write"].as_bool().unwrap_or(true));
            let asynchronous = r["async"].as_bool().unwrap_or(false);
            nvc::env::clock_freeze(1_700_000_000);
            let mut c = QueryRouter::new();
            c.init_cache();
            setup(&c);
            let p = QueryRouter::new();
            setup(&p);
            if is_write {
                let _ = exec_text(&c, asynchronous, q);
                let _ = p.execute_parsed(first);
            }
            let _ = exec_text(&c, asynchronous, first);
            let (got, want) = (result_canon(&exec_text(&c, asynchronous, q)), result_canon(&p.execute_parsed(q)));
            nvc::env::clock_unfreeze();
            eprintln!("replay C3: cached router -> {got}; uncached -> {want}");
            if got != want {
                rep.violation(sig, format!("reproduced: with the query cache {q:?} after {first:?} -> {got}, without -> {want}"), r.clone());
            }
        }
        _ => {
            let text = r["text"].as_str().unwrap_or("");
            let fam = r["family"].as_str().unwrap_or("");
            let cases = build_cases();
            let Some(c) = cases.iter().find(|c| c.text == text && c.family == fam) else {
                rep.machinery("replay: statement not in the grid");
                return;
            };
            nvc::env::clock_freeze(1_700_000_000);
            let (a, b, l) = (QueryRouter::new(), QueryRouter::new(), QueryRouter::new());
            setup(&a);
            setup(&b);
            setup(&l);
            let got = result_canon(&a.execute_parsed(text));
            let want = (c.direct)(&b);
            let legacy = result_canon(&l.execute(text));
            nvc::env::clock_unfreeze();
            eprintln!("replay C: execute_parsed({text:?}) -> {got}\n          {} -> {want}\n          execute({text:?}) -> {legacy}", c.direct_desc);
            let c2 = r["part"].as_str() == Some("C2");
            let differs = if c2 { got != "Err" && legacy != "Err" && (got != legacy || observe(&a) != observe(&l)) } else { got != want || observe(&a) != observe(&b) };
            if differs {
                rep.violation(sig, format!("reproduced: text -> {got}, direct -> {want}, legacy execute -> {legacy}"), r.clone());
            }
        }
    }
    rep.sample(json!({"replayed": path}));
}

// =====================================================================================================
// main
// =====================================================================================================

fn main() {
    let mut rep = Report::new("C15", "model_checking");
    if let Some(spec) = rep.args.flag("c15w") {
        worker_main(&rep, &spec);
    }
    if let Some(spec) = rep.args.flag("c15one") {
        one_main(&rep, &spec);
    }
    if let Some(path) = rep.args.replay.clone() {
        replay_main(&mut rep, &path);
        rep.args.tier = "replay".into(); // artefacts of a replay must not overwrite those of a tier run
        rep.finish();
    }
    let thorough = rep.thorough();
    let selftest = rep.args.rest.iter().any(|a| a == "--selftest");
    let only: Option<String> = rep.args.flag("part");
    let want = |p: &str| only.as_deref().is_none_or(|o| o.contains(p));
    rep.rule("A: every expression tree with <=N operator nodes over 20 binary + 4 prefix + 8 postfix operator spellings (leaves numbered, three literal kinds), and every left/right comb of depth <=8 over every ordered operator pair; each printed with minimal parentheses per the documented table and fully parenthesised, parsed by both expression parsers, AST compared with the tree; non-trivial = minimal printing needs parentheses");
    rep.rule("B: every valid UTF-8 byte string <=L under 12 lexical contexts; every token sequence <=K over the full alphabet; every sequence of fixed length over a 48-token reduced alphabet; u^n for every token, token pair and hand-listed recursive production; each through tokenize/parse/parse_all/parse_expr twice on a fixed 8 MiB stack");
    rep.rule("C: statement templates x argument grids: execute_parsed(text) on one engine set vs the direct engine call on a twin; result and post-state compared");
    rep.rule("C3: the same with the router's query cache enabled (init_cache): every (state-changing statement w, cacheable statement q) pair over <=3 writes and <=4 reads per statement family: q, w, q on a cached router (through execute_parsed and through execute_parsed_async) vs w, q on an uncached one; every ordered pair of reads (incl. texts differing only in the case or spacing of a string literal): q1, q2 cached vs q2 uncached");
    rep.assume("the documented precedence table is the one in neumann_parser/src/expr.rs:7-18 and docs/book/src/architecture/neumann-parser.md:358 (all binary operators left-associative, unary above binary, postfix above unary)");
    rep.assume("a position is 'inside the input' iff start <= end <= input length (end-of-input errors point at len)");
    rep.assume("stack exhaustion is judged on a thread with an 8 MiB stack (the largest default in use: main thread); 2 MiB (Rust/tokio thread default) thresholds are reported for information");
    let (mut evals, mut states, mut nontrivial) = (0u64, 0u64, 0u64);
    if want("A") {
        let (trees, parses, need_parens) = part_a(&mut rep, thorough, selftest);
        states += trees;
        evals += parses;
        nontrivial += need_parens;
    }
    if want("B") {
        let (cases, calls, parsed_ok) = part_b(&mut rep, thorough, selftest);
        states += cases;
        evals += calls;
        nontrivial += parsed_ok;
    }
    if want("C") {
        let (cases, execs, effects) = part_c(&mut rep, selftest);
        states += cases;
        evals += execs;
        nontrivial += effects;
        let (pairs, execs, changed) = part_c3(&mut rep, selftest);
        states += pairs;
        evals += execs;
        nontrivial += changed;
    }
    rep.add("states", states);
    rep.add("transitions", evals);
    rep.add("traces_validated_against_impl", evals);
    rep.add("evaluations", evals);
    rep.add("distinct_nontrivial", nontrivial);
    rep.set("explanation", json!("states = expression trees + parser inputs + statements; evaluations = calls of the real parser/router compared with the reference; distinct_nontrivial = trees whose minimal printing needs parentheses + inputs accepted by parse or parse_expr + statements that change engine state"));
    rep.finish();
}
