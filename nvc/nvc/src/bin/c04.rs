//! C04 — relational queries return exactly the rows that satisfy the condition (DESIGN §5, C04).
//!
//! One table t(i Int?, f Float?, s String?, b Bool?).
//! Part A: breadth-first over every sequence of mutations (8 insert templates, update, delete_rows,
//!   create/drop hash index and ordered index on every column and on `_id`) up to depth 3 (quick) /
//!   4 (thorough), each sequence replayed on a fresh table of the real engine, dedup on a canonical
//!   observation (rows, next id, index flags, raw vectorised columns + alive/null masks, every stored
//!   index entry).  On every distinct state a battery of conditions goes through every public
//!   entry point of RelationalEngine that takes a condition (EP_NAMES below; call counts are
//!   measured into the evidence): select, select_with_options, select_with_projection,
//!   select_columnar, select_with_limit (all limit/offset), select_iter, select_streaming and
//!   select_streaming_builder (all batch sizes, max_rows), select_distinct, select_grouped,
//!   tx_select, count, count_column, sum/avg/min/max; update/delete_rows, their *_with_options
//!   variants and tx_update/tx_delete on a rebuilt copy; and as text through QueryRouter::execute
//!   and ::execute_parsed (SELECT *, the aggregate spellings COUNT(*)/COUNT(col)/SUM/AVG/MIN/MAX,
//!   GROUP BY, LIMIT/OFFSET, UPDATE, DELETE).
//! Part B: every sequence of exactly five inserts (tables longer than the 4 SIMD lanes), without
//!   indexes, with indexes created afterwards, and with indexes created first + one batch_insert;
//!   lighter battery.
//! Oracle: `{ r in reference rows | Condition::evaluate(r) }`; reference rows are a BTreeMap that is
//!   compared with the slab after every mutation.
//! Flags: --selftest (deliberately wrong oracle, must print VIOLATION), --repro (the standalone
//!   reproductions of the findings), --depth=N, --probe=states.
use nvc::Report;
use query_router::{QueryResult, QueryRouter};
use rayon::prelude::*;
use relational_engine::{AggregateExpr, AggregateValue, Column, ColumnType, ColumnarScanOptions, Condition, CursorOptions, QueryOptions, RelationalEngine, Row, Schema, Value};
use serde::{Deserialize, Serialize};
use serde_json::json;
use std::cell::{Cell, RefCell};
use std::collections::{BTreeMap, BTreeSet, HashMap, HashSet};
use std::rc::Rc;
use tensor_store::relational_slab::ColumnValue;
use tensor_store::{ScalarValue, TensorStore, TensorValue};

const COLS: [&str; 5] = ["i", "f", "s", "b", "_id"];
const STRS: [&str; 4] = ["a", "", "b", "é"];
const OPS: [&str; 6] = ["=", "!=", "<", "<=", ">", ">="];

// ------------------------------------------------------------------ values
#[derive(Clone, Copy, PartialEq, Eq, Hash, PartialOrd, Ord, Debug, Serialize, Deserialize)]
enum Val {
    Null,
    I(i64),
    /// f64 bit pattern
    F(u64),
    /// index into STRS
    S(u8),
    B(bool),
}
fn fl(x: f64) -> Val {
    Val::F(x.to_bits())
}
impl Val {
    fn value(self) -> Value {
        match self {
            Val::Null => Value::Null,
            Val::I(i) => Value::Int(i),
            Val::F(b) => Value::Float(f64::from_bits(b)),
            Val::S(k) => Value::String(STRS[k as usize].to_string()),
            Val::B(b) => Value::Bool(b),
        }
    }
    fn show(self) -> String {
        match self {
            Val::Null => "NULL".into(),
            Val::I(i) => format!("{i}"),
            Val::F(b) => show_f(f64::from_bits(b)),
            Val::S(k) => format!("'{}'", STRS[k as usize]),
            Val::B(b) => format!("{b}"),
        }
    }
    /// literal accepted by the AST parser (no unary minus, no NaN/inf)
    fn ast_text(self) -> Option<String> {
        match self {
            Val::I(i) if i < 0 => None,
            Val::F(b) => {
                let x = f64::from_bits(b);
                if x.is_finite() && !x.is_sign_negative() {
                    Some(show_f(x))
                } else {
                    None
                }
            }
            v => Some(v.show()),
        }
    }
    fn from_value(v: &Value) -> Option<Val> {
        Some(match v {
            Value::Null => Val::Null,
            Value::Int(i) => Val::I(*i),
            Value::Float(f) => Val::F(f.to_bits()),
            Value::String(s) => Val::S(STRS.iter().position(|x| x == s)? as u8),
            Value::Bool(b) => Val::B(*b),
            _ => return None,
        })
    }
}
fn show_f(x: f64) -> String {
    if x.is_nan() {
        "NaN".into()
    } else if x.is_infinite() {
        if x > 0.0 { "inf".into() } else { "-inf".into() }
    } else {
        format!("{x:?}")
    }
}
fn ints() -> Vec<Val> {
    vec![Val::I(0), Val::I(1), Val::I(-1), Val::I(i64::MAX), Val::I(i64::MIN)]
}
fn floats() -> Vec<Val> {
    vec![fl(0.0), fl(-0.0), fl(1.5), fl(f64::NAN), fl(f64::INFINITY), fl(f64::NEG_INFINITY)]
}
fn all_vals() -> Vec<Val> {
    let mut v = ints();
    v.extend(floats());
    v.extend((0..4).map(Val::S));
    v.extend([Val::B(true), Val::B(false), Val::Null]);
    v
}

// ------------------------------------------------------------------ conditions
#[derive(Clone, Debug, PartialEq, Serialize, Deserialize)]
enum Cx {
    True,
    /// column index into COLS, operator index into OPS, value
    A(u8, u8, Val),
    And(Box<Cx>, Box<Cx>),
    Or(Box<Cx>, Box<Cx>),
}
impl Cx {
    fn cond(&self) -> Condition {
        match self {
            Cx::True => Condition::True,
            Cx::A(c, o, v) => {
                let col = COLS[*c as usize].to_string();
                let v = v.value();
                match o {
                    0 => Condition::Eq(col, v),
                    1 => Condition::Ne(col, v),
                    2 => Condition::Lt(col, v),
                    3 => Condition::Le(col, v),
                    4 => Condition::Gt(col, v),
                    _ => Condition::Ge(col, v),
                }
            }
            Cx::And(a, b) => a.cond().and(b.cond()),
            Cx::Or(a, b) => a.cond().or(b.cond()),
        }
    }
    fn show(&self) -> String {
        match self {
            Cx::True => "TRUE".into(),
            Cx::A(c, o, v) => format!("{} {} {}", COLS[*c as usize], OPS[*o as usize], v.show()),
            Cx::And(a, b) => format!("({} AND {})", a.show(), b.show()),
            Cx::Or(a, b) => format!("({} OR {})", a.show(), b.show()),
        }
    }
    fn atoms(&self) -> usize {
        match self {
            Cx::True => 0,
            Cx::A(..) => 1,
            Cx::And(a, b) | Cx::Or(a, b) => a.atoms() + b.atoms(),
        }
    }
    /// WHERE text for the legacy `QueryRouter::execute` grammar (no parentheses): only forms whose
    /// reading is unambiguous: one atom, or a chain of atoms under a single connective.
    fn legacy_text(&self) -> Option<String> {
        match self {
            Cx::True => None,
            Cx::A(c, o, v) => Some(format!("{} {} {}", COLS[*c as usize], OPS[*o as usize], v.show())),
            Cx::And(a, b) => match (&**a, &**b) {
                (Cx::A(..), Cx::A(..)) => Some(format!("{} AND {}", a.legacy_text()?, b.legacy_text()?)),
                _ => None,
            },
            Cx::Or(a, b) => match (&**a, &**b) {
                (Cx::A(..), Cx::A(..)) => Some(format!("{} OR {}", a.legacy_text()?, b.legacy_text()?)),
                _ => None,
            },
        }
    }
    /// text with standard SQL precedence (AND binds tighter than OR), no parentheses; None if the
    /// tree cannot be written without parentheses
    fn flat_text(&self, ast: bool) -> Option<String> {
        let lit = |v: &Val| if ast { v.ast_text() } else { Some(v.show()) };
        match self {
            Cx::True => None,
            Cx::A(c, o, v) => Some(format!("{} {} {}", COLS[*c as usize], OPS[*o as usize], lit(v)?)),
            Cx::And(a, b) => {
                if matches!(**a, Cx::Or(..)) || matches!(**b, Cx::Or(..)) {
                    return None;
                }
                Some(format!("{} AND {}", a.flat_text(ast)?, b.flat_text(ast)?))
            }
            Cx::Or(a, b) => Some(format!("{} OR {}", a.flat_text(ast)?, b.flat_text(ast)?)),
        }
    }
    /// fully parenthesised text for the AST parser
    fn paren_text(&self) -> Option<String> {
        match self {
            Cx::True => None,
            Cx::A(c, o, v) => Some(format!("{} {} {}", COLS[*c as usize], OPS[*o as usize], v.ast_text()?)),
            Cx::And(a, b) => Some(format!("({} AND {})", a.paren_text()?, b.paren_text()?)),
            Cx::Or(a, b) => Some(format!("({} OR {})", a.paren_text()?, b.paren_text()?)),
        }
    }
}
fn and(a: &Cx, b: &Cx) -> Cx {
    Cx::And(Box::new(a.clone()), Box::new(b.clone()))
}
fn or(a: &Cx, b: &Cx) -> Cx {
    Cx::Or(Box::new(a.clone()), Box::new(b.clone()))
}

/// every comparison operator x every column (+ `_id`) x every alphabet value (cross-type included)
fn full_atoms() -> Vec<Cx> {
    let mut v = vec![];
    for c in 0..5u8 {
        let mut vals = all_vals();
        if c == 4 {
            vals.extend([Val::I(2), Val::I(3)]);
        }
        for val in vals {
            for o in 0..6u8 {
                v.push(Cx::A(c, o, val));
            }
        }
    }
    v
}
/// the atoms combined pairwise: per column the operators/values that select different
/// strategies (hash lookup, range lookup, vectorised, fallback) and different boundary rows
fn core_atoms() -> Vec<Cx> {
    vec![
        Cx::A(0, 0, Val::I(0)),
        Cx::A(0, 1, Val::I(0)),
        Cx::A(0, 2, Val::I(1)),
        Cx::A(0, 5, Val::I(0)),
        Cx::A(0, 3, Val::I(i64::MIN)),
        Cx::A(0, 0, Val::Null),
        Cx::A(1, 0, fl(0.0)),
        Cx::A(1, 0, fl(f64::INFINITY)),
        Cx::A(1, 1, fl(f64::NAN)),
        Cx::A(1, 2, fl(0.0)),
        Cx::A(1, 4, fl(-0.0)),
        Cx::A(1, 5, fl(0.0)),
        Cx::A(1, 3, fl(1.5)),
        Cx::A(2, 0, Val::S(0)),
        Cx::A(2, 1, Val::S(1)),
        Cx::A(2, 2, Val::S(2)),
        Cx::A(2, 5, Val::S(3)),
        Cx::A(3, 0, Val::B(true)),
        Cx::A(3, 0, Val::Null),
        Cx::A(3, 1, Val::B(false)),
        Cx::A(4, 0, Val::I(1)),
        Cx::A(4, 4, Val::I(1)),
        Cx::A(4, 3, Val::I(2)),
        Cx::A(0, 0, fl(0.0)),
        Cx::A(1, 2, Val::I(1)),
    ]
}
fn small_core() -> Vec<Cx> {
    vec![
        Cx::A(0, 0, Val::I(0)),
        Cx::A(0, 5, Val::I(0)),
        Cx::A(1, 0, fl(0.0)),
        Cx::A(1, 2, fl(1.5)),
        Cx::A(1, 4, fl(-0.0)),
        Cx::A(2, 5, Val::S(0)),
        Cx::A(3, 0, Val::B(true)),
        Cx::A(4, 4, Val::I(1)),
    ]
}

// ------------------------------------------------------------------ model
type Vals = [Val; 4];
#[derive(Clone, Debug, PartialEq)]
struct Model {
    rows: BTreeMap<u64, Vals>,
    next: u64,
    hash: [bool; 5],
    btree: [bool; 5],
    /// cells whose column was omitted at insert and never assigned since (for signatures only)
    omitted: BTreeSet<(u64, u8)>,
}
impl Model {
    fn new() -> Model {
        Model { rows: BTreeMap::new(), next: 0, hash: [false; 5], btree: [false; 5], omitted: BTreeSet::new() }
    }
}
fn mrow(id: u64, v: &Vals) -> Row {
    Row { id, values: (0..4).map(|k| (COLS[k].to_string(), v[k].value())).collect() }
}

/// insert templates: Some(v) = column given, None = column omitted. Every alphabet value occurs.
fn templates() -> Vec<[Option<Val>; 4]> {
    vec![
        [Some(Val::I(0)), Some(fl(0.0)), Some(Val::S(0)), Some(Val::B(true))],
        [Some(Val::I(1)), Some(fl(-0.0)), Some(Val::S(1)), Some(Val::B(false))],
        [Some(Val::I(-1)), Some(fl(1.5)), Some(Val::S(2)), Some(Val::Null)],
        [Some(Val::I(i64::MAX)), Some(fl(f64::NAN)), Some(Val::S(3)), None],
        [Some(Val::I(i64::MIN)), Some(fl(f64::INFINITY)), Some(Val::Null), Some(Val::B(true))],
        [Some(Val::Null), Some(fl(f64::NEG_INFINITY)), None, Some(Val::B(false))],
        [None, Some(Val::Null), Some(Val::S(0)), Some(Val::B(true))],
        [Some(Val::I(0)), None, Some(Val::S(1)), Some(Val::Null)],
    ]
}
fn upd_conds() -> Vec<Cx> {
    vec![Cx::A(4, 0, Val::I(1)), Cx::True]
}
fn upd_sets() -> Vec<(u8, Val)> {
    vec![(0, Val::I(0)), (0, Val::Null), (1, fl(-0.0)), (1, fl(0.0)), (1, fl(f64::NAN)), (1, Val::Null), (2, Val::Null), (3, Val::Null)]
}
fn del_conds() -> Vec<Cx> {
    vec![Cx::A(4, 0, Val::I(1)), Cx::A(4, 0, Val::I(2)), Cx::A(4, 4, Val::I(1))]
}

#[derive(Clone, Copy, PartialEq, Eq, Debug, Serialize, Deserialize)]
enum Op {
    Ins(u8),
    Upd(u8, u8),
    Del(u8),
    Hash(u8),
    Btree(u8),
    /// one `batch_insert` of five rows (insert templates); part B only, not in the BFS alphabet
    Batch([u8; 5]),
}
fn show_op(op: Op, before: &Model) -> String {
    match op {
        Op::Ins(k) => {
            let t = templates()[k as usize];
            let parts: Vec<String> = (0..4).filter_map(|c| t[c].map(|v| format!("{}={}", COLS[c], v.show()))).collect();
            format!("insert({})", parts.join(", "))
        }
        Op::Upd(c, s) => {
            let (col, v) = upd_sets()[s as usize];
            format!("update(where {}, set {}={})", upd_conds()[c as usize].show(), COLS[col as usize], v.show())
        }
        Op::Del(c) => format!("delete_rows(where {})", del_conds()[c as usize].show()),
        Op::Hash(c) => format!("{}({})", if before.hash[c as usize] { "drop_index" } else { "create_index" }, COLS[c as usize]),
        Op::Btree(c) => format!("{}({})", if before.btree[c as usize] { "drop_btree_index" } else { "create_btree_index" }, COLS[c as usize]),
        Op::Batch(ks) => format!("batch_insert([{}])", ks.iter().map(|k| show_op(Op::Ins(*k), before)).collect::<Vec<_>>().join(", ")),
    }
}
fn show_seq(seq: &[Op]) -> Vec<String> {
    let mut m = Model::new();
    let mut out = vec![];
    for &op in seq {
        out.push(show_op(op, &m));
        apply_model(&mut m, op);
    }
    out
}
fn alphabet(ntempl: usize) -> Vec<Op> {
    let mut v: Vec<Op> = (0..ntempl as u8).map(Op::Ins).collect();
    for c in 0..5u8 {
        v.push(Op::Hash(c));
        v.push(Op::Btree(c));
    }
    for c in 0..upd_conds().len() as u8 {
        for s in 0..upd_sets().len() as u8 {
            v.push(Op::Upd(c, s));
        }
    }
    for c in 0..del_conds().len() as u8 {
        v.push(Op::Del(c));
    }
    v
}

fn matching(m: &Model, c: &Condition, selftest: bool) -> Vec<u64> {
    let rows: Vec<Row> = m.rows.iter().map(|(id, v)| mrow(*id, v)).collect();
    matching_rows(&rows, c, selftest)
}
/// the reference answer: the ids of the reference rows for which `Condition::evaluate` is true
fn matching_rows(rows: &[Row], c: &Condition, selftest: bool) -> Vec<u64> {
    rows.iter()
        .filter(|r| {
            let r: &Row = r;
            let mut t = c.evaluate(r);
            if selftest {
                // deliberately wrong oracle: `i < x` read as `i <= x`
                if let Condition::Lt(col, val) = c {
                    if col == "i" {
                        t = Condition::Le(col.clone(), val.clone()).evaluate(r);
                    }
                }
            }
            t
        })
        .map(|r| r.id)
        .collect()
}

/// returns the number of rows the reference touches
fn apply_model(m: &mut Model, op: Op) -> usize {
    match op {
        Op::Ins(k) => {
            let t = templates()[k as usize];
            m.next += 1;
            let mut v = [Val::Null; 4];
            for c in 0..4 {
                v[c] = t[c].unwrap_or(Val::Null);
                if t[c].is_none() {
                    m.omitted.insert((m.next, c as u8));
                }
            }
            m.rows.insert(m.next, v);
            1
        }
        Op::Upd(c, s) => {
            let ids = matching(m, &upd_conds()[c as usize].cond(), false);
            let (col, v) = upd_sets()[s as usize];
            for id in &ids {
                m.rows.get_mut(id).unwrap()[col as usize] = v;
                m.omitted.remove(&(*id, col));
            }
            ids.len()
        }
        Op::Del(c) => {
            let ids = matching(m, &del_conds()[c as usize].cond(), false);
            for id in &ids {
                m.rows.remove(id);
                m.omitted.retain(|(r, _)| r != id);
            }
            ids.len()
        }
        Op::Hash(c) => {
            m.hash[c as usize] = !m.hash[c as usize];
            0
        }
        Op::Btree(c) => {
            m.btree[c as usize] = !m.btree[c as usize];
            0
        }
        Op::Batch(ks) => {
            for k in ks {
                apply_model(m, Op::Ins(k));
            }
            ks.len()
        }
    }
}

// ------------------------------------------------------------------ engine
/// Creating a TensorStore costs ~1 ms, so every worker thread keeps one QueryRouter (which owns the
/// RelationalEngine) and every rebuild uses a fresh, uniquely named table in it; the table and its
/// indexes are dropped afterwards and the whole engine is replaced every POOL_REFRESH tables.
struct Pool {
    store: TensorStore,
    router: QueryRouter,
    used: Cell<usize>,
}
const POOL_REFRESH: usize = 4096;
thread_local! {
    static POOL: RefCell<Option<Rc<Pool>>> = const { RefCell::new(None) };
}
fn pool() -> Rc<Pool> {
    POOL.with(|p| {
        let mut p = p.borrow_mut();
        let stale = p.as_ref().is_none_or(|x| x.used.get() >= POOL_REFRESH);
        if stale {
            let store = TensorStore::new();
            *p = Some(Rc::new(Pool { router: QueryRouter::with_shared_store(store.clone()), store, used: Cell::new(0) }));
        }
        let r = p.as_ref().unwrap().clone();
        r.used.set(r.used.get() + 1);
        r
    })
}
struct Eng {
    pool: Rc<Pool>,
    t: String,
}
impl Drop for Eng {
    fn drop(&mut self) {
        let e = self.e();
        for c in COLS {
            if e.has_btree_index(&self.t, c) {
                let _ = e.drop_btree_index(&self.t, c);
            }
        }
        let _ = e.drop_table(&self.t);
    }
}
impl Eng {
    fn new() -> Eng {
        let pool = pool();
        let t = format!("w{}", pool.used.get());
        let e = Eng { pool, t };
        let schema = Schema::new(vec![
            Column::new("i", ColumnType::Int).nullable(),
            Column::new("f", ColumnType::Float).nullable(),
            Column::new("s", ColumnType::String).nullable(),
            Column::new("b", ColumnType::Bool).nullable(),
        ]);
        e.e().create_table(&e.t, schema).expect("create_table");
        e
    }
    fn e(&self) -> &RelationalEngine {
        self.pool.router.relational()
    }
    fn store(&self) -> &TensorStore {
        &self.pool.store
    }
    /// apply one mutation; returns Ok(rows touched) or the engine's error text
    fn apply(&self, op: Op, before: &Model) -> Result<usize, String> {
        let e = self.e();
        let t = self.t.as_str();
        match op {
            Op::Ins(k) => {
                let tp = templates()[k as usize];
                let mut hm = HashMap::new();
                for c in 0..4 {
                    if let Some(v) = tp[c] {
                        hm.insert(COLS[c].to_string(), v.value());
                    }
                }
                e.insert(t, hm).map(|_| 1).map_err(|x| x.to_string())
            }
            Op::Upd(c, s) => {
                let (col, v) = upd_sets()[s as usize];
                e.update(t, upd_conds()[c as usize].cond(), HashMap::from([(COLS[col as usize].to_string(), v.value())])).map_err(|x| x.to_string())
            }
            Op::Del(c) => e.delete_rows(t, del_conds()[c as usize].cond()).map_err(|x| x.to_string()),
            Op::Hash(c) => {
                let col = COLS[c as usize];
                if before.hash[c as usize] { e.drop_index(t, col) } else { e.create_index(t, col) }.map(|_| 0).map_err(|x| x.to_string())
            }
            Op::Btree(c) => {
                let col = COLS[c as usize];
                if before.btree[c as usize] { e.drop_btree_index(t, col) } else { e.create_btree_index(t, col) }.map(|_| 0).map_err(|x| x.to_string())
            }
            Op::Batch(ks) => {
                let rows: Vec<HashMap<String, Value>> = ks
                    .iter()
                    .map(|k| {
                        let tp = templates()[*k as usize];
                        (0..4).filter_map(|c| tp[c].map(|v| (COLS[c].to_string(), v.value()))).collect()
                    })
                    .collect();
                e.batch_insert(t, rows).map(|ids| ids.len()).map_err(|x| x.to_string())
            }
        }
    }
    /// authoritative rows read straight from the slab (not through any query path)
    fn raw_rows(&self) -> Result<BTreeMap<u64, Vals>, String> {
        let rows = self.store().router().relations.scan_all(&self.t).map_err(|e| e.to_string())?;
        let mut out = BTreeMap::new();
        for (rid, r) in rows {
            let mut v = [Val::Null; 4];
            for (k, cv) in r.iter().enumerate() {
                v[k] = match cv {
                    ColumnValue::Null => Val::Null,
                    ColumnValue::Int(i) => Val::I(*i),
                    ColumnValue::Float(f) => Val::F(f.to_bits()),
                    ColumnValue::String(s) => Val::S(STRS.iter().position(|x| x == s).ok_or("unknown string")? as u8),
                    ColumnValue::Bool(b) => Val::B(*b),
                    other => return Err(format!("unexpected slab value {other:?}")),
                };
            }
            out.insert(rid.as_u64() + 1, v);
        }
        Ok(out)
    }
    /// everything observable that can influence a later query: raw vectorised columns with their
    /// alive/null masks, every stored index entry (keys made relative to the table name)
    fn hidden_digest(&self) -> String {
        use std::fmt::Write;
        let mut s = String::new();
        let slab = &self.store().router().relations;
        if let Ok((v, a, n)) = slab.get_int_column(&self.t, "i") {
            let _ = write!(s, "I{v:?}{a:?}{n:?}");
        }
        if let Ok((v, a, n)) = slab.get_float_column(&self.t, "f") {
            let bits: Vec<u64> = v.iter().map(|x| x.to_bits()).collect();
            let _ = write!(s, "F{bits:x?}{a:?}{n:?}");
        }
        for kind in ["_idx:", "_btree:", "_col:"] {
            let prefix = format!("{kind}{}:", self.t);
            let mut keys = self.store().scan(&prefix);
            keys.sort();
            for k in keys {
                let _ = write!(s, "|{kind}{}", &k[prefix.len()..]);
                if let Ok(t) = self.store().get(&k) {
                    if let Some(TensorValue::Scalar(ScalarValue::Bytes(b))) = t.get("ids") {
                        let ids: Vec<u64> = b.chunks_exact(8).map(|c| u64::from_le_bytes(c.try_into().unwrap())).collect();
                        let _ = write!(s, "={ids:?}");
                    }
                }
            }
        }
        s
    }
}

/// replay `seq` on a fresh table
fn build(seq: &[Op]) -> (Eng, Model) {
    let eng = Eng::new();
    let mut m = Model::new();
    for &op in seq {
        let _ = eng.apply(op, &m);
        apply_model(&mut m, op);
    }
    (eng, m)
}

// ------------------------------------------------------------------ violation collection
/// every public entry point that is driven with a condition (index into `Out::ep`, measured per call)
const EP_NAMES: [&str; 36] = [
    "RelationalEngine::select",
    "RelationalEngine::select_with_options",
    "RelationalEngine::select_with_projection",
    "RelationalEngine::select_columnar",
    "RelationalEngine::select_with_limit",
    "RelationalEngine::select_iter",
    "RelationalEngine::select_streaming",
    "RelationalEngine::select_streaming_builder(batch_size,max_rows)",
    "RelationalEngine::select_distinct",
    "RelationalEngine::select_grouped",
    "RelationalEngine::tx_select",
    "RelationalEngine::count",
    "RelationalEngine::count_column",
    "RelationalEngine::sum",
    "RelationalEngine::avg",
    "RelationalEngine::min",
    "RelationalEngine::max",
    "RelationalEngine::update",
    "RelationalEngine::update_with_options",
    "RelationalEngine::tx_update",
    "RelationalEngine::delete_rows",
    "RelationalEngine::delete_rows_with_options",
    "RelationalEngine::tx_delete",
    "QueryRouter::execute SELECT * WHERE",
    "QueryRouter::execute_parsed SELECT * WHERE",
    "QueryRouter::execute_parsed SELECT COUNT(*),COUNT(col).. WHERE",
    "QueryRouter::execute_parsed SELECT SUM/AVG.. WHERE",
    "QueryRouter::execute_parsed SELECT MIN/MAX.. WHERE",
    "QueryRouter::execute_parsed SELECT b,COUNT.. WHERE .. GROUP BY b",
    "QueryRouter::execute_parsed UPDATE .. WHERE",
    "QueryRouter::execute_parsed DELETE FROM .. WHERE",
    "QueryRouter::execute UPDATE .. WHERE",
    "QueryRouter::execute DELETE .. WHERE",
    "QueryRouter::execute_parsed SELECT s,i .. WHERE .. LIMIT l OFFSET o",
    "QueryRouter::execute SELECT * .. WHERE .. LIMIT l",
    "RelationalEngine::batch_insert (history)",
];
const EP_SELECT: usize = 0;
const EP_SELECT_OPTS: usize = 1;
const EP_SELECT_PROJ: usize = 2;
const EP_COLUMNAR: usize = 3;
const EP_LIMIT: usize = 4;
const EP_ITER: usize = 5;
const EP_STREAMING: usize = 6;
const EP_BUILDER: usize = 7;
const EP_DISTINCT: usize = 8;
const EP_GROUPED: usize = 9;
const EP_TX_SELECT: usize = 10;
const EP_COUNT: usize = 11;
const EP_COUNT_COLUMN: usize = 12;
const EP_SUM: usize = 13;
const EP_AVG: usize = 14;
const EP_MIN: usize = 15;
const EP_MAX: usize = 16;
const EP_UPDATE: usize = 17;
const EP_UPDATE_OPTS: usize = 18;
const EP_TX_UPDATE: usize = 19;
const EP_DELETE: usize = 20;
const EP_DELETE_OPTS: usize = 21;
const EP_TX_DELETE: usize = 22;
const EP_TEXT_LEGACY: usize = 23;
const EP_TEXT_AST: usize = 24;
const EP_TEXT_AGG: usize = 25; // +variant 0..3
const EP_TEXT_UPDATE_AST: usize = 29;
const EP_TEXT_DELETE_AST: usize = 30;
const EP_TEXT_UPDATE_LEGACY: usize = 31;
const EP_TEXT_DELETE_LEGACY: usize = 32;
const EP_TEXT_LIMIT_AST: usize = 33;
const EP_TEXT_LIMIT_LEGACY: usize = 34;
const EP_BATCH_INSERT: usize = 35;

struct Counts([u64; 36]);
impl Default for Counts {
    fn default() -> Self {
        Counts([0; 36])
    }
}
impl std::ops::Index<usize> for Counts {
    type Output = u64;
    fn index(&self, k: usize) -> &u64 {
        &self.0[k]
    }
}
impl std::ops::IndexMut<usize> for Counts {
    fn index_mut(&mut self, k: usize) -> &mut u64 {
        &mut self.0[k]
    }
}
#[derive(Default)]
struct Out {
    viols: Vec<(String, String, serde_json::Value)>,
    by_sig: BTreeMap<String, u64>,
    evals: u64,
    calls: u64,
    nontrivial: u64,
    text_ok: u64,
    text_err: u64,
    skipped_limit: u64,
    outcomes: HashSet<Vec<u64>>,
    /// calls per entry point (EP_NAMES)
    ep: Counts,
    /// text entry points only: statements that were answered in the expected shape and judged
    judged: Counts,
    /// router answers whose shape the harness does not understand (counted, not judged)
    text_unjudged: u64,
    /// count_column calls that ran on an index path while the driving leaf alone selects more rows
    /// than the whole condition (the index candidates are a strict superset of the answer)
    cc_superset: u64,
}
impl Out {
    fn hit(&mut self, ep: usize) {
        self.calls += 1;
        self.ep[ep] += 1;
    }
    fn viol(&mut self, sig: String, msg: String, seq: &[Op], extra: serde_json::Value) {
        let n = self.by_sig.entry(sig.clone()).or_insert(0);
        *n += 1;
        if *n <= 1 {
            let mut rp = json!({"ops": show_seq(seq), "ops_code": seq});
            if let (Some(a), Some(b)) = (rp.as_object_mut(), extra.as_object()) {
                for (k, v) in b {
                    a.insert(k.clone(), v.clone());
                }
            }
            self.viols.push((sig, msg, rp));
        }
    }
    fn merge(&mut self, o: Out, cap: usize) {
        for v in o.viols {
            if self.viols.iter().filter(|x| x.0 == v.0).count() < cap {
                self.viols.push(v);
            }
        }
        for (k, n) in o.by_sig {
            *self.by_sig.entry(k).or_insert(0) += n;
        }
        self.evals += o.evals;
        self.calls += o.calls;
        self.nontrivial += o.nontrivial;
        self.text_ok += o.text_ok;
        self.text_err += o.text_err;
        self.skipped_limit += o.skipped_limit;
        self.text_unjudged += o.text_unjudged;
        self.cc_superset += o.cc_superset;
        for k in 0..self.ep.0.len() {
            self.ep[k] += o.ep[k];
            self.judged[k] += o.judged[k];
        }
        if self.outcomes.len() < 100_000 {
            self.outcomes.extend(o.outcomes);
        }
    }
}

// ------------------------------------------------------------------ signatures
fn val_class(v: &Val) -> &'static str {
    match v {
        Val::Null => "null",
        Val::I(_) => "int",
        Val::F(b) => {
            let x = f64::from_bits(*b);
            if x.is_nan() {
                "nan"
            } else if x.is_infinite() {
                "inf"
            } else if x == 0.0 {
                if x.is_sign_negative() { "negzero" } else { "zero" }
            } else {
                "float"
            }
        }
        Val::S(_) => "str",
        Val::B(_) => "bool",
    }
}
const COLKIND: [&str; 5] = ["int", "float", "str", "bool", "id"];
const OPNAME: [&str; 6] = ["eq", "ne", "lt", "le", "gt", "ge"];
/// which index (if any) `try_index_lookup` consults for this condition in state `m`
fn index_path(cx: &Cx, m: &Model) -> Option<&'static str> {
    match cx {
        Cx::A(c, 0, _) if m.hash[*c as usize] => Some("hash"),
        Cx::A(c, o, _) if *o >= 2 && m.btree[*c as usize] => Some("btree"),
        Cx::And(a, b) => index_path(a, m).or_else(|| index_path(b, m)),
        _ => None,
    }
}
/// the atom that drives that lookup
fn driving_atom<'a>(cx: &'a Cx, m: &Model) -> Option<&'a Cx> {
    match cx {
        Cx::A(..) if index_path(cx, m).is_some() => Some(cx),
        Cx::And(a, b) => driving_atom(a, m).or_else(|| driving_atom(b, m)),
        _ => None,
    }
}
fn shape(cx: &Cx) -> &'static str {
    match cx {
        Cx::True => "true",
        Cx::A(..) => "atom",
        Cx::And(..) => "and",
        Cx::Or(..) => "or",
    }
}
fn cell(m: &Model, id: u64, col: u8) -> Val {
    if col == 4 {
        Val::I(id as i64)
    } else {
        m.rows.get(&id).map_or(Val::Null, |r| r[col as usize])
    }
}
fn collect_atoms<'a>(cx: &'a Cx, out: &mut Vec<&'a Cx>) {
    match cx {
        Cx::A(..) => out.push(cx),
        Cx::And(a, b) | Cx::Or(a, b) => {
            collect_atoms(a, out);
            collect_atoms(b, out);
        }
        Cx::True => {}
    }
}
/// does select_columnar(prefer_columnar) evaluate this condition with the vectorised filter
/// (otherwise it falls back to `select`)?  Used for naming signatures only.
fn vectorisable(cx: &Cx) -> bool {
    match cx {
        Cx::True => false,
        Cx::A(0, _, Val::I(_)) => true,
        Cx::A(1, o, Val::F(_)) => matches!(o, 0 | 2 | 4),
        Cx::A(..) => false,
        Cx::And(a, b) | Cx::Or(a, b) => vectorisable(a) && vectorisable(b),
    }
}
fn eval_atom(a: &Cx, m: &Model, id: u64) -> bool {
    m.rows.get(&id).is_some_and(|r| a.cond().evaluate(&mrow(id, r)))
}
/// Root-cause signature for an id set that differs from the reference.
/// `columnar_call` = the call went through select_columnar(prefer_columnar) (directly or via execute_parsed).
fn classify(columnar_call: bool, cx: &Cx, m: &Model, exp: &[u64], got: &[u64]) -> String {
    let missing: Vec<u64> = exp.iter().filter(|x| !got.contains(x)).copied().collect();
    let extra: Vec<u64> = got.iter().filter(|x| !exp.contains(x)).copied().collect();
    let (d, dir) = match (missing.first(), extra.first()) {
        (Some(d), _) => (*d, "missing"),
        (None, Some(d)) => (*d, "extra"),
        _ => (0, "order-or-duplicate"),
    };
    if columnar_call && vectorisable(cx) {
        let mut atoms = vec![];
        collect_atoms(cx, &mut atoms);
        // an atom the vectorised filter evaluates on a row whose cell is NULL
        if atoms.iter().any(|a| matches!(a, Cx::A(c, _, _) if cell(m, d, *c) == Val::Null)) {
            return "c04:columnar:null-cell-compared-as-stored-placeholder".into();
        }
        // the atoms that must have been mis-evaluated on row d
        let culprit = atoms.iter().find(|a| eval_atom(a, m, d) == (dir == "missing") && matches!(a, Cx::A(1, 0, _))).or_else(|| atoms.iter().find(|a| eval_atom(a, m, d) == (dir == "missing")));
        if let Some(Cx::A(c, o, v)) = culprit {
            return format!("c04:columnar:{}-{}:lit-{}:row-{}:{dir}", COLKIND[*c as usize], OPNAME[*o as usize], val_class(v), val_class(&cell(m, d, *c)));
        }
        return format!("c04:columnar:other:{}:{dir}", shape(cx));
    }
    match (index_path(cx, m), driving_atom(cx, m)) {
        (Some(p), Some(Cx::A(c, o, v))) => {
            let rv = cell(m, d, *c);
            if p == "hash" && *v == Val::Null && m.omitted.contains(&(d, *c)) {
                return "c04:hash-index:null-of-omitted-column-not-indexed".into();
            }
            if p == "hash" && matches!(val_class(v), "zero" | "negzero") && matches!(val_class(&rv), "zero" | "negzero") && val_class(v) != val_class(&rv) {
                return "c04:hash-index:float-signed-zero-keyed-by-bits".into();
            }
            format!("c04:{p}-index:{}:{}:lit-{}:row-{}:{dir}", COLKIND[*c as usize], OPNAME[*o as usize], val_class(v), val_class(&rv))
        }
        _ => format!("c04:scan:{}:{dir}", shape(cx)),
    }
}

// ------------------------------------------------------------------ battery
struct Ctx<'a> {
    seq: &'a [Op],
    m: &'a Model,
    /// the reference rows of `m` in the engine's row type (built once per state)
    rows: Vec<Row>,
    selftest: bool,
}
impl<'a> Ctx<'a> {
    fn new(seq: &'a [Op], m: &'a Model, selftest: bool) -> Ctx<'a> {
        Ctx { seq, m, rows: m.rows.iter().map(|(id, v)| mrow(*id, v)).collect(), selftest }
    }
}
fn ids_of(rows: &[Row]) -> Vec<u64> {
    rows.iter().map(|r| r.id).collect()
}
fn sorted(mut v: Vec<u64>) -> Vec<u64> {
    v.sort_unstable();
    v
}
fn content_ok(rows: &[Row], m: &Model, proj: Option<&[&str]>) -> bool {
    rows.iter().all(|r| {
        let Some(mv) = m.rows.get(&r.id) else { return true };
        let want_n = (0..4).filter(|k| proj.is_none_or(|p| p.contains(&COLS[*k]))).count();
        // every returned cell is a wanted column with the table's value, and no column twice / missing
        let mut seen = [false; 4];
        r.values.len() == want_n
            && r.values.iter().all(|(c, v)| {
                let Some(k) = (0..4).find(|k| COLS[*k] == c.as_str()) else { return false };
                if seen[k] || !proj.is_none_or(|p| p.contains(&COLS[k])) {
                    return false;
                }
                seen[k] = true;
                Val::from_value(v) == Some(mv[k])
            })
    })
}
fn qjson(cx: &Cx, strategy: &str, exp: &[u64], got: &[u64]) -> serde_json::Value {
    json!({"query": cx.show(), "cond_code": cx, "strategy": strategy, "expected_ids": exp, "got_ids": got})
}
fn check_ids(out: &mut Out, ctx: &Ctx, ep: usize, strategy: &str, vectorised: bool, cx: &Cx, exp: &[u64], got: Result<Vec<u64>, String>, ordered: bool) {
    out.hit(ep);
    match got {
        Err(e) => out.viol(format!("c04:{strategy}:error"), format!("{strategy}({}) failed: {e}", cx.show()), ctx.seq, qjson(cx, strategy, exp, &[])),
        Ok(g) => {
            let ok = if ordered { g == exp } else { sorted(g.clone()) == exp };
            if !ok {
                out.viol(classify(vectorised, cx, ctx.m, exp, &g), format!("{strategy}({}) returned ids {:?}; the rows satisfying the condition are {:?}", cx.show(), g, exp), ctx.seq, qjson(cx, strategy, exp, &g));
            }
        }
    }
}

/// Signature of a wrong aggregate. `sel` = what plain `select` returns for the same condition.
/// If `select` itself loses/gains rows the cause is the lookup and is named by `classify`.
fn agg_sig(kind: &str, cx: &Cx, m: &Model, exp: &[u64], sel: Option<&[u64]>, over: Option<bool>) -> String {
    match sel {
        Some(s) if s != exp => classify(false, cx, m, exp, s),
        _ => {
            let path = index_path(cx, m);
            if kind == "count_column" && path.is_some() && over == Some(true) {
                // select (same lookup, same candidates) is right and the scan code is the same without
                // an index: rows that fail the condition were counted among the index candidates
                "c04:count_column:index-candidates-not-rechecked".into()
            } else if kind == "count_column" {
                format!("c04:count_column:{}:{}:{}-although-select-is-right", path.unwrap_or("scan"), shape(cx), match over {
                    Some(true) => "overcount",
                    Some(false) => "undercount",
                    None => "differs",
                })
            } else {
                format!("c04:{kind}:differs-although-select-is-right:{}", path.unwrap_or("scan"))
            }
        }
    }
}
fn nonnull_of(m: &Model, ids: &[u64], col: usize) -> u64 {
    ids.iter().filter(|id| m.rows.get(id).is_some_and(|r| r[col] != Val::Null)).count() as u64
}
/// count_column(col, cx) against the reference: rows satisfying the condition whose `col` is not NULL
fn check_count_column(out: &mut Out, ctx: &Ctx, eng: &Eng, cx: &Cx, exp: &[u64], sel: Option<&[u64]>, col: usize) {
    out.hit(EP_COUNT_COLUMN);
    if let (Some(_), Some(d)) = (index_path(cx, ctx.m), driving_atom(cx, ctx.m)) {
        if matching_rows(&ctx.rows, &d.cond(), false).len() > exp.len() {
            out.cc_superset += 1;
        }
    }
    let want = nonnull_of(ctx.m, exp, col);
    match eng.e().count_column(&eng.t, COLS[col], cx.cond()) {
        Ok(n) if n == want => {}
        Ok(n) => {
            let sig = match sel {
                // the same number over the rows `select` returns: then the lookup is the cause
                Some(s) if s != exp && nonnull_of(ctx.m, s, col) == n => classify(false, cx, ctx.m, exp, s),
                Some(s) if s == exp => agg_sig("count_column", cx, ctx.m, exp, sel, Some(n > want)),
                // select is wrong as well, in another way (or was not asked)
                _ => format!("c04:count_column:{}:{}:{}", index_path(cx, ctx.m).unwrap_or("scan"), shape(cx), if n > want { "overcount" } else { "undercount" }),
            };
            let mut rj = qjson(cx, "count_column", exp, &[]);
            rj["column"] = json!(COLS[col]);
            rj["got"] = json!(n);
            rj["expected"] = json!(want);
            out.viol(sig, format!("count_column({}, where {}) = {n}; {} rows satisfy the condition ({exp:?}) and {want} of them have a non-NULL {}", COLS[col], cx.show(), exp.len(), COLS[col]), ctx.seq, rj);
        }
        Err(x) => out.viol("c04:count_column:error".into(), format!("count_column({}, where {}) failed: {x}", COLS[col], cx.show()), ctx.seq, qjson(cx, "count_column", exp, &[])),
    }
}

/// `rot` picks the column counted by count_column when `all_cols` is off (it advances with every
/// condition and with the depth of the state, so every column meets every condition)
fn read_battery(out: &mut Out, ctx: &Ctx, eng: &Eng, cx: &Cx, level: u8, rot: usize, all_cols: bool) {
    let e = eng.e();
    let t = eng.t.as_str();
    let c = cx.cond();
    let exp = matching_rows(&ctx.rows, &c, ctx.selftest);
    out.evals += 1;
    if !exp.is_empty() && exp.len() < ctx.m.rows.len() {
        out.nontrivial += 1;
    }
    if out.outcomes.len() < 4096 {
        out.outcomes.insert(exp.clone());
    }
    let r = e.select(t, c.clone());
    if let Ok(rows) = &r {
        if !content_ok(rows, ctx.m, None) {
            out.viol("c04:select:row-content".into(), format!("select({}) returned rows whose values differ from the table", cx.show()), ctx.seq, qjson(cx, "select", &exp, &[]));
        }
    }
    let sel: Option<Vec<u64>> = r.as_ref().ok().map(|x| ids_of(x));
    check_ids(out, ctx, EP_SELECT, "select", false, cx, &exp, r.map(|x| ids_of(&x)).map_err(|x| x.to_string()), false);
    out.hit(EP_COUNT);
    match e.count(t, c.clone()) {
        Ok(n) if n as usize == exp.len() => {}
        Ok(n) => {
            // count walks the same lookup as select: name it after the rows select loses/gains
            let sig = match &sel {
                Some(s) if s.len() as u64 == n && *s != exp => classify(false, cx, ctx.m, &exp, s),
                _ => format!("c04:count:differs-from-select:{}", index_path(cx, ctx.m).unwrap_or("scan")),
            };
            out.viol(sig, format!("count({}) = {n}; {} rows satisfy the condition", cx.show(), exp.len()), ctx.seq, qjson(cx, "count", &exp, &[]));
        }
        Err(x) => out.viol("c04:count:error".into(), format!("count({}) failed: {x}", cx.show()), ctx.seq, qjson(cx, "count", &exp, &[])),
    }
    if all_cols {
        for col in 0..4 {
            check_count_column(out, ctx, eng, cx, &exp, sel.as_deref(), col);
        }
    } else {
        check_count_column(out, ctx, eng, cx, &exp, sel.as_deref(), rot % 4);
    }
    let r = e.select_columnar(t, c.clone(), ColumnarScanOptions { projection: None, prefer_columnar: true });
    if let Ok(rows) = &r {
        if !content_ok(rows, ctx.m, None) {
            out.viol("c04:columnar:row-content".into(), format!("select_columnar({}) returned rows whose values differ from the table", cx.show()), ctx.seq, qjson(cx, "select_columnar", &exp, &[]));
        }
    }
    check_ids(out, ctx, EP_COLUMNAR, "select_columnar", true, cx, &exp, r.map(|x| ids_of(&x)).map_err(|x| x.to_string()), false);
    if level >= 1 {
        let r = e.select_streaming(t, c.clone()).map(|x| x.map(|r| r.id).map_err(|e| e.to_string())).collect::<Result<Vec<u64>, String>>();
        check_ids(out, ctx, EP_STREAMING, "select_streaming", false, cx, &exp, r, false);
    }
    if level >= 2 {
        let r = e.select_columnar(t, c.clone(), ColumnarScanOptions { projection: Some(vec!["s".into(), "i".into()]), prefer_columnar: true });
        if let Ok(rows) = &r {
            if !content_ok(rows, ctx.m, Some(&["s", "i"])) {
                out.viol("c04:columnar:projection-content".into(), format!("select_columnar({}, projection [s,i]) returned wrong values", cx.show()), ctx.seq, qjson(cx, "select_columnar+projection", &exp, &[]));
            }
        }
        check_ids(out, ctx, EP_COLUMNAR, "select_columnar+projection", true, cx, &exp, r.map(|x| ids_of(&x)).map_err(|x| x.to_string()), false);
        let r = e.select_columnar(t, c.clone(), ColumnarScanOptions { projection: None, prefer_columnar: false });
        check_ids(out, ctx, EP_COLUMNAR, "select_columnar(prefer_columnar=false)", false, cx, &exp, r.map(|x| ids_of(&x)).map_err(|x| x.to_string()), false);
        let r = e.select_iter(t, c.clone(), CursorOptions::default()).map_err(|x| x.to_string()).and_then(|cur| cur.map(|x| x.map(|r| r.id).map_err(|e| e.to_string())).collect::<Result<Vec<u64>, String>>());
        check_ids(out, ctx, EP_ITER, "select_iter", false, cx, &exp, r, false);
    }
}

fn perms<T: Clone>(v: &[T]) -> Vec<Vec<T>> {
    if v.len() <= 1 {
        return vec![v.to_vec()];
    }
    let mut out = vec![];
    for i in 0..v.len() {
        let mut rest = v.to_vec();
        let x = rest.remove(i);
        for mut p in perms(&rest) {
            p.insert(0, x.clone());
            out.push(p);
        }
    }
    out
}

// ------------------------------------------------------------------ aggregate reference
// The statement fixes the row set, not the arithmetic: a sum/avg/min/max is accepted if SOME fold
// order over exactly the values of the matching rows yields it.
fn num(v: &Val) -> Option<f64> {
    match v {
        Val::I(i) => Some(*i as f64),
        Val::F(b) => Some(f64::from_bits(*b)),
        _ => None,
    }
}
fn feq(a: f64, b: f64) -> bool {
    (a.is_nan() && b.is_nan()) || a.to_bits() == b.to_bits()
}
fn fold_sum(p: &[Val]) -> f64 {
    p.iter().filter_map(num).fold(0.0, |a, b| a + b)
}
fn sum_ok(vals: &[Val], got: f64) -> bool {
    feq(fold_sum(vals), got) || perms(vals).iter().any(|p| feq(fold_sum(p), got))
}
fn avg_ok(vals: &[Val], got: Option<f64>) -> bool {
    let n = vals.iter().filter_map(num).count();
    match got {
        None => n == 0,
        Some(g) => n > 0 && (feq(fold_sum(vals) / n as f64, g) || perms(vals).iter().any(|p| feq(fold_sum(p) / n as f64, g))),
    }
}
fn fold_minmax(p: &[Val], is_min: bool) -> Option<Val> {
    let mut best: Option<Val> = None;
    for v in p {
        if *v == Val::Null {
            continue;
        }
        best = match best {
            None => Some(*v),
            Some(cur) => {
                let o = match (v, &cur) {
                    (Val::I(a), Val::I(b)) => Some(a.cmp(b)),
                    (Val::F(a), Val::F(b)) => f64::from_bits(*a).partial_cmp(&f64::from_bits(*b)),
                    (Val::S(a), Val::S(b)) => Some(STRS[*a as usize].cmp(STRS[*b as usize])),
                    _ => None,
                };
                let want = if is_min { std::cmp::Ordering::Less } else { std::cmp::Ordering::Greater };
                if o == Some(want) { Some(*v) } else { Some(cur) }
            }
        };
    }
    best
}
/// `got`: None = no value, Some(None) = a value outside the alphabet
fn minmax_ok(vals: &[Val], is_min: bool, got: &Option<Option<Val>>) -> bool {
    let same = |a: Option<Val>| match (got, a) {
        (None, None) => true,
        (Some(Some(x)), Some(y)) => *x == y || matches!((x, y), (Val::F(p), Val::F(q)) if f64::from_bits(*p).is_nan() && f64::from_bits(q).is_nan()),
        _ => false,
    };
    same(fold_minmax(vals, is_min)) || perms(vals).iter().any(|p| same(fold_minmax(p, is_min)))
}
fn nonnull(vals: &[Val]) -> u64 {
    vals.iter().filter(|v| **v != Val::Null).count() as u64
}
/// two cells that every notion of DISTINCT / GROUP BY equality treats as equal
fn same_cell(a: Val, b: Val) -> bool {
    a == b || matches!((a, b), (Val::F(p), Val::F(q)) if f64::from_bits(p) == f64::from_bits(q))
}

/// Everything that post-processes the rows of a select: sum/avg/min/max, count_column on every
/// column, select_with_projection, select_with_options, tx_select, select_distinct, select_grouped.
fn agg_battery(out: &mut Out, ctx: &Ctx, eng: &Eng, cx: &Cx, rot: usize, both_groupings: bool) {
    let e = eng.e();
    let t = eng.t.as_str();
    let c = cx.cond();
    let exp = matching_rows(&ctx.rows, &c, ctx.selftest);
    let rows: Vec<&Vals> = exp.iter().map(|id| &ctx.m.rows[id]).collect();
    let sel = e.select(t, c.clone()).map(|r| ids_of(&r)).unwrap_or_default();
    let base = agg_sig("aggregate", cx, ctx.m, &exp, Some(&sel), None);
    for col in 0..4 {
        check_count_column(out, ctx, eng, cx, &exp, Some(&sel), col);
    }
    for col in 0..3usize {
        let vals: Vec<Val> = rows.iter().map(|r| r[col]).collect();
        let shown: Vec<String> = vals.iter().map(|v| v.show()).collect();
        if col < 2 {
            out.hit(EP_SUM);
            match e.sum(t, COLS[col], c.clone()) {
                Ok(got) => {
                    if !sum_ok(&vals, got) {
                        out.viol(base.clone(), format!("sum({}, where {}) = {got}; the values of the rows satisfying the condition are {shown:?}", COLS[col], cx.show()), ctx.seq, qjson(cx, "sum", &exp, &[]));
                    }
                }
                Err(x) => out.viol("c04:sum:error".into(), format!("sum failed: {x}"), ctx.seq, qjson(cx, "sum", &exp, &[])),
            }
            out.hit(EP_AVG);
            match e.avg(t, COLS[col], c.clone()) {
                Ok(got) => {
                    if !avg_ok(&vals, got) {
                        out.viol(base.clone(), format!("avg({}, where {}) = {got:?}; the values of the rows satisfying the condition are {shown:?}", COLS[col], cx.show()), ctx.seq, qjson(cx, "avg", &exp, &[]));
                    }
                }
                Err(x) => out.viol("c04:avg:error".into(), format!("avg failed: {x}"), ctx.seq, qjson(cx, "avg", &exp, &[])),
            }
        }
        for is_min in [true, false] {
            out.hit(if is_min { EP_MIN } else { EP_MAX });
            let r = if is_min { e.min(t, COLS[col], c.clone()) } else { e.max(t, COLS[col], c.clone()) };
            let name = if is_min { "min" } else { "max" };
            match r {
                Ok(got) => {
                    let g = got.as_ref().map(Val::from_value);
                    if !minmax_ok(&vals, is_min, &g) {
                        out.viol(base.clone(), format!("{name}({}, where {}) = {got:?}; the values of the rows satisfying the condition are {shown:?}", COLS[col], cx.show()), ctx.seq, qjson(cx, name, &exp, &[]));
                    }
                }
                Err(x) => out.viol(format!("c04:{name}:error"), format!("{name} failed: {x}"), ctx.seq, qjson(cx, name, &exp, &[])),
            }
        }
    }
    // thin wrappers around select
    let r = e.select_with_projection(t, c.clone(), Some(vec!["s".into(), "i".into()]));
    if let Ok(rws) = &r {
        if !content_ok(rws, ctx.m, Some(&["s", "i"])) {
            out.viol("c04:select_with_projection:content".into(), format!("select_with_projection({}, [s,i]) returned wrong values", cx.show()), ctx.seq, qjson(cx, "select_with_projection", &exp, &[]));
        }
    }
    check_ids(out, ctx, EP_SELECT_PROJ, "select_with_projection", false, cx, &exp, r.map(|x| ids_of(&x)).map_err(|x| x.to_string()), false);
    let r = e.select_with_options(t, c.clone(), QueryOptions::new().with_timeout_ms(120_000));
    check_ids(out, ctx, EP_SELECT_OPTS, "select_with_options", false, cx, &exp, r.map(|x| ids_of(&x)).map_err(|x| x.to_string()), false);
    let tx = e.begin_transaction();
    let r = e.tx_select(tx, t, c.clone());
    let _ = e.commit(tx);
    check_ids(out, ctx, EP_TX_SELECT, "tx_select", false, cx, &exp, r.map(|x| ids_of(&x)).map_err(|x| x.to_string()), false);
    // select_distinct: a subset of the matching rows without repeated ids in which every matching
    // row is represented by a row with the same key cells
    let keysets: [Option<Vec<usize>>; 3] = [None, Some(vec![2]), Some(vec![3, 0])];
    let keys = &keysets[rot % 3];
    let kcols: Vec<usize> = keys.clone().unwrap_or_else(|| vec![0, 1, 2, 3]);
    let knames: Option<Vec<String>> = keys.as_ref().map(|k| k.iter().map(|c| COLS[*c].to_string()).collect());
    out.hit(EP_DISTINCT);
    match e.select_distinct(t, c.clone(), knames.as_deref()) {
        Ok(rws) => {
            let got = ids_of(&rws);
            let foreign = got.iter().any(|x| !exp.contains(x));
            let dup = sorted(got.clone()).windows(2).any(|w| w[0] == w[1]);
            let unrepresented = exp.iter().find(|id| !got.iter().any(|g| ctx.m.rows.get(g).is_some_and(|gr| kcols.iter().all(|k| same_cell(gr[*k], ctx.m.rows[id][*k])))));
            if foreign || dup || unrepresented.is_some() {
                let sig = if sel != exp { classify(false, cx, ctx.m, &exp, &sel) } else { format!("c04:select_distinct:{}", if foreign { "returns-nonmatching-row" } else if dup { "repeats-row" } else { "matching-row-not-represented" }) };
                let mut rj = qjson(cx, "select_distinct", &exp, &got);
                rj["distinct_columns"] = json!(knames);
                out.viol(sig, format!("select_distinct({}, columns {knames:?}) returned ids {got:?}; the rows satisfying the condition are {exp:?}", cx.show()), ctx.seq, rj);
            }
        }
        Err(x) => out.viol("c04:select_distinct:error".into(), format!("select_distinct failed: {x}"), ctx.seq, qjson(cx, "select_distinct", &exp, &[])),
    }
    // select_grouped without grouping columns: one group over exactly the matching rows
    let aggs = vec![
        AggregateExpr::CountAll,
        AggregateExpr::Count("i".into()),
        AggregateExpr::Count("f".into()),
        AggregateExpr::Count("s".into()),
        AggregateExpr::Count("b".into()),
        AggregateExpr::Sum("i".into()),
        AggregateExpr::Sum("f".into()),
        AggregateExpr::Avg("i".into()),
        AggregateExpr::Avg("f".into()),
        AggregateExpr::Min("i".into()),
        AggregateExpr::Max("f".into()),
        AggregateExpr::Min("s".into()),
    ];
    let colv = |k: usize| -> Vec<Val> { rows.iter().map(|r| r[k]).collect() };
    // quick: the two groupings alternate
    let ungrouped = both_groupings || rot % 2 == 0;
    if ungrouped {
        out.hit(EP_GROUPED);
    }
    match if ungrouped { e.select_grouped(t, c.clone(), &[], &aggs, None) } else { Ok(vec![]) } {
        Ok(_) if !ungrouped => {}
        Ok(groups) => {
            // no rows: no group, or one group of zero rows
            let bad = if groups.is_empty() {
                !exp.is_empty()
            } else if groups.len() != 1 || groups[0].aggregates.len() != aggs.len() {
                true
            } else {
                let a: Vec<&AggregateValue> = groups[0].aggregates.iter().map(|x| &x.1).collect();
                let cnt = |v: &AggregateValue, want: u64| matches!(v, AggregateValue::Count(n) if *n == want);
                let mm = |v: &AggregateValue, k: usize, is_min: bool| match v {
                    AggregateValue::Min(g) | AggregateValue::Max(g) => minmax_ok(&colv(k), is_min, &g.as_ref().map(Val::from_value)),
                    _ => false,
                };
                !(cnt(a[0], exp.len() as u64)
                    && (1..5).all(|k| cnt(a[k], nonnull(&colv(k - 1))))
                    && matches!(a[5], AggregateValue::Sum(x) if sum_ok(&colv(0), *x))
                    && matches!(a[6], AggregateValue::Sum(x) if sum_ok(&colv(1), *x))
                    && matches!(a[7], AggregateValue::Avg(x) if avg_ok(&colv(0), *x))
                    && matches!(a[8], AggregateValue::Avg(x) if avg_ok(&colv(1), *x))
                    && mm(a[9], 0, true)
                    && mm(a[10], 1, false)
                    && mm(a[11], 2, true))
            };
            if bad {
                let sig = if sel != exp { classify(false, cx, ctx.m, &exp, &sel) } else { "c04:select_grouped:no-group-by:aggregates-not-over-the-matching-rows".to_string() };
                out.viol(sig, format!("select_grouped({}, group_by [], 12 aggregates) = {groups:?}; the rows satisfying the condition are {exp:?}", cx.show()), ctx.seq, qjson(cx, "select_grouped", &exp, &[]));
            }
        }
        Err(x) => out.viol("c04:select_grouped:error".into(), format!("select_grouped failed: {x}"), ctx.seq, qjson(cx, "select_grouped", &exp, &[])),
    }
    // grouped by b (true/false/NULL: equality of keys is unambiguous): per key COUNT(*), COUNT(i), COUNT(s)
    let gaggs = vec![AggregateExpr::CountAll, AggregateExpr::Count("i".into()), AggregateExpr::Count("s".into())];
    if both_groupings || !ungrouped {
        out.hit(EP_GROUPED);
    }
    match if both_groupings || !ungrouped { e.select_grouped(t, c.clone(), &["b".to_string()], &gaggs, None) } else { Ok(vec![]) } {
        Ok(_) if !(both_groupings || !ungrouped) => {}
        Ok(groups) => {
            let mut want: BTreeMap<Val, [u64; 3]> = BTreeMap::new();
            for r in &rows {
                let w = want.entry(r[3]).or_insert([0; 3]);
                w[0] += 1;
                w[1] += u64::from(r[0] != Val::Null);
                w[2] += u64::from(r[2] != Val::Null);
            }
            let mut got: BTreeMap<Val, [u64; 3]> = BTreeMap::new();
            let mut understood = true;
            for g in &groups {
                let key = g.group_key.first().and_then(|k| Val::from_value(&k.1));
                let n: Vec<u64> = g.aggregates.iter().filter_map(|a| if let AggregateValue::Count(n) = a.1 { Some(n) } else { None }).collect();
                match (key, n.len()) {
                    (Some(k), 3) => {
                        let w = got.entry(k).or_insert([0; 3]);
                        for j in 0..3 {
                            w[j] += n[j];
                        }
                    }
                    _ => understood = false,
                }
            }
            got.retain(|_, w| w[0] > 0);
            if !understood {
                out.text_unjudged += 1;
            } else if got != want {
                let sig = if sel != exp { classify(false, cx, ctx.m, &exp, &sel) } else { "c04:select_grouped:group-by-b:counts-not-over-the-matching-rows".to_string() };
                out.viol(sig, format!("select_grouped({}, group_by [b], [COUNT(*),COUNT(i),COUNT(s)]) = {groups:?}; per value of b the rows satisfying the condition ({exp:?}) give {want:?}", cx.show()), ctx.seq, qjson(cx, "select_grouped", &exp, &[]));
            }
        }
        Err(x) => out.viol("c04:select_grouped:error".into(), format!("select_grouped failed: {x}"), ctx.seq, qjson(cx, "select_grouped", &exp, &[])),
    }
}

fn limit_battery(out: &mut Out, ctx: &Ctx, eng: &Eng, cx: &Cx, all_batches: bool, rot: usize) {
    let e = eng.e();
    let t = eng.t.as_str();
    let c = cx.cond();
    let exp = matching_rows(&ctx.rows, &c, ctx.selftest);
    let hi = ctx.m.rows.len() + 1;
    let path = index_path(cx, ctx.m).unwrap_or("scan");
    // if plain select already loses/gains rows the cause is the lookup, reported there
    let sel = e.select(t, c.clone()).map(|r| ids_of(&r)).unwrap_or_default();
    if sel != exp {
        out.skipped_limit += 1;
        return;
    }
    let trunc = "c04:limit:index-candidates-truncated-before-recheck-and-sort".to_string();
    let mut grid: BTreeMap<(usize, usize), Vec<u64>> = BTreeMap::new();
    for limit in 0..=hi {
        for offset in 0..=hi {
            out.hit(EP_LIMIT);
            let got = match e.select_with_limit(t, c.clone(), limit, offset) {
                Ok(r) => ids_of(&r),
                Err(x) => {
                    out.viol("c04:limit:error".into(), format!("select_with_limit({}, {limit}, {offset}) failed: {x}", cx.show()), ctx.seq, qjson(cx, "select_with_limit", &exp, &[]));
                    continue;
                }
            };
            let want_len = limit.min(exp.len().saturating_sub(offset));
            let nonmatching = got.iter().any(|x| !exp.contains(x));
            let dup = sorted(got.clone()).windows(2).any(|w| w[0] == w[1]);
            let mut rj = qjson(cx, "select_with_limit", &exp, &got);
            rj["limit"] = json!(limit);
            rj["offset"] = json!(offset);
            if nonmatching || dup {
                out.viol(format!("c04:limit:{path}:returns-{}", if nonmatching { "nonmatching-row" } else { "duplicate" }), format!("select_with_limit({}, limit {limit}, offset {offset}) returned ids {got:?}; the rows satisfying the condition are {exp:?}", cx.show()), ctx.seq, rj);
            } else if got.len() != want_len {
                out.viol(if path != "scan" && got.len() < want_len { trunc.clone() } else { format!("c04:limit:{path}:{}:page-{}", shape(cx), if got.len() < want_len { "short" } else { "long" }) }, format!("select_with_limit({}, limit {limit}, offset {offset}) returned {} rows {got:?}; {} rows satisfy the condition ({exp:?}) so the page must hold {want_len}", cx.show(), got.len(), exp.len()), ctx.seq, rj);
            }
            if limit == 1 || limit == offset + 1 {
                out.hit(EP_ITER);
                let cur = e.select_iter(t, c.clone(), CursorOptions::new().with_limit(limit).with_offset(offset)).map(|cur| cur.filter_map(|x| x.ok()).map(|r| r.id).collect::<Vec<u64>>());
                let bad = match &cur {
                    Ok(g) => g.len() != want_len || g.iter().any(|x| !exp.contains(x)) || sorted(g.clone()).windows(2).any(|w| w[0] == w[1]),
                    Err(_) => true,
                };
                if bad {
                    out.viol(if path != "scan" { trunc.clone() } else { "c04:select_iter:scan:limit-offset".to_string() }, format!("select_iter({}, limit {limit}, offset {offset}) = {cur:?}; the rows satisfying the condition are {exp:?} so the page must hold {want_len} of them", cx.show()), ctx.seq, qjson(cx, "select_iter", &exp, &got));
                }
            }
            grid.insert((limit, offset), got);
        }
    }
    // walking the pages of size L must enumerate exactly the matching rows
    for l in 1..=hi {
        let mut all = vec![];
        let mut off = 0;
        while off <= hi {
            if let Some(g) = grid.get(&(l, off)) {
                all.extend(g.iter().copied());
            }
            off += l;
        }
        if sorted(all.clone()) != exp {
            let mut rj = qjson(cx, "select_with_limit page walk", &exp, &all);
            rj["page_size"] = json!(l);
            out.viol(if path != "scan" { trunc.clone() } else { format!("c04:limit:scan:{}:pages-not-a-partition", shape(cx)) }, format!("paging select_with_limit({}) with page size {l} (offsets 0,{l},..) yields ids {all:?}; the rows satisfying the condition are {exp:?}", cx.show()), ctx.seq, rj);
        }
    }
    // the streaming cursor with every batch size
    for batch in 1..=hi {
        out.hit(EP_BUILDER);
        let r = e.select_streaming_builder(t, c.clone()).batch_size(batch).build().map(|x| x.map(|r| r.id).map_err(|e| e.to_string())).collect::<Result<Vec<u64>, String>>();
        match r {
            Ok(g) if sorted(g.clone()) == exp => {}
            Ok(g) => {
                let mut rj = qjson(cx, "select_streaming", &exp, &g);
                rj["batch_size"] = json!(batch);
                out.viol(if path != "scan" { trunc.clone() } else { format!("c04:streaming:scan:{}", shape(cx)) }, format!("select_streaming({}) with batch size {batch} yields ids {g:?}; the rows satisfying the condition are {exp:?}", cx.show()), ctx.seq, rj);
            }
            Err(x) => out.viol("c04:streaming:error".into(), format!("select_streaming failed: {x}"), ctx.seq, qjson(cx, "select_streaming", &exp, &[])),
        }
    }
    // max_rows: the cursor must stop after min(max, matching) rows, all of them matching, none twice
    let mut combos: Vec<(bool, usize, usize)> = vec![];
    for max in 0..=hi {
        for batch in 1..=hi {
            if all_batches || batch == 1 + (max + exp.len()) % hi {
                combos.push((true, batch, max));
            }
        }
        // the cursor's own setters
        if all_batches || max == (rot + exp.len()) % (hi + 1) {
            combos.push((false, 1 + max % hi, max));
        }
    }
    for (via_builder, batch, max) in combos {
        out.hit(if via_builder { EP_BUILDER } else { EP_STREAMING });
        let cur = if via_builder { e.select_streaming_builder(t, c.clone()).batch_size(batch).max_rows(max).build() } else { e.select_streaming(t, c.clone()).with_batch_size(batch).with_max_rows(max) };
        let r = cur.map(|x| x.map(|r| r.id).map_err(|e| e.to_string())).collect::<Result<Vec<u64>, String>>();
        let want_len = max.min(exp.len());
        match r {
            Ok(g) if g.len() == want_len && g.iter().all(|x| exp.contains(x)) && !sorted(g.clone()).windows(2).any(|w| w[0] == w[1]) => {}
            Ok(g) => {
                let mut rj = qjson(cx, "select_streaming max_rows", &exp, &g);
                rj["batch_size"] = json!(batch);
                rj["max_rows"] = json!(max);
                out.viol(format!("c04:streaming:max-rows:{path}:{}", shape(cx)), format!("select_streaming({}) with batch size {batch} and max_rows {max} yields ids {g:?}; the rows satisfying the condition are {exp:?} so it must yield {want_len} of them", cx.show()), ctx.seq, rj);
            }
            Err(x) => out.viol("c04:streaming:error".into(), format!("select_streaming failed: {x}"), ctx.seq, qjson(cx, "select_streaming", &exp, &[])),
        }
    }
    for offset in 1..=hi {
        out.hit(EP_ITER);
        let cur = e.select_iter(t, c.clone(), CursorOptions::new().with_offset(offset)).map(|cur| cur.filter_map(|x| x.ok()).map(|r| r.id).collect::<Vec<u64>>()).map_err(|x| x.to_string());
        let want = exp.len().saturating_sub(offset);
        let bad = match &cur {
            Ok(g) => g.len() != want || g.iter().any(|x| !exp.contains(x)),
            Err(_) => true,
        };
        if bad {
            out.viol("c04:select_iter:offset".into(), format!("select_iter({}, offset {offset}) = {cur:?}, expected {want} of {exp:?}", cx.show()), ctx.seq, qjson(cx, "select_iter", &exp, &[]));
        }
    }
}

/// the same condition as query text through both router entry points
fn text_battery(out: &mut Out, ctx: &Ctx, eng: &Eng, cx: &Cx) {
    let router = &eng.pool.router;
    let e = eng.e();
    let t = eng.t.as_str();
    let exp = matching_rows(&ctx.rows, &cx.cond(), ctx.selftest);
    // (entry point, where-text, is the reading fixed only by AND>OR precedence?)
    let mut runs: Vec<(&str, String, bool)> = vec![];
    if let Some(w) = cx.legacy_text() {
        runs.push(("execute", w, false));
    }
    if let Some(w) = cx.paren_text() {
        runs.push(("execute_parsed", w, false));
    }
    if cx.atoms() >= 3 {
        if let Some(w) = cx.flat_text(true) {
            runs.push(("execute_parsed", w, true));
        }
        if let Some(w) = cx.flat_text(false) {
            runs.push(("execute", w, true));
        }
    }
    for (entry, w, by_precedence) in runs {
        out.hit(if entry == "execute" { EP_TEXT_LEGACY } else { EP_TEXT_AST });
        let sql = format!("SELECT * FROM {t} WHERE {w}");
        let r = if entry == "execute" { router.execute(&sql) } else { router.execute_parsed(&sql) };
        let shown = format!("SELECT * FROM t WHERE {w}");
        match r {
            Ok(QueryResult::Rows(rows)) => {
                out.text_ok += 1;
                out.judged[if entry == "execute" { EP_TEXT_LEGACY } else { EP_TEXT_AST }] += 1;
                let got = sorted(ids_of(&rows));
                if got == exp {
                    continue;
                }
                // what the engine entry point behind this router path returns for the intended tree
                let direct = if entry == "execute" { e.select(t, cx.cond()) } else { e.select_columnar(t, cx.cond(), ColumnarScanOptions { projection: None, prefer_columnar: true }) }.map(|r| sorted(ids_of(&r))).ok();
                let sig = if direct.as_ref() == Some(&got) {
                    classify(entry == "execute_parsed", cx, ctx.m, &exp, &got)
                } else if by_precedence {
                    format!("c04:text:{entry}:and-or-precedence")
                } else {
                    format!("c04:text:{entry}:condition-mistranslated:{}", shape(cx))
                };
                let mut rj = qjson(cx, entry, &exp, &got);
                rj["sql"] = json!(shown);
                out.viol(sig, format!("QueryRouter::{entry}({shown:?}) returned ids {got:?}; the rows satisfying the condition are {exp:?}"), ctx.seq, rj);
            }
            Ok(other) => out.viol(format!("c04:text:{entry}:not-rows"), format!("{entry}({shown:?}) returned {other:?}"), ctx.seq, json!({"sql": shown})),
            Err(_) => out.text_err += 1,
        }
    }
}

#[derive(Clone, Copy, PartialEq, Debug)]
enum AggK {
    CountAll,
    Count,
    Sum,
    Avg,
    Min,
    Max,
}
/// The aggregate spellings of the AST grammar with the same condition as WHERE text through
/// `QueryRouter::execute_parsed` (the legacy `execute` grammar ignores the select list and has no
/// aggregates). variant 0: COUNT(*) and COUNT(col) for every column; 1: SUM/AVG (+ lower-case and
/// aliased COUNT); 2: MIN/MAX (+ table-qualified COUNT); 3: GROUP BY b with COUNTs; 4: a projected
/// select list with LIMIT l OFFSET o (l in 1..=3, o in 0..=2 taken from `v`), and the legacy
/// `SELECT * FROM t WHERE .. LIMIT l`.
const TEXT_VARIANTS: usize = 5;
fn text_agg_battery(out: &mut Out, ctx: &Ctx, eng: &Eng, cx: &Cx, v: usize) {
    let variant = v % TEXT_VARIANTS;
    let Some(w) = cx.paren_text() else { return };
    let router = &eng.pool.router;
    let e = eng.e();
    let t = eng.t.as_str();
    let c = cx.cond();
    let exp = matching_rows(&ctx.rows, &c, ctx.selftest);
    if variant == 4 {
        let (l, o) = (1 + (v / TEXT_VARIANTS) % 3, (v / (3 * TEXT_VARIANTS)) % 3);
        let mut runs = vec![(EP_TEXT_LIMIT_AST, format!("SELECT s, i FROM {t} WHERE {w} LIMIT {l} OFFSET {o}"), format!("SELECT s, i FROM t WHERE {w} LIMIT {l} OFFSET {o}"), l.min(exp.len().saturating_sub(o)), true)];
        if let Some(lw) = cx.legacy_text() {
            runs.push((EP_TEXT_LIMIT_LEGACY, format!("SELECT * FROM {t} WHERE {lw} LIMIT {l}"), format!("SELECT * FROM t WHERE {lw} LIMIT {l}"), l.min(exp.len()), false));
        }
        for (ep, sql, shown, want_len, ast) in runs {
            out.hit(ep);
            match if ast { router.execute_parsed(&sql) } else { router.execute(&sql) } {
                Ok(QueryResult::Rows(rs)) => {
                    out.text_ok += 1;
                    out.judged[ep] += 1;
                    let got = ids_of(&rs);
                    let foreign = got.iter().any(|x| !exp.contains(x));
                    let dup = sorted(got.clone()).windows(2).any(|w| w[0] == w[1]);
                    let content = content_ok(&rs, ctx.m, if ast { Some(&["s", "i"]) } else { None });
                    if foreign || dup || got.len() != want_len || !content {
                        let direct = if ast { e.select_columnar(t, c.clone(), ColumnarScanOptions { projection: None, prefer_columnar: true }) } else { e.select(t, c.clone()) }.map(|r| sorted(ids_of(&r))).unwrap_or_default();
                        let entry = if ast { "execute_parsed" } else { "execute" };
                        let sig = if direct != exp { classify(ast, cx, ctx.m, &exp, &direct) } else { format!("c04:text:{entry}:limit-offset:{}", if foreign { "returns-nonmatching-row" } else if dup { "repeats-row" } else if !content { "row-content" } else { "page-length" }) };
                        let mut rj = qjson(cx, entry, &exp, &got);
                        rj["sql"] = json!(shown);
                        out.viol(sig, format!("QueryRouter::{entry}({shown:?}) returned ids {got:?} (values as stored: {content}); the rows satisfying the condition are {exp:?} so the page must hold {want_len} of them"), ctx.seq, rj);
                    }
                }
                Ok(_) => out.text_unjudged += 1,
                Err(_) => out.text_err += 1,
            }
        }
        return;
    }
    let rows: Vec<&Vals> = exp.iter().map(|id| &ctx.m.rows[id]).collect();
    let colv = |k: usize| -> Vec<Val> { rows.iter().map(|r| r[k]).collect() };
    out.hit(EP_TEXT_AGG + variant);
    if variant == 3 {
        let sql = format!("SELECT b, COUNT(*), COUNT(i), COUNT(s) FROM {t} WHERE {w} GROUP BY b");
        let shown = format!("SELECT b, COUNT(*), COUNT(i), COUNT(s) FROM t WHERE {w} GROUP BY b");
        match router.execute_parsed(&sql) {
            Ok(QueryResult::Rows(rs)) => {
                let mut want: BTreeMap<Val, [i64; 3]> = BTreeMap::new();
                for r in &rows {
                    let x = want.entry(r[3]).or_insert([0; 3]);
                    x[0] += 1;
                    x[1] += i64::from(r[0] != Val::Null);
                    x[2] += i64::from(r[2] != Val::Null);
                }
                let mut got: BTreeMap<Val, [i64; 3]> = BTreeMap::new();
                for r in &rs {
                    let key = r.values.first().and_then(|v| Val::from_value(&v.1));
                    let n: Vec<i64> = r.values.iter().skip(1).filter_map(|v| if let Value::Int(n) = v.1 { Some(n) } else { None }).collect();
                    match (key, n.len(), r.values.len()) {
                        (Some(k @ (Val::B(_) | Val::Null)), 3, 4) => {
                            let x = got.entry(k).or_insert([0; 3]);
                            for j in 0..3 {
                                x[j] += n[j];
                            }
                        }
                        _ => {
                            out.text_unjudged += 1;
                            return;
                        }
                    }
                }
                got.retain(|_, x| x[0] > 0);
                out.text_ok += 1;
                out.judged[EP_TEXT_AGG + 3] += 1;
                if got != want {
                    let direct = e.select_columnar(t, c.clone(), ColumnarScanOptions { projection: None, prefer_columnar: true }).map(|r| sorted(ids_of(&r))).unwrap_or_default();
                    let sig = if direct != exp { classify(true, cx, ctx.m, &exp, &direct) } else { "c04:text:execute_parsed:group-by:counts-not-over-the-matching-rows".to_string() };
                    let mut rj = qjson(cx, "execute_parsed", &exp, &[]);
                    rj["sql"] = json!(shown);
                    out.viol(sig, format!("QueryRouter::execute_parsed({shown:?}) returned {rs:?}; per value of b the rows satisfying the condition ({exp:?}) give [COUNT(*),COUNT(i),COUNT(s)] = {want:?}"), ctx.seq, rj);
                }
            }
            Ok(_) => out.text_unjudged += 1,
            Err(_) => out.text_err += 1,
        }
        return;
    }
    let specs: Vec<(String, AggK, usize)> = match variant {
        0 => vec![("COUNT(*)".into(), AggK::CountAll, 0), ("COUNT(i)".into(), AggK::Count, 0), ("COUNT(f)".into(), AggK::Count, 1), ("COUNT(s)".into(), AggK::Count, 2), ("COUNT(b)".into(), AggK::Count, 3)],
        1 => vec![("SUM(i)".into(), AggK::Sum, 0), ("SUM(f)".into(), AggK::Sum, 1), ("AVG(i)".into(), AggK::Avg, 0), ("AVG(f)".into(), AggK::Avg, 1), ("count(f) AS n".into(), AggK::Count, 1), ("count(*)".into(), AggK::CountAll, 0)],
        _ => vec![("MIN(i)".into(), AggK::Min, 0), ("MAX(i)".into(), AggK::Max, 0), ("MIN(f)".into(), AggK::Min, 1), ("MAX(f)".into(), AggK::Max, 1), ("MIN(s)".into(), AggK::Min, 2), ("MAX(s)".into(), AggK::Max, 2), (format!("COUNT({t}.s)"), AggK::Count, 2), ("COUNT(b)".into(), AggK::Count, 3)],
    };
    let list = specs.iter().map(|x| x.0.clone()).collect::<Vec<_>>().join(", ");
    let sql = format!("SELECT {list} FROM {t} WHERE {w}");
    let shown = format!("SELECT {} FROM t WHERE {w}", list.replace(&format!("{t}."), "t."));
    match router.execute_parsed(&sql) {
        Ok(QueryResult::Rows(rs)) if rs.len() == 1 && rs[0].values.len() == specs.len() => {
            out.text_ok += 1;
            out.judged[EP_TEXT_AGG + variant] += 1;
            for ((spell, kind, col), (_, v)) in specs.iter().zip(&rs[0].values) {
                let vals = colv(*col);
                let opt = |v: &Value| if matches!(v, Value::Null) { None } else { Some(Val::from_value(v)) };
                let (ok, over) = match kind {
                    AggK::CountAll => (matches!(v, Value::Int(n) if *n as usize == exp.len()), None),
                    AggK::Count => (matches!(v, Value::Int(n) if *n as u64 == nonnull(&vals)), if let Value::Int(n) = v { Some(*n as u64 > nonnull(&vals)) } else { None }),
                    AggK::Sum => (matches!(v, Value::Float(x) if sum_ok(&vals, *x)), None),
                    AggK::Avg => (
                        match v {
                            Value::Null => avg_ok(&vals, None),
                            Value::Float(x) => avg_ok(&vals, Some(*x)),
                            _ => false,
                        },
                        None,
                    ),
                    AggK::Min => (minmax_ok(&vals, true, &opt(v)), None),
                    AggK::Max => (minmax_ok(&vals, false, &opt(v)), None),
                };
                if ok {
                    continue;
                }
                // what the engine call behind this spelling returns for the intended tree, as the router renders it
                let cn = COLS[*col];
                let direct: Option<Value> = match kind {
                    AggK::CountAll => e.count(t, c.clone()).ok().map(|n| Value::Int(n as i64)),
                    AggK::Count => e.count_column(t, cn, c.clone()).ok().map(|n| Value::Int(n as i64)),
                    AggK::Sum => e.sum(t, cn, c.clone()).ok().map(Value::Float),
                    AggK::Avg => e.avg(t, cn, c.clone()).ok().map(|x| x.map_or(Value::Null, Value::Float)),
                    AggK::Min => e.min(t, cn, c.clone()).ok().map(|x| x.unwrap_or(Value::Null)),
                    AggK::Max => e.max(t, cn, c.clone()).ok().map(|x| x.unwrap_or(Value::Null)),
                };
                let sig = if direct.as_ref().map(|d| format!("{d:?}")) == Some(format!("{v:?}")) {
                    let sel = e.select(t, c.clone()).map(|r| ids_of(&r)).ok();
                    match kind {
                        AggK::CountAll => match &sel {
                            Some(s) if *s != exp => classify(false, cx, ctx.m, &exp, s),
                            _ => format!("c04:count:differs-from-select:{}", index_path(cx, ctx.m).unwrap_or("scan")),
                        },
                        AggK::Count => agg_sig("count_column", cx, ctx.m, &exp, sel.as_deref(), over),
                        _ => agg_sig("aggregate", cx, ctx.m, &exp, sel.as_deref(), None),
                    }
                } else {
                    format!("c04:text:execute_parsed:aggregate-differs-from-engine-call:{kind:?}")
                };
                let mut rj = qjson(cx, "execute_parsed", &exp, &[]);
                rj["sql"] = json!(shown);
                rj["aggregate"] = json!(spell);
                out.viol(sig, format!("QueryRouter::execute_parsed({shown:?}): {spell} = {v:?}; the rows satisfying the condition are {exp:?} with {} values {:?}", COLS[*col], vals.iter().map(|x| x.show()).collect::<Vec<_>>()), ctx.seq, rj);
            }
        }
        Ok(_) => out.text_unjudged += 1,
        Err(_) => out.text_err += 1,
    }
}

/// The ways a conditional write can be issued: 0 update/delete_rows, 1 the *_with_options
/// variants, 2 tx_update/tx_delete in an explicit transaction that is committed, 3 UPDATE/DELETE
/// text through execute_parsed, 4 through the legacy execute grammar.
const WRITE_VARIANTS: usize = 5;
/// one conditional update and one conditional delete with `cx`, each on a rebuilt copy of the state
fn write_battery(out: &mut Out, ctx: &Ctx, cx: &Cx, variant: usize) {
    let c = cx.cond();
    let exp = matching_rows(&ctx.rows, &c, ctx.selftest);
    // text variants need a text; fall back to the plain call otherwise
    let text = match variant {
        3 => cx.paren_text(),
        4 => cx.legacy_text(),
        _ => None,
    };
    let variant = if variant >= 3 && text.is_none() { 0 } else { variant };
    let opts = QueryOptions::new().with_timeout_ms(120_000);
    for is_update in [true, false] {
        let (eng, _) = build(ctx.seq);
        let e = eng.e();
        let t = eng.t.as_str();
        let sets = || HashMap::from([("f".to_string(), Value::Float(1.5)), ("b".to_string(), Value::Null)]);
        let (name, ep): (&str, usize) = match (variant, is_update) {
            (0, true) => ("update", EP_UPDATE),
            (0, false) => ("delete_rows", EP_DELETE),
            (1, true) => ("update_with_options", EP_UPDATE_OPTS),
            (1, false) => ("delete_rows_with_options", EP_DELETE_OPTS),
            (2, true) => ("tx_update+commit", EP_TX_UPDATE),
            (2, false) => ("tx_delete+commit", EP_TX_DELETE),
            (3, true) => ("execute_parsed UPDATE", EP_TEXT_UPDATE_AST),
            (3, false) => ("execute_parsed DELETE", EP_TEXT_DELETE_AST),
            (_, true) => ("execute UPDATE", EP_TEXT_UPDATE_LEGACY),
            (_, false) => ("execute DELETE", EP_TEXT_DELETE_LEGACY),
        };
        out.hit(ep);
        let mut sql_shown: Option<String> = None;
        let r: Result<usize, String> = match variant {
            0 => if is_update { e.update(t, c.clone(), sets()) } else { e.delete_rows(t, c.clone()) }.map_err(|x| x.to_string()),
            1 => if is_update { e.update_with_options(t, c.clone(), sets(), opts) } else { e.delete_rows_with_options(t, c.clone(), opts) }.map_err(|x| x.to_string()),
            2 => {
                let tx = e.begin_transaction();
                let r = if is_update { e.tx_update(tx, t, c.clone(), sets()) } else { e.tx_delete(tx, t, c.clone()) };
                match r {
                    Ok(n) => e.commit(tx).map(|_| n).map_err(|x| x.to_string()),
                    Err(x) => {
                        let _ = e.rollback(tx);
                        Err(x.to_string())
                    }
                }
            }
            _ => {
                let w = text.clone().unwrap_or_default();
                let (sql, shown) = match (variant, is_update) {
                    (3, true) => (format!("UPDATE {t} SET f = 1.5, b = NULL WHERE {w}"), format!("UPDATE t SET f = 1.5, b = NULL WHERE {w}")),
                    (3, false) => (format!("DELETE FROM {t} WHERE {w}"), format!("DELETE FROM t WHERE {w}")),
                    (_, true) => (format!("UPDATE {t} SET f=1.5, b=NULL WHERE {w}"), format!("UPDATE t SET f=1.5, b=NULL WHERE {w}")),
                    (_, false) => (format!("DELETE {t} WHERE {w}"), format!("DELETE t WHERE {w}")),
                };
                sql_shown = Some(shown);
                let res = if variant == 3 { eng.pool.router.execute_parsed(&sql) } else { eng.pool.router.execute(&sql) };
                match res {
                    Ok(QueryResult::Count(n)) => {
                        out.text_ok += 1;
                        out.judged[ep] += 1;
                        Ok(n)
                    }
                    Ok(_) => {
                        out.text_unjudged += 1;
                        continue;
                    }
                    Err(_) => {
                        // a text the router rejects is counted, not judged
                        out.text_err += 1;
                        continue;
                    }
                }
            }
        };
        let mut want = ctx.m.rows.clone();
        for id in &exp {
            if is_update {
                let v = want.get_mut(id).unwrap();
                v[1] = fl(1.5);
                v[3] = Val::Null;
            } else {
                want.remove(id);
            }
        }
        let after = eng.raw_rows();
        if r.as_ref().ok() != Some(&exp.len()) || after.as_ref().ok() != Some(&want) {
            let kind = if is_update { "update" } else { "delete" };
            let mut sig = format!("c04:{kind}:{}:wrong-rows", shape(cx));
            if variant >= 3 {
                // does the plain engine call with the intended tree touch the right rows?
                let (eng2, _) = build(ctx.seq);
                let r2 = if is_update { eng2.e().update(&eng2.t, c.clone(), sets()) } else { eng2.e().delete_rows(&eng2.t, c.clone()) };
                if r2.ok() == Some(exp.len()) && eng2.raw_rows().ok().as_ref() == Some(&want) {
                    sig = format!("c04:text:{}:{kind}:condition-mistranslated:{}", if variant == 3 { "execute_parsed" } else { "execute" }, shape(cx));
                }
            }
            let mut rj = qjson(cx, name, &exp, &[]);
            if let Some(sh) = &sql_shown {
                rj["sql"] = json!(sh);
            }
            out.viol(sig, format!("{name}({}) returned {r:?} and left {after:?}; the rows satisfying the condition are {exp:?}", sql_shown.clone().unwrap_or_else(|| format!("where {}", cx.show()))), ctx.seq, rj);
        }
    }
}

struct Plan {
    full: Vec<Cx>,
    pairs: Vec<Cx>,
    triples: Vec<Cx>,
    limit_set: Vec<Cx>,
    write_set: Vec<Cx>,
    text_pairs_step: usize,
    level: u8,
    text_atoms_step: usize,
    /// count_column on all four columns for every condition (otherwise one rotating column; the
    /// aggregate battery always counts all four)
    cc_all: bool,
    /// streaming cursor with max_rows: every batch size (otherwise one rotating batch size per max)
    all_batches: bool,
    /// of the conditions sent as `SELECT *` text, every n-th is also sent with an aggregate select list
    text_agg_atoms_step: usize,
    text_agg_pairs_step: usize,
    text_agg_triples_step: usize,
    /// every conditional write through all WRITE_VARIANTS and every aggregate text in all four
    /// spellings (otherwise one rotating variant / spelling)
    write_all_variants: bool,
}
fn plan(thorough: bool) -> Plan {
    let core = core_atoms();
    let mut pairs = vec![];
    // quick: every second core atom on the left
    for a in core.iter().step_by(if thorough { 1 } else { 2 }) {
        for b in &core {
            pairs.push(and(a, b));
            pairs.push(or(a, b));
        }
    }
    let sc = small_core();
    let mut triples = vec![];
    if thorough {
        let t6: Vec<Cx> = [0usize, 1, 2, 3, 5, 7].iter().map(|k| sc[*k].clone()).collect();
        for a in &t6 {
            for b in &t6 {
                for c in &t6 {
                    triples.push(and(&or(a, b), c));
                    triples.push(or(&and(a, b), c));
                    triples.push(and(a, &or(b, c)));
                    triples.push(or(a, &and(b, c)));
                }
            }
        }
    } else {
        // quick: a diagonal slice of the triples
        for (k, a) in sc.iter().enumerate() {
            let b = &sc[(k + 3) % sc.len()];
            let c = &sc[(k + 5) % sc.len()];
            triples.push(and(&or(a, b), c));
            triples.push(or(&and(a, b), c));
            triples.push(and(a, &or(b, c)));
            triples.push(or(a, &and(b, c)));
        }
    }
    let mut limit_set = vec![Cx::True];
    limit_set.extend(core.iter().cloned());
    for (x, a) in sc.iter().enumerate() {
        for (y, b) in sc.iter().enumerate() {
            if x < 6 && y < 6 && (thorough || x != y) {
                limit_set.push(and(a, b));
            }
        }
    }
    limit_set.push(or(&sc[0], &sc[2]));
    let mut write_set = vec![Cx::True];
    write_set.extend(core.iter().step_by(if thorough { 1 } else { 2 }).cloned());
    if thorough {
        for x in 0..6 {
            for y in [(x + 1) % 6, (x + 3) % 6] {
                write_set.push(and(&sc[x], &sc[y]));
            }
        }
        for k in 0..6 {
            write_set.push(or(&sc[k], &sc[(k + 2) % 8]));
        }
    } else {
        write_set.push(and(&sc[0], &sc[2]));
        write_set.push(or(&sc[1], &sc[5]));
    }
    Plan { full: full_atoms(), pairs, triples, limit_set, write_set, text_pairs_step: if thorough { 2 } else { 5 }, level: if thorough { 2 } else { 1 }, text_atoms_step: if thorough { 1 } else { 2 }, cc_all: false, all_batches: false, text_agg_atoms_step: 6, text_agg_pairs_step: if thorough { 6 } else { 3 }, text_agg_triples_step: if thorough { 4 } else { 1 }, write_all_variants: false }
}

/// `--replay`: one state, so nothing rotates: every column, every batch size, every aggregate
/// spelling on every text condition, every write variant
fn plan_replay() -> Plan {
    Plan { cc_all: true, all_batches: true, text_agg_atoms_step: 1, text_agg_pairs_step: 1, text_agg_triples_step: 1, write_all_variants: true, ..plan(true) }
}
fn battery(seq: &[Op], pl: &Plan, selftest: bool) -> Out {
    let mut out = Out::default();
    let timing = std::env::var("C04_TIMING").is_ok();
    let mut t0 = std::time::Instant::now();
    let mut lap = |what: &str, calls: u64| {
        if timing {
            eprintln!("  [time] {what}: {:?} (calls so far {calls})", t0.elapsed());
            t0 = std::time::Instant::now();
        }
    };
    let (eng, m) = build(seq);
    let ctx = Ctx::new(seq, &m, selftest);
    lap("build", out.calls);
    // running number of the condition: rotates the counted column / the aggregate spelling / the
    // write variant together with the depth of the state
    let mut k = seq.len();
    let text_agg = |out: &mut Out, cx: &Cx, v: usize| {
        if pl.write_all_variants {
            // every spelling, every LIMIT/OFFSET pair of the last one
            for v in (0..4).chain((0..9).map(|p| 4 + TEXT_VARIANTS * p)) {
                text_agg_battery(out, &ctx, &eng, cx, v);
            }
        } else {
            text_agg_battery(out, &ctx, &eng, cx, v);
        }
    };
    read_battery(&mut out, &ctx, &eng, &Cx::True, 2, k, true);
    let core = core_atoms();
    for cx in &pl.full {
        k += 1;
        // the thin wrappers (projection, prefer_columnar=false, select_iter) only on the core atoms
        read_battery(&mut out, &ctx, &eng, cx, if pl.level == 2 && !core.contains(cx) { 1 } else { pl.level }, k, pl.cc_all);
    }
    lap("atoms read", out.calls);
    // quick: every second atom, shifted by the state's depth so that both halves occur
    for (j, cx) in pl.full.iter().skip(seq.len() % pl.text_atoms_step).step_by(pl.text_atoms_step).enumerate() {
        text_battery(&mut out, &ctx, &eng, cx);
        if (j + seq.len()) % pl.text_agg_atoms_step == 0 {
            text_agg(&mut out, cx, j / pl.text_agg_atoms_step + seq.len());
        }
    }
    lap("atoms text", out.calls);
    for cx in &pl.limit_set {
        k += 1;
        limit_battery(&mut out, &ctx, &eng, cx, pl.all_batches, k);
        agg_battery(&mut out, &ctx, &eng, cx, k, pl.all_batches);
    }
    lap("limit+agg", out.calls);
    for cx in &pl.pairs {
        k += 1;
        read_battery(&mut out, &ctx, &eng, cx, 0, k, pl.cc_all);
    }
    lap("pairs read", out.calls);
    for (j, cx) in pl.pairs.iter().step_by(pl.text_pairs_step).enumerate() {
        text_battery(&mut out, &ctx, &eng, cx);
        if (j + seq.len()) % pl.text_agg_pairs_step == 0 {
            text_agg(&mut out, cx, j / pl.text_agg_pairs_step + seq.len());
        }
    }
    lap("pairs text", out.calls);
    for (j, cx) in pl.triples.iter().enumerate() {
        k += 1;
        read_battery(&mut out, &ctx, &eng, cx, 0, k, pl.cc_all);
        // every second triple of each of the four nestings, alternating with the depth
        if (j / 4 + j % 4 + seq.len()) % 2 == 0 {
            text_battery(&mut out, &ctx, &eng, cx);
            if (j / 8) % pl.text_agg_triples_step == 0 {
                text_agg(&mut out, cx, j / 2 + seq.len());
            }
        }
    }
    lap("triples", out.calls);
    // "materialising columns changes only speed, never results"
    let e = eng.e();
    let _ = e.materialize_columns(&eng.t, &["i", "f", "s", "b"]);
    for cx in core_atoms() {
        k += 1;
        read_battery(&mut out, &ctx, &eng, &cx, 0, k, pl.cc_all);
    }
    for c in 0..4 {
        let _ = e.drop_columnar_data(&eng.t, COLS[c]);
    }
    for cx in core_atoms() {
        k += 1;
        read_battery(&mut out, &ctx, &eng, &cx, 0, k, pl.cc_all);
    }
    // neither that nor any read may have changed the rows
    if eng.raw_rows().ok().as_ref() != Some(&m.rows) {
        out.viol("c04:read-or-materialize-changes-rows".into(), "a read query or materialize_columns/drop_columnar_data changed the stored rows".into(), seq, json!({}));
    }
    lap("materialize", out.calls);
    for (j, cx) in pl.write_set.iter().enumerate() {
        if pl.write_all_variants {
            for v in 0..WRITE_VARIANTS {
                write_battery(&mut out, &ctx, cx, v);
            }
        } else {
            write_battery(&mut out, &ctx, cx, (j + seq.len()) % WRITE_VARIANTS);
        }
    }
    lap("write", out.calls);
    out
}

/// Part B: five-row tables (one more than the four lanes of the vectorised filters, which depth-4
/// sequences cannot reach): a lighter battery
fn light_battery(seq: &[Op], pl: &Plan, selftest: bool) -> Out {
    let mut out = Out::default();
    let (eng, m) = build(seq);
    if eng.raw_rows().ok().as_ref() != Some(&m.rows) {
        out.viol("c04:mutation:insert:diverges-from-reference".into(), "rows after replay differ from the reference".into(), seq, json!({}));
        return out;
    }
    let ctx = Ctx::new(seq, &m, selftest);
    if seq.iter().any(|o| matches!(o, Op::Batch(_))) {
        out.ep[EP_BATCH_INSERT] += 1;
    }
    // rotation of the counted column: by condition and by the first two inserted templates
    let mut k = seq.iter().take(2).map(|o| if let Op::Ins(t) = o { *t as usize } else { 0 }).sum::<usize>();
    read_battery(&mut out, &ctx, &eng, &Cx::True, 1, k, true);
    for cx in &pl.full {
        k += 1;
        read_battery(&mut out, &ctx, &eng, cx, 0, k, false);
    }
    limit_battery(&mut out, &ctx, &eng, &Cx::True, false, k);
    for cx in core_atoms() {
        k += 1;
        limit_battery(&mut out, &ctx, &eng, &cx, false, k);
        let exp = matching_rows(&ctx.rows, &cx.cond(), selftest);
        // what select returns, so that a wrong count caused by the lookup is named after the lookup
        let sel = eng.e().select(&eng.t, cx.cond()).map(|r| ids_of(&r)).ok();
        for col in 0..4 {
            check_count_column(&mut out, &ctx, &eng, &cx, &exp, sel.as_deref(), col);
        }
    }
    for cx in pl.pairs.iter().step_by(2) {
        k += 1;
        read_battery(&mut out, &ctx, &eng, cx, 0, k, false);
    }
    out
}
fn part_b(templ: &[u8], pl: &Plan, selftest: bool) -> (Out, u64) {
    let mut seqs: Vec<Vec<Op>> = vec![vec![]];
    for _ in 0..5 {
        seqs = seqs.iter().flat_map(|s| templ.iter().map(move |t| { let mut x = s.clone(); x.push(Op::Ins(*t)); x })).collect();
    }
    let indexed: Vec<Vec<Op>> = seqs.iter().map(|s| { let mut x = s.clone(); x.extend([Op::Hash(0), Op::Btree(0), Op::Hash(1), Op::Btree(1)]); x }).collect();
    // the same indexes created first and the five rows inserted by one batch_insert
    let batched: Vec<Vec<Op>> = seqs
        .iter()
        .map(|s| {
            let ks: Vec<u8> = s.iter().map(|o| if let Op::Ins(k) = o { *k } else { 0 }).collect();
            vec![Op::Hash(0), Op::Btree(0), Op::Hash(1), Op::Btree(1), Op::Batch([ks[0], ks[1], ks[2], ks[3], ks[4]])]
        })
        .collect();
    seqs.extend(indexed);
    seqs.extend(batched);
    let outs: Vec<Out> = seqs.par_iter().map(|s| light_battery(s, pl, selftest)).collect();
    let mut total = Out::default();
    for o in outs {
        total.merge(o, 3);
    }
    (total, seqs.len() as u64)
}

// ------------------------------------------------------------------ exploration
struct Node {
    seq: Vec<Op>,
    model: Model,
}
struct Child {
    seq: Vec<Op>,
    model: Model,
    key: String,
    viol: Option<(String, String, serde_json::Value)>,
}
fn state_key(m: &Model, eng: &Eng) -> String {
    format!("{:?}|{}|{:?}|{:?}|{}", m.rows, m.next, m.hash, m.btree, eng.hidden_digest())
}

fn expand(node: &Node, alpha: &[Op], max_rows: usize) -> Vec<Child> {
    let mut out = vec![];
    for &op in alpha {
        if matches!(op, Op::Ins(_)) && node.model.rows.len() >= max_rows {
            continue;
        }
        let (eng, _) = build(&node.seq);
        let mut m = node.model.clone();
        let want_n = apply_model(&mut m, op);
        let got_n = eng.apply(op, &node.model);
        let mut seq = node.seq.clone();
        seq.push(op);
        let raw = eng.raw_rows();
        let e = eng.e();
        let flags_ok = (0..5).all(|c| e.has_index(&eng.t, COLS[c]) == m.hash[c] && e.has_btree_index(&eng.t, COLS[c]) == m.btree[c]);
        let viol = if got_n.as_ref().ok() != Some(&want_n) || raw.as_ref().ok() != Some(&m.rows) || !flags_ok {
            let kind = match op {
                Op::Ins(_) | Op::Batch(_) => "insert",
                Op::Upd(..) => "update",
                Op::Del(_) => "delete",
                Op::Hash(_) => "hash-index-ddl",
                Op::Btree(_) => "btree-index-ddl",
            };
            Some((format!("c04:mutation:{kind}:diverges-from-reference"), format!("after {:?} the engine returned {got_n:?} and holds {raw:?}; the reference touches {want_n} rows and holds {:?} (index flags ok: {flags_ok})", show_seq(&seq), m.rows), json!({"ops": show_seq(&seq), "ops_code": seq})))
        } else {
            None
        };
        let key = state_key(&m, &eng);
        out.push(Child { seq, model: m, key, viol });
    }
    out
}

/// `--repro`: the minimal standalone reproductions quoted in the report, run literally on fresh engines
fn repro() {
    let ids = |r: Vec<Row>| r.iter().map(|x| x.id).collect::<Vec<u64>>();
    let col = |prefer| ColumnarScanOptions { projection: None, prefer_columnar: prefer };
    {
        let e = RelationalEngine::new();
        e.create_table("t", Schema::new(vec![Column::new("i", ColumnType::Int).nullable()])).unwrap();
        e.insert("t", HashMap::from([("i".to_string(), Value::Null)])).unwrap();
        let c = || Condition::Eq("i".into(), Value::Int(0));
        println!("R1 null cell: select={:?} select_columnar={:?}", ids(e.select("t", c()).unwrap()), ids(e.select_columnar("t", c(), col(true)).unwrap()));
        let c = || Condition::Ne("i".into(), Value::Int(0));
        println!("R1b null cell, !=: select={:?} select_columnar={:?}", ids(e.select("t", c()).unwrap()), ids(e.select_columnar("t", c(), col(true)).unwrap()));
    }
    {
        let e = RelationalEngine::new();
        e.create_table("t", Schema::new(vec![Column::new("f", ColumnType::Float)])).unwrap();
        e.insert("t", HashMap::from([("f".to_string(), Value::Float(f64::INFINITY))])).unwrap();
        let c = || Condition::Eq("f".into(), Value::Float(f64::INFINITY));
        println!("R2 float eq tail: select={:?} select_columnar={:?}", ids(e.select("t", c()).unwrap()), ids(e.select_columnar("t", c(), col(true)).unwrap()));
    }
    {
        let e = RelationalEngine::new();
        e.create_table("t", Schema::new(vec![Column::new("f", ColumnType::Float)])).unwrap();
        e.insert("t", HashMap::from([("f".to_string(), Value::Float(-0.0))])).unwrap();
        let c = || Condition::Eq("f".into(), Value::Float(0.0));
        let before = ids(e.select("t", c()).unwrap());
        e.create_index("t", "f").unwrap();
        println!("R3 hash index -0.0: without index={before:?} with index={:?}", ids(e.select("t", c()).unwrap()));
    }
    {
        let e = RelationalEngine::new();
        e.create_table("t", Schema::new(vec![Column::new("k", ColumnType::Int), Column::new("b", ColumnType::Bool).nullable()])).unwrap();
        e.create_index("t", "b").unwrap();
        e.insert("t", HashMap::from([("k".to_string(), Value::Int(1))])).unwrap();
        let c = || Condition::Eq("b".into(), Value::Null);
        let with = ids(e.select("t", c()).unwrap());
        e.drop_index("t", "b").unwrap();
        println!("R4 omitted nullable column: with index={with:?} without index={:?}", ids(e.select("t", c()).unwrap()));
    }
    {
        let e = RelationalEngine::new();
        e.create_table("t", Schema::new(vec![Column::new("i", ColumnType::Int)])).unwrap();
        e.insert("t", HashMap::from([("i".to_string(), Value::Int(0))])).unwrap();
        e.insert("t", HashMap::from([("i".to_string(), Value::Int(-1))])).unwrap();
        let c = || Condition::Lt("i".into(), Value::Int(1));
        let pages = |e: &RelationalEngine| (0..3).map(|o| ids(e.select_with_limit("t", c(), 1, o).unwrap())).collect::<Vec<_>>();
        let before = pages(&e);
        e.create_btree_index("t", "i").unwrap();
        println!("R5 limit 1, offsets 0,1,2: without index={before:?} with ordered index={:?}", pages(&e));
    }
    {
        let e = RelationalEngine::new();
        e.create_table("t", Schema::new(vec![Column::new("i", ColumnType::Int)])).unwrap();
        e.insert("t", HashMap::from([("i".to_string(), Value::Int(0))])).unwrap();
        e.insert("t", HashMap::from([("i".to_string(), Value::Int(0))])).unwrap();
        e.create_index("t", "i").unwrap();
        let c2 = || Condition::Eq("i".into(), Value::Int(0)).and(Condition::Gt("_id".into(), Value::Int(1)));
        println!("R5b select_with_limit(i=0 AND _id>1, 1, 0)={:?} select={:?}", ids(e.select_with_limit("t", c2(), 1, 0).unwrap()), ids(e.select("t", c2()).unwrap()));
        println!("R5c select_streaming(i=0 AND _id>1), batch 1 = {:?}", e.select_streaming_builder("t", c2()).batch_size(1).build().filter_map(|r| r.ok()).map(|r| r.id).collect::<Vec<_>>());
    }
    {
        let r = QueryRouter::new();
        r.execute_parsed("CREATE TABLE t (a INT, b INT)").unwrap();
        r.execute_parsed("INSERT INTO t (a, b) VALUES (1, 0)").unwrap();
        let show = |q: &str, x: query_router::Result<QueryResult>| println!("R6 {q}: {:?}", x.map(|r| if let QueryResult::Rows(rows) = r { rows.iter().map(|x| x.id).collect::<Vec<_>>() } else { vec![] }));
        let q = "SELECT * FROM t WHERE a = 1 OR a = 2 AND b = 5";
        show("execute", r.execute(q));
        show("execute_parsed", r.execute_parsed(q));
    }
}

fn main() {
    if std::env::args().any(|a| a == "--repro") {
        repro();
        return;
    }
    let selftest = std::env::args().any(|a| a == "--selftest");
    let mut rep = Report::new(if selftest { "C04_selftest" } else { "C04" }, "model_checking");
    let thorough = rep.thorough();
    let probe = rep.args.flag("probe");
    let depth: usize = rep.args.flag("depth").and_then(|s| s.parse().ok()).unwrap_or(if selftest { 2 } else if thorough { 4 } else { 3 });
    let ntempl: usize = rep.args.flag("templates").and_then(|s| s.parse().ok()).unwrap_or(8);
    let max_rows: usize = rep.args.flag("maxrows").and_then(|s| s.parse().ok()).unwrap_or(5);
    rep.rule("BFS over all mutation sequences (8 insert templates covering Int{0,1,-1,MAX,MIN} Float{0.0,-0.0,1.5,NaN,+inf,-inf} String{'a','','b','é'} Bool, explicit NULL and omitted column; update where {_id=1,TRUE} set one of 8 assignments; delete_rows where {_id=1,_id=2,_id>1}; create/drop hash index and ordered index on i,f,s,b,_id) up to the depth, every sequence replayed on a fresh table of the real engine; a state is distinct by (rows, next row id, index flags, raw vectorised columns with alive/null masks, all stored index entries)");
    let pl = plan(thorough);
    rep.rule("part B: every sequence of exactly five inserts over a subset of the templates (quick 3, thorough 6), (a) without indexes, (b) with hash+ordered indexes on i and f created afterwards, (c) with those indexes created first and the five rows inserted by one batch_insert; battery: all atoms + TRUE through select/count/count_column(one rotating column)/select_columnar, the limit/offset/streaming/max_rows sweep and count_column on all four columns for TRUE and the core atoms, half of the pairs");
    rep.rule(&format!(
        "on every distinct state: 6 operators x {{i,f,s,b,_id}} x every alphabet value (cross-type included) + TRUE = {} conditions through select, count, count_column ({}), select_columnar (vectorised{}), select_streaming{} and as WHERE text through QueryRouter::execute (legacy grammar) and ::execute_parsed (AST grammar){}; {} AND/OR pairs of the 25 core atoms and {} AND-of-OR / OR-of-AND triples through select, count, count_column, select_columnar and (pairs: every {}; triples: every 2nd) as text; of the conditions sent as `SELECT *` text every {} atom / every {} pair / every {} triple is also sent through execute_parsed with an aggregate / projected+limited select list, the five spellings rotating with the condition and the depth: [COUNT(*),COUNT(i),COUNT(f),COUNT(s),COUNT(b)] | [SUM(i),SUM(f),AVG(i),AVG(f),count(f) AS n,count(*)] | [MIN/MAX(i,f,s),COUNT(t.s),COUNT(b)] | [b,COUNT(*),COUNT(i),COUNT(s) GROUP BY b] | [s,i .. LIMIT l OFFSET o through execute_parsed and * .. LIMIT l through execute, l in 1..3, o in 0..2 rotating]; for {} conditions (TRUE, core atoms, AND pairs) select_with_limit and select_iter for every limit,offset <= n+1, page walks for every page size, select_streaming(_builder) for every batch size <= n+1 and with max_rows 0..n+1 ({}), count_column on all four columns, sum/avg/min/max, select_with_projection, select_with_options, tx_select, select_distinct (all columns | [s] | [b,i], rotating), select_grouped (no grouping column with 12 aggregates | grouped by b with counts{}); for {} conditions a conditional update and a conditional delete, each on a rebuilt copy, issued {} of: update/delete_rows, update_with_options/delete_rows_with_options, tx_update/tx_delete + commit, UPDATE/DELETE text through execute_parsed, through execute; materialize_columns/drop_columnar_data followed by the core atoms again. non-trivial = the condition selects a proper non-empty subset of the rows",
        pl.full.len() + 1,
        if pl.cc_all { "all four columns" } else { "one column, rotating with the condition and the depth of the state" },
        if thorough { "; on TRUE and the core atoms also with projection, with prefer_columnar=false" } else { "" },
        if thorough { " and select_iter" } else { "" },
        if thorough { "" } else { " (text: every second atom, alternating with depth)" },
        pl.pairs.len(),
        pl.triples.len(),
        if thorough { "2nd" } else { "5th" },
        "6th",
        if thorough { "6th such" } else { "3rd such" },
        if thorough { "4th such group of 8" } else { "such" },
        pl.limit_set.len(),
        if pl.all_batches { "every batch size" } else { "one rotating batch size per max_rows" },
        if pl.all_batches { ", both" } else { ", alternating" },
        pl.write_set.len(),
        if pl.write_all_variants { "through each" } else { "through one (rotating with the condition and the depth)" }
    ));
    rep.rule("aggregates: COUNT(col) must equal the number of rows satisfying the condition whose col is not NULL; SUM/AVG/MIN/MAX must be obtainable by SOME fold order over exactly the values of those rows; select_distinct must return a duplicate-free subset of those rows in which every one of them is represented by a row with equal key cells; grouped counts must add up per key over exactly those rows");
    rep.assume("the oracle is Condition::evaluate applied to the reference rows (the property names it as the definition of 'satisfies'); reference rows are checked against the slab after every mutation");
    rep.assume("the in-memory ordered index is a function of the mutation history summarised by the stored _btree: entries (it cannot be observed directly)");
    rep.assume("text is read with AND binding tighter than OR (the repository's own AST parser does so); texts the router rejects with an error are counted, not judged");
    rep.assume("the aggregate functions' treatment of NULL (skipped by COUNT(col)/SUM/AVG/MIN/MAX) is the documented one; only the row set they run over is judged. An answer of the router whose shape the harness does not understand (not one row per statement / group) is counted as unjudged, not as a violation");
    rep.assume("tables of one engine are independent: each replay uses a fresh uniquely named table in a per-thread engine that is replaced every 4096 tables");

    if let Some(path) = rep.args.replay.clone() {
        let body: serde_json::Value = serde_json::from_str(&std::fs::read_to_string(&path).expect("read replay")).expect("parse replay");
        let seq: Vec<Op> = serde_json::from_value(body["replay"]["ops_code"].clone()).expect("ops_code");
        let o = battery(&seq, &plan_replay(), false);
        for (sig, msg, r) in o.viols {
            rep.violation(sig, msg, r);
        }
        rep.sample(json!({"replayed_ops": show_seq(&seq)}));
        rep.add("evaluations", o.evals);
        rep.finish();
    }

    let alpha = alphabet(ntempl);
    let mut seen: HashSet<String> = HashSet::new();
    let mut total = Out::default();
    let mut transitions = 0u64;
    let mut states = 0u64;
    let mut per_depth = vec![];
    {
        let (eng, m) = build(&[]);
        seen.insert(state_key(&m, &eng));
    }
    let mut level_nodes: Vec<Node> = vec![Node { seq: vec![], model: Model::new() }];
    let mut indexed_states = 0u64;
    let mut deepest: Vec<Op> = vec![];
    for d in 0..=depth {
        if probe.as_deref() != Some("states") {
            let outs: Vec<Out> = level_nodes.par_iter().map(|n| battery(&n.seq, &pl, selftest)).collect();
            for o in outs {
                total.merge(o, 3);
            }
        }
        states += level_nodes.len() as u64;
        indexed_states += level_nodes.iter().filter(|n| n.model.rows.len() >= 2 && (n.model.hash.iter().any(|x| *x) || n.model.btree.iter().any(|x| *x))).count() as u64;
        if let Some(n) = level_nodes.last() {
            deepest = n.seq.clone();
        }
        per_depth.push(json!({"depth": d, "new_states": level_nodes.len()}));
        eprintln!("[C04] depth {d}: {} new states, {} evaluations, {} signatures so far", level_nodes.len(), total.evals, total.by_sig.len());
        if d == depth {
            break;
        }
        let kids: Vec<Vec<Child>> = level_nodes.par_iter().map(|n| expand(n, &alpha, max_rows)).collect();
        level_nodes = vec![];
        for ch in kids.into_iter().flatten() {
            transitions += 1;
            if let Some((sig, msg, r)) = ch.viol {
                let n = total.by_sig.entry(sig.clone()).or_insert(0);
                *n += 1;
                if *n <= 3 {
                    total.viols.push((sig, msg, r));
                }
                continue; // do not explore from a state that already left the reference
            }
            if seen.insert(ch.key) {
                level_nodes.push(Node { seq: ch.seq, model: ch.model });
            }
        }
    }

    // Part B
    let b_templates: Vec<u8> = if selftest { vec![0] } else if thorough { vec![0, 1, 2, 3, 4, 5] } else { vec![1, 4, 5] };
    let (b_out, b_states) = if probe.is_none() { part_b(&b_templates, &pl, selftest) } else { (Out::default(), 0) };
    rep.part("five_row_tables", json!({"insert_templates": b_templates, "states": b_states, "evaluations": b_out.evals, "engine_calls": b_out.calls, "index_configurations": ["none", "hash(i)+btree(i)+hash(f)+btree(f) created after the inserts", "the same indexes created first, rows inserted by one batch_insert"]}));
    eprintln!("[C04] part B: {b_states} five-row states, {} evaluations", b_out.evals);
    states += b_states;
    transitions += b_states * 5;
    total.merge(b_out, 3);

    for (sig, msg, r) in &total.viols {
        rep.violation(sig.clone(), msg.clone(), r.clone());
    }
    rep.add("states", states);
    rep.add("transitions", transitions);
    rep.add("traces_validated_against_impl", transitions);
    rep.add("evaluations", total.evals);
    rep.add("engine_calls", total.calls);
    rep.add("distinct_nontrivial", total.nontrivial);
    rep.set("violating_cases_by_signature", json!(total.by_sig));
    rep.part("exploration", json!({"depth": depth, "alphabet": alpha.len(), "max_rows": max_rows, "per_depth": per_depth, "states_with_index_and_2_rows": indexed_states}));
    rep.part("battery", json!({"atoms": pl.full.len() + 1, "pairs": pl.pairs.len(), "triples": pl.triples.len(), "limit_and_aggregate_conditions": pl.limit_set.len(), "update_delete_conditions": pl.write_set.len(), "distinct_expected_id_sets": total.outcomes.len()}));
    rep.part("text", json!({"router_queries_answered": total.text_ok, "router_queries_rejected_with_error": total.text_err, "router_answers_of_unexpected_shape_not_judged": total.text_unjudged}));
    let ep: BTreeMap<&str, u64> = EP_NAMES.iter().zip(total.ep.0.iter()).map(|(n, c)| (*n, *c)).collect();
    let judged: BTreeMap<&str, u64> = (EP_TEXT_LEGACY..EP_BATCH_INSERT).map(|k| (EP_NAMES[k], total.judged[k])).collect();
    rep.part("entry_points", json!({"calls": ep, "text_statements_answered_and_judged": judged, "count_column_calls_on_an_index_path_whose_candidates_strictly_include_the_answer": total.cc_superset}));
    rep.add("count_column_calls", total.ep[EP_COUNT_COLUMN]);
    rep.part("limit", json!({"conditions_skipped_because_select_already_wrong": total.skipped_limit}));
    rep.sample(json!({"ops": show_seq(&deepest), "query": "i >= 0 (and every other battery condition)"}));
    rep.set("explanation", json!("no separate model of the engine: every mutation and query ran on the real RelationalEngine / QueryRouter; the reference is a BTreeMap of rows filtered with Condition::evaluate"));
    if !selftest && probe.is_none() {
        let unused: Vec<&str> = EP_NAMES.iter().zip(total.ep.0.iter()).filter(|(_, c)| **c == 0).map(|(n, _)| *n).collect();
        if !unused.is_empty() {
            rep.machinery(&format!("vacuous: entry points never called: {unused:?}"));
        }
        if total.cc_superset < 100 {
            rep.machinery("vacuous: count_column hardly ever ran on index candidates that strictly include the answer");
        }
        // every kind of text must actually be answered and judged
        let unanswered: Vec<&str> = (EP_TEXT_LEGACY..EP_BATCH_INSERT).filter(|k| total.judged[*k] * 2 < total.ep[*k] || total.judged[*k] == 0).map(|k| EP_NAMES[k]).collect();
        if !unanswered.is_empty() {
            rep.machinery(&format!("vacuous: the router rejected (or answered in an unknown shape) more than half of the texts of: {unanswered:?}"));
        }
    }
    if !selftest && (states < 50 || total.outcomes.len() < 8 || (probe.is_none() && total.nontrivial < 1000)) {
        rep.machinery("vacuous exploration: too few states / distinct outcomes");
    }
    rep.finish();
}
